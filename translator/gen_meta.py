"""GenMeta.v -- the table-metadata mutators and lookups, translated statement by statement (C15, C09).

    gen_expire            Transaction._make_expire_mutator's inner `mutator`           (transaction.py)
    gen_apply_retention   SnapshotManager._apply_retention                             (snapshot_manager.py)
    gen_most_recent       SnapshotManager._most_recent_snapshot_id                     (snapshot_manager.py)
    gen_by_timestamp      SnapshotManager.get_snapshot_by_timestamp                    (snapshot_manager.py)
    gen_append_mlog       MetadataManager._append_metadata_log                         (metadata_manager.py)

coq/Model/Meta.v models the same functions by hand (they carry the C15 / C09 proofs); Proofs/MetaGenProofs.v proves
each generated definition EQUAL to its hand-written counterpart for all inputs, so the theorems of Props/C15.v and
Props/C09.v are re-established, on every run, for what the source says now.

A small typed translator: straight-line bodies with early returns, `if` blocks that rebind locals, the three loop
idioms that occur (search loop with `return`, accumulate-until-`break`, nothing else), list / set comprehensions,
`sorted(..., key=lambda s: s.timestamp_ms)`, `xs[-n:]`, `next((...), None)`, `max(..., key=...)`, `reversed`, `len`,
comparisons, `and` / `or` / `not`, `is None`, `in`.  Python objects are typed as the model's types:

    TableMetadata -> its fields as separate variables (snapshots, snapshot_log, current_snapshot_id, metadata_log)
    Snapshot      -> snap      (s.snapshot_id -> sid s, s.timestamp_ms -> ts s)
    HistoryEntry  -> Z * Z     (e.snapshot_id -> snd e)
    metadata-log entry dict -> Z * Z  ({"timestamp-ms": a, "metadata-file": b} -> (a, b))
    Optional[int] -> option Z ;  set of ids -> list Z (membership only)

`repoint_parents_to_surviving_ancestors(all, kept)` rewrites the parent links of the objects in `kept` IN PLACE; it is
translated as rebinding `kept` to `repoint_all all kept`, and -- because the objects are shared -- every other list
variable holding snapshots is stale afterwards: reading one is Unsupported (the code only re-assigns them).
Anything outside the subset raises Unsupported (fail closed).
"""
from __future__ import annotations

import ast
from typing import Dict, List, Optional, Tuple

from core import Unsupported, find_function, generator, parse_module, strip_docstring


def _u(n: ast.AST) -> str:
    return ast.unparse(n)


class Env:
    def __init__(self, vars: Dict[str, Tuple[str, str]], fields: Dict[str, Tuple[str, str, str]]):
        self.vars = dict(vars)          # python name -> (coq term, type)
        self.fields = dict(fields)      # "<obj>.<attr>" -> (coq term, type, record field)
        self.stale: set = set()

    def copy(self) -> "Env":
        e = Env(self.vars, self.fields)
        e.stale = set(self.stale)
        return e


SNAP_ATTR = {"snapshot_id": ("sid", "z"), "timestamp_ms": ("ts", "z")}
ENTRY_ATTR = {"snapshot_id": ("snd", "z"), "timestamp_ms": ("fst", "z")}


class Tr:
    """Expression / statement translator for one function."""

    def __init__(self, where: str, ret_type: str):
        self.where = where
        self.ret_type = ret_type
        self.fresh = 0

    def bad(self, msg: str) -> Unsupported:
        return Unsupported(f"{self.where}: {msg}")

    # ------------------------------------------------------------------ expressions
    def expr(self, e: ast.AST, env: Env) -> Tuple[str, str]:
        if isinstance(e, ast.Name):
            if e.id in env.stale:
                raise self.bad(f"`{e.id}` is read after repoint_parents_to_surviving_ancestors rewrote the shared snapshot objects")
            if e.id not in env.vars:
                raise self.bad(f"unknown name {e.id}")
            return env.vars[e.id]
        if isinstance(e, ast.Constant):
            if e.value is None:
                return "None", "none"
            if isinstance(e.value, bool):
                return ("true" if e.value else "false"), "bool"
            if isinstance(e.value, int):
                return f"({e.value})", "z"
            raise self.bad(f"constant {e.value!r}")
        if isinstance(e, ast.Attribute):
            key = _u(e)
            if key in env.fields:
                if key in env.stale:
                    raise self.bad(f"`{key}` is read after repoint_parents_to_surviving_ancestors rewrote the shared snapshot objects")
                t, ty, _ = env.fields[key]
                return t, ty
            v, ty = self.expr(e.value, env)
            if ty == "snap" and e.attr in SNAP_ATTR:
                f, rt = SNAP_ATTR[e.attr]
                return f"({f} {v})", rt
            if ty == "logentry" and e.attr in ENTRY_ATTR:
                f, rt = ENTRY_ATTR[e.attr]
                return f"({f} {v})", rt
            raise self.bad(f"attribute {key} of a {ty}")
        if isinstance(e, ast.BoolOp):
            parts = [self.cond(v, env) for v in e.values]
            op = "&&" if isinstance(e.op, ast.And) else "||"
            return "(" + f" {op} ".join(parts) + ")", "bool"
        if isinstance(e, ast.UnaryOp) and isinstance(e.op, ast.Not):
            return f"(negb {self.cond(e.operand, env)})", "bool"
        if isinstance(e, ast.Compare):
            return self.compare(e, env), "bool"
        if isinstance(e, ast.ListComp) or isinstance(e, ast.SetComp):
            return self.comp(e, env)
        if isinstance(e, ast.Subscript):
            return self.subscript(e, env)
        if isinstance(e, ast.Call):
            return self.call(e, env)
        raise self.bad(f"expression {_u(e)}")

    def cond(self, e: ast.AST, env: Env) -> str:
        t, ty = self.expr(e, env)
        if ty == "bool":
            return t
        if ty in ("snaps", "ids", "log", "mlog"):          # truthiness of a list / set
            return f"(negb (py_empty {t}))"
        raise self.bad(f"truth value of a {ty}: {_u(e)}")

    def compare(self, e: ast.Compare, env: Env) -> str:
        if len(e.ops) != 1:
            raise self.bad(f"chained comparison {_u(e)}")
        op, a, b = e.ops[0], e.left, e.comparators[0]
        if isinstance(op, (ast.Is, ast.IsNot)):
            if not (isinstance(b, ast.Constant) and b.value is None):
                raise self.bad(f"`is` with {_u(b)}")
            t, ty = self.expr(a, env)
            if ty == "oz":
                r = f"(py_is_not_none {t})"
            elif ty == "osnap":
                r = f"(match {t} with Some _ => true | None => false end)"
            else:
                raise self.bad(f"`is None` on a {ty}")
            return r if isinstance(op, ast.IsNot) else f"(negb {r})"
        if isinstance(op, (ast.In, ast.NotIn)):
            x, xt = self.expr(a, env)
            s, st = self.expr(b, env)
            if st != "ids":
                raise self.bad(f"membership in a {st}")
            if xt == "z":
                r = f"(memZ {x} {s})"
            elif xt == "oz":
                r = f"(py_in_ints {x} {s})"
            else:
                raise self.bad(f"membership of a {xt}")
            return r if isinstance(op, ast.In) else f"(negb {r})"
        x, xt = self.expr(a, env)
        y, yt = self.expr(b, env)
        if isinstance(op, (ast.Eq, ast.NotEq)):
            if xt == "z" and yt == "z":
                r = f"({x} =? {y})"
            elif {xt, yt} <= {"z", "oz"}:
                r = f"(opt_eqb {x if xt == 'oz' else '(Some ' + x + ')'} {y if yt == 'oz' else '(Some ' + y + ')'})"
            else:
                raise self.bad(f"== between {xt} and {yt}")
            return r if isinstance(op, ast.Eq) else f"(negb {r})"
        if xt != "z" or yt != "z":
            raise self.bad(f"ordering between {xt} and {yt}: {_u(e)}")
        sym = {ast.Lt: "<?", ast.LtE: "<=?", ast.Gt: ">?", ast.GtE: ">=?"}.get(type(op))
        if sym is None:
            raise self.bad(f"comparison {_u(e)}")
        return f"({x} {sym} {y})"

    def elem_type(self, lt: str) -> str:
        return {"snaps": "snap", "log": "logentry", "mlog": "mlogentry", "ids": "z"}[lt]

    def comp(self, e, env: Env) -> Tuple[str, str]:
        if len(e.generators) != 1 or e.generators[0].is_async or not isinstance(e.generators[0].target, ast.Name):
            raise self.bad(f"comprehension {_u(e)}")
        g = e.generators[0]
        src, st = self.expr(g.iter, env)
        if st not in ("snaps", "log"):
            raise self.bad(f"comprehension over a {st}")
        v = g.target.id
        inner = env.copy()
        inner.vars[v] = (v, self.elem_type(st))
        out = src
        if g.ifs:
            c = " && ".join(self.cond(i, inner) for i in g.ifs)
            out = f"(filter (fun {v} => {c}) {out})"
        if isinstance(e.elt, ast.Name) and e.elt.id == v and isinstance(e, ast.ListComp):
            return out, st
        el, et = self.expr(e.elt, inner)
        if et != "z":
            raise self.bad(f"comprehension element of type {et}")
        return f"(map (fun {v} => {el}) {out})", "ids"

    def subscript(self, e: ast.Subscript, env: Env) -> Tuple[str, str]:
        v, vt = self.expr(e.value, env)
        sl = e.slice
        if (isinstance(sl, ast.Slice) and sl.upper is None and sl.step is None and isinstance(sl.lower, ast.UnaryOp)
                and isinstance(sl.lower.op, ast.USub) and vt in ("snaps", "log", "mlog")):
            n, nt = self.expr(sl.lower.operand, env)
            if nt != "z":
                raise self.bad(f"slice bound of type {nt}")
            return f"(py_neg_slice {n} {v})", vt
        raise self.bad(f"subscript {_u(e)}")

    def key_lambda_ts(self, kw: List[ast.keyword]) -> None:
        if not (len(kw) == 1 and kw[0].arg == "key" and isinstance(kw[0].value, ast.Lambda)
                and _u(kw[0].value.body) == kw[0].value.args.args[0].arg + ".timestamp_ms"):
            raise self.bad(f"sort / max key is not `lambda s: s.timestamp_ms`: {[_u(k) for k in kw]}")

    def call(self, e: ast.Call, env: Env) -> Tuple[str, str]:
        f = _u(e.func)
        if f == "sorted" and len(e.args) == 1:
            self.key_lambda_ts(e.keywords)
            v, vt = self.expr(e.args[0], env)
            if vt != "snaps":
                raise self.bad(f"sorted() of a {vt}")
            return f"(sort_ts {v})", "snaps"
        if f == "len" and len(e.args) == 1 and not e.keywords:
            v, vt = self.expr(e.args[0], env)
            if vt not in ("snaps", "log", "mlog", "ids"):
                raise self.bad(f"len() of a {vt}")
            return f"(Z.of_nat (length {v}))", "z"
        if f == "reversed" and len(e.args) == 1 and not e.keywords:
            v, vt = self.expr(e.args[0], env)
            if vt not in ("log", "snaps"):
                raise self.bad(f"reversed() of a {vt}")
            return f"(rev {v})", vt
        if f == "list" and len(e.args) == 1 and not e.keywords:
            return self.expr(e.args[0], env)            # a shallow copy: same elements
        if f == "next" and len(e.args) == 2 and not e.keywords and isinstance(e.args[0], ast.GeneratorExp) \
                and isinstance(e.args[1], ast.Constant) and e.args[1].value is None:
            g = e.args[0]
            if len(g.generators) != 1 or not isinstance(g.generators[0].target, ast.Name) or not isinstance(g.elt, ast.Name) \
                    or g.elt.id != g.generators[0].target.id or not g.generators[0].ifs:
                raise self.bad(f"next() over {_u(g)}")
            src, st = self.expr(g.generators[0].iter, env)
            if st != "snaps":
                raise self.bad(f"next() over a {st}")
            v = g.elt.id
            inner = env.copy()
            inner.vars[v] = (v, "snap")
            c = " && ".join(self.cond(i, inner) for i in g.generators[0].ifs)
            return f"(find (fun {v} => {c}) {src})", "osnap"
        raise self.bad(f"call {_u(e)}")

    # ------------------------------------------------------------------ statements
    def ret_record(self, env: Env) -> str:
        raise NotImplementedError

    def assigned(self, stmts: List[ast.stmt]) -> List[str]:
        """Python names / fields (re)bound by the statements (for the tuple an `if` block returns)."""
        out: List[str] = []

        def add(n: str) -> None:
            if n not in out:
                out.append(n)
        for s in stmts:
            if isinstance(s, ast.Assign) and len(s.targets) == 1:
                add(_u(s.targets[0]))
            elif isinstance(s, ast.Expr) and isinstance(s.value, ast.Call) and isinstance(s.value.func, ast.Attribute) \
                    and s.value.func.attr in ("append", "add"):
                add(_u(s.value.func.value))
            elif isinstance(s, ast.If):
                for n in self.assigned(s.body) + self.assigned(s.orelse):
                    add(n)
            elif isinstance(s, (ast.Return, ast.Pass)):
                pass
            else:
                raise self.bad(f"statement in a block: {_u(s)[:80]}")
        return out

    def lookup(self, name: str, env: Env) -> Tuple[str, str]:
        if name in env.vars:
            return env.vars[name]
        if name in env.fields:
            return env.fields[name][0], env.fields[name][1]
        raise self.bad(f"unknown {name}")

    def bind(self, name: str, term: str, ty: str, env: Env) -> None:
        env.stale.discard(name)
        if name in env.fields:
            _, fty, rf = env.fields[name]
            if fty != ty and not (fty == "oz" and ty in ("z", "none")):
                raise self.bad(f"{name} : {fty} assigned a {ty}")
            env.fields[name] = (term, fty, rf)
        else:
            env.vars[name] = (term, ty)

    def coqname(self, name: str) -> str:
        return name.replace(".", "_")

    def block(self, stmts: List[ast.stmt], env: Env, k) -> str:
        """Translate statements, then continue with k(env) (a function producing the rest of the term)."""
        if not stmts:
            return k(env)
        s, rest = stmts[0], stmts[1:]
        if isinstance(s, (ast.Pass, ast.ImportFrom, ast.Import)):
            return self.block(rest, env, k)
        if isinstance(s, ast.Expr) and isinstance(s.value, ast.Constant):
            return self.block(rest, env, k)
        if isinstance(s, ast.Return):
            return self.ret(s, env)
        if isinstance(s, ast.Assign) and len(s.targets) == 1 and isinstance(s.targets[0], (ast.Name, ast.Attribute)):
            name = _u(s.targets[0])
            t, ty = self.expr(s.value, env)
            if ty == "none":
                ty = "oz" if name not in env.vars else env.vars[name][1]
                if self.none_type.get(name):
                    ty = self.none_type[name]
                t = {"oidx": "(None : option nat)", "osnap": "(None : option snap)", "oz": "(None : option Z)"}.get(ty, t)
            cn = self.coqname(name)
            self.bind(name, cn, ty, env)
            return f"let {cn} := {t} in\n  " + self.block(rest, env, k)
        if isinstance(s, ast.Expr) and isinstance(s.value, ast.Call):
            c = s.value
            f = _u(c.func)
            if f == "repoint_parents_to_surviving_ancestors" and len(c.args) == 2 and not c.keywords:
                a, at = self.expr(c.args[0], env)
                tgt = _u(c.args[1])
                b, bt = self.expr(c.args[1], env)
                if at != "snaps" or bt != "snaps":
                    raise self.bad("repoint over non-snapshot lists")
                cn = self.coqname(tgt)
                for n, (_, ty) in list(env.vars.items()):
                    if ty in ("snaps", "snap", "osnap") and n != tgt:
                        env.stale.add(n)
                for n, (_, ty, _) in list(env.fields.items()):
                    if ty == "snaps" and n != tgt:
                        env.stale.add(n)
                self.bind(tgt, cn, "snaps", env)
                return f"let {cn} := repoint_all {a} {b} in\n  " + self.block(rest, env, k)
            if isinstance(c.func, ast.Attribute) and c.func.attr in ("append", "add") and len(c.args) == 1 and not c.keywords:
                tgt = _u(c.func.value)
                l, lt = self.lookup(tgt, env)
                cn = self.coqname(tgt)
                if isinstance(c.args[0], ast.Dict) and lt == "mlog":
                    d = c.args[0]
                    keys = [k_.value if isinstance(k_, ast.Constant) else None for k_ in d.keys]
                    if keys != ["timestamp-ms", "metadata-file"]:
                        raise self.bad(f"metadata-log entry keys {keys}")
                    a, at = self.expr(d.values[0], env)
                    b, bt = self.expr(d.values[1], env)
                    if at != "z" or bt != "z":
                        raise self.bad("metadata-log entry values")
                    term = f"({l} ++ [({a}, {b})])"
                else:
                    x, xt = self.expr(c.args[0], env)
                    if c.func.attr == "append" and lt == "snaps" and xt == "snap":
                        term = f"({l} ++ [{x}])"
                    elif c.func.attr == "add" and lt == "ids" and xt == "oz":
                        term = f"(py_ids_add {x} {l})"
                    elif c.func.attr == "add" and lt == "ids" and xt == "z":
                        term = f"({l} ++ [{x}])"
                    else:
                        raise self.bad(f"{_u(s)} ({lt} <- {xt})")
                self.bind(tgt, cn, lt, env)
                return f"let {cn} := {term} in\n  " + self.block(rest, env, k)
            if f.startswith("logger."):
                return self.block(rest, env, k)
            raise self.bad(f"call statement {_u(s)[:80]}")
        if isinstance(s, ast.If):
            returns_body = bool(s.body) and isinstance(s.body[-1], ast.Return)
            if returns_body and not s.orelse:
                c = self.cond(s.test, env)
                return f"if {c} then {self.block(s.body, env.copy(), k)}\n  else " + self.block(rest, env, k)
            # `if X is not None:` over an optional snapshot: bind the value inside
            names = self.assigned(s.body) + [n for n in self.assigned(s.orelse) if n not in self.assigned(s.body)]
            # a name first bound inside the block is local to it (using it afterwards fails closed: unknown name)
            names = [n for n in names if n in env.vars or n in env.fields]
            if not names:
                raise self.bad(f"if-block without effect: {_u(s.test)}")
            cns = [self.coqname(n) for n in names]
            types = [self.lookup(n, env)[1] for n in names]
            tup_now = "(" + ", ".join(self.lookup(n, env)[0] for n in names) + ")"

            def fin(e2: Env) -> str:
                return "(" + ", ".join(self.lookup(n, e2)[0] for n in names) + ")"
            t = s.test
            pat = "'(" + ", ".join(cns) + ")" if len(cns) > 1 else cns[0]
            if (isinstance(t, ast.Compare) and len(t.ops) == 1 and isinstance(t.ops[0], ast.IsNot) and isinstance(t.left, ast.Name)
                    and isinstance(t.comparators[0], ast.Constant) and t.comparators[0].value is None
                    and env.vars.get(t.left.id, ("", ""))[1] == "osnap" and not s.orelse):
                v = t.left.id
                inner = env.copy()
                inner.vars[v] = (v + "_v", "snap")
                body = self.block(s.body, inner, fin)
                term = f"match {env.vars[v][0]} with Some {v}_v => {body} | None => {tup_now} end"
            else:
                c = self.cond(t, env)
                body = self.block(s.body, env.copy(), fin)
                other = self.block(s.orelse, env.copy(), fin) if s.orelse else tup_now
                term = f"if {c} then {body} else {other}"
            for n, cn, ty in zip(names, cns, types):
                self.bind(n, cn, ty, env)
            return f"let {pat} := ({term}) in\n  " + self.block(rest, env, k)
        if isinstance(s, ast.For):
            return self.loop(s, rest, env, k)
        raise self.bad(f"statement {_u(s)[:100]}")

    none_type: Dict[str, str] = {}

    def ret(self, s: ast.Return, env: Env) -> str:
        raise NotImplementedError

    def loop(self, s: ast.For, rest: List[ast.stmt], env: Env, k) -> str:
        if s.orelse or not isinstance(s.target, ast.Name):
            raise self.bad("for ... else / tuple target")
        v = s.target.id
        src, st = self.expr(s.iter, env)
        if st not in ("snaps", "log"):
            raise self.bad(f"loop over a {st}")
        inner = env.copy()
        inner.vars[v] = (v, self.elem_type(st))
        b = s.body
        # search loop: `for v in xs: if c: return e`
        if len(b) == 1 and isinstance(b[0], ast.If) and not b[0].orelse and len(b[0].body) == 1 and isinstance(b[0].body[0], ast.Return):
            c = self.cond(b[0].test, inner)
            hit = self.ret(b[0].body[0], inner)
            return f"match find (fun {v} => {c}) {src} with\n  | Some {v} => {hit}\n  | None => " + self.block(rest, env, k) + "\n  end"
        # accumulate until break: `for v in xs: if c: acc = v else: break`
        if (len(b) == 1 and isinstance(b[0], ast.If) and len(b[0].body) == 1 and isinstance(b[0].body[0], ast.Assign)
                and len(b[0].body[0].targets) == 1 and isinstance(b[0].body[0].targets[0], ast.Name)
                and isinstance(b[0].body[0].value, ast.Name) and b[0].body[0].value.id == v
                and len(b[0].orelse) == 1 and isinstance(b[0].orelse[0], ast.Break)):
            acc = b[0].body[0].targets[0].id
            a, at = self.lookup(acc, env)
            if at != "osnap" or st != "snaps":
                raise self.bad("accumulate loop over non-snapshots")
            c = self.cond(b[0].test, inner)
            self.bind(acc, acc, "osnap", env)
            return f"let {acc} := py_last_of_prefix (fun {v} => {c}) {src} {a} in\n  " + self.block(rest, env, k)
        raise self.bad(f"loop shape: {_u(s)[:120]}")


# ---------------------------------------------------------------------------------------------------------------------
class MutatorTr(Tr):
    """A function that mutates `metadata` in place and returns None."""

    def __init__(self, where: str, obj: str):
        super().__init__(where, "meta")
        self.obj = obj

    def final(self, env: Env) -> str:
        g = lambda a: env.fields[f"{self.obj}.{a}"][0]
        return f"with_snaps m {g('current_snapshot_id')} {g('snapshots')} {g('snapshot_log')}"

    def ret(self, s: ast.Return, env: Env) -> str:
        if s.value is not None and not (isinstance(s.value, ast.Constant) and s.value.value is None):
            raise self.bad(f"mutator returns {_u(s.value)}")
        for key in (f"{self.obj}.snapshots", f"{self.obj}.snapshot_log"):
            if key in env.stale:
                raise self.bad("returns with a stale snapshot list")
        return self.final(env)


def meta_fields(obj: str) -> Dict[str, Tuple[str, str, str]]:
    return {f"{obj}.snapshots": ("(snaps m)", "snaps", "snaps"),
            f"{obj}.snapshot_log": ("(slog m)", "log", "slog"),
            f"{obj}.current_snapshot_id": ("(cur m)", "oz", "cur")}


def _prop_int_prologue(body: List[ast.stmt], obj: str, const_name: str, var: str, where: str) -> List[ast.stmt]:
    """raw = <obj>.properties.get(CONST); if raw is None: return; try: var = int(raw) except (TypeError, ValueError): ...; return"""
    if len(body) < 3:
        raise Unsupported(f"{where}: property prologue missing")
    a, b, c = body[0], body[1], body[2]
    ok = (isinstance(a, ast.Assign) and _u(a) == f"raw = {obj}.properties.get({const_name})"
          and isinstance(b, ast.If) and _u(b.test) == "raw is None" and len(b.body) == 1 and isinstance(b.body[0], ast.Return) and b.body[0].value is None and not b.orelse
          and isinstance(c, ast.Try) and len(c.body) == 1 and _u(c.body[0]) == f"{var} = int(raw)" and len(c.handlers) == 1
          and _u(c.handlers[0].type) == "(TypeError, ValueError)" and isinstance(c.handlers[0].body[-1], ast.Return) and c.handlers[0].body[-1].value is None
          and all(isinstance(x, ast.Expr) and _u(x.value.func).startswith("logger.") for x in c.handlers[0].body[:-1])
          and not c.orelse and not c.finalbody)
    if not ok:
        raise Unsupported(f"{where}: the `{var} = int(properties.get({const_name}))` prologue changed shape")
    return body[3:]


def gen_expire(tx: ast.Module) -> str:
    outer = find_function(tx, "_make_expire_mutator", "Transaction")
    if [a.arg for a in outer.args.args] != ["cutoff_ms"]:
        raise Unsupported("_make_expire_mutator signature changed")
    ob = strip_docstring(outer.body)
    if not (len(ob) == 2 and isinstance(ob[0], ast.FunctionDef) and ob[0].name == "mutator" and _u(ob[1]) == "return mutator"
            and [a.arg for a in ob[0].args.args] == ["metadata"]):
        raise Unsupported("_make_expire_mutator: not `def mutator(metadata): ...; return mutator`")
    tr = MutatorTr("Transaction._make_expire_mutator.mutator", "metadata")
    env = Env({"cutoff_ms": ("cutoff_ms", "z")}, meta_fields("metadata"))
    body = strip_docstring(ob[0].body)
    term = tr.block(body, env, lambda e: tr.ret(ast.Return(value=None), e))
    return ("(* Transaction._make_expire_mutator(cutoff_ms)(metadata) *)\n"
            f"Definition gen_expire (cutoff_ms : Z) (m : meta) : meta :=\n  {term}.\n")


def gen_apply_retention(sm: ast.Module) -> str:
    fn = find_function(sm, "_apply_retention", "SnapshotManager")
    if [a.arg for a in fn.args.args] != ["self", "metadata"]:
        raise Unsupported("_apply_retention signature changed")
    body = _prop_int_prologue(strip_docstring(fn.body), "metadata", "SNAPSHOT_RETENTION_PROPERTY", "retention_count", "SnapshotManager._apply_retention")
    tr = MutatorTr("SnapshotManager._apply_retention", "metadata")
    env = Env({"retention_count": ("retention_count", "z")}, meta_fields("metadata"))
    term = tr.block(body, env, lambda e: tr.ret(ast.Return(value=None), e))
    return ("(* SnapshotManager._apply_retention(metadata): the property unset, or not an integer -> unchanged *)\n"
            "Definition gen_apply_retention (m : meta) : meta :=\n"
            "  match retention m with\n  | PInt retention_count =>\n  "
            f"{term}\n  | _ => m\n  end.\n")


class ValueTr(Tr):
    """A function returning a value; `wrap` says how a returned expression of each type is rendered."""

    def __init__(self, where: str, ret_type: str, raising: bool):
        super().__init__(where, ret_type)
        self.raising = raising

    def ret(self, s: ast.Return, env: Env) -> str:
        if s.value is None:
            raise self.bad("bare return")
        t, ty = self.expr(s.value, env)
        if self.ret_type == "oz":
            v = "None" if ty == "none" else (f"(Some {t})" if ty == "z" else t if ty == "oz" else None)
        elif self.ret_type == "osnap":
            v = "None" if ty == "none" else (t if ty == "osnap" else f"(Some {t})" if ty == "snap" else None)
        else:
            v = t if ty == self.ret_type else None
        if v is None:
            raise self.bad(f"returns a {ty}, expected {self.ret_type}")
        return f"PyOk {v}" if self.raising else v


def gen_most_recent(sm: ast.Module) -> str:
    fn = find_function(sm, "_most_recent_snapshot_id", "SnapshotManager")
    if [a.arg for a in fn.args.args] != ["metadata"]:
        raise Unsupported("_most_recent_snapshot_id signature changed")
    body = strip_docstring(fn.body)
    # the tail `newest = max(metadata.snapshots, key=...); return newest.snapshot_id` can raise ValueError: rendered by hand
    if not (len(body) >= 2 and _u(body[-2]) == "newest = max(metadata.snapshots, key=lambda s: s.timestamp_ms)" and _u(body[-1]) == "return newest.snapshot_id"):
        raise Unsupported("_most_recent_snapshot_id: the timestamp fallback changed shape")
    tr = ValueTr("SnapshotManager._most_recent_snapshot_id", "oz", True)
    env = Env({}, meta_fields("metadata"))

    def tail(e: Env) -> str:
        sn = e.fields["metadata.snapshots"][0]
        return f"match py_max_ts {sn} with Some newest => PyOk (Some (sid newest)) | None => PyRaise end"
    term = tr.block(body[:-2], env, tail)
    return ("(* SnapshotManager._most_recent_snapshot_id(metadata); PyRaise = max() of an empty sequence *)\n"
            f"Definition gen_most_recent (m : meta) : pyres (option Z) :=\n  {term}.\n")


def gen_by_timestamp(sm: ast.Module) -> str:
    fn = find_function(sm, "get_snapshot_by_timestamp", "SnapshotManager")
    if [a.arg for a in fn.args.args] != ["self", "timestamp_ms"]:
        raise Unsupported("get_snapshot_by_timestamp signature changed")
    body = strip_docstring(fn.body)
    if not (body and _u(body[0]) == "snapshots = self.get_all_snapshots()"):
        raise Unsupported("get_snapshot_by_timestamp: does not start from get_all_snapshots()")
    tr = ValueTr("SnapshotManager.get_snapshot_by_timestamp", "osnap", False)
    tr.none_type = {"target_snapshot": "osnap"}
    env = Env({"snapshots": ("snapshots", "snaps"), "timestamp_ms": ("timestamp_ms", "z")}, {})
    term = tr.block(body[1:], env, lambda e: (_ for _ in ()).throw(tr.bad("falls off the end")))
    return ("(* SnapshotManager.get_snapshot_by_timestamp, over get_all_snapshots() *)\n"
            f"Definition gen_by_timestamp (snapshots : list snap) (timestamp_ms : Z) : option snap :=\n  {term}.\n")


def gen_append_mlog(mm: ast.Module) -> str:
    fn = find_function(mm, "_append_metadata_log", "MetadataManager")
    if [a.arg for a in fn.args.args] != ["self", "new_metadata", "base_metadata", "previous_metadata_file"]:
        raise Unsupported("_append_metadata_log signature changed")
    body = strip_docstring(fn.body)
    src = [_u(s) for s in body]
    want_head = ["entry_path = f'{self.metadata_path}/{previous_metadata_file}'", "log = list(new_metadata.metadata_log)"]
    if src[:2] != want_head:
        raise Unsupported(f"_append_metadata_log: head changed: {src[:2]}")
    # `if log and log[-1].get('metadata-file') == entry_path: return`
    g = body[2]
    if not (isinstance(g, ast.If) and not g.orelse and len(g.body) == 1 and isinstance(g.body[0], ast.Return) and g.body[0].value is None
            and _u(g.test) == "log and log[-1].get('metadata-file') == entry_path"):
        raise Unsupported(f"_append_metadata_log: duplicate guard changed: {_u(g)[:120]}")
    # int(raw_max) with default
    want_prop = ("raw_max = new_metadata.properties.get(self.PREVIOUS_VERSIONS_MAX_PROPERTY)",)
    k = 3
    if not (isinstance(body[k], ast.Expr) and _u(body[k]).startswith("log.append(")):
        raise Unsupported("_append_metadata_log: append statement missing")
    if _u(body[k + 1]) != want_prop[0]:
        raise Unsupported(f"_append_metadata_log: property read changed: {_u(body[k + 1])}")
    t = body[k + 2]
    if not (isinstance(t, ast.Try) and [_u(x) for x in t.body] == ["max_entries = int(raw_max) if raw_max is not None else self.DEFAULT_PREVIOUS_VERSIONS_MAX"]
            and len(t.handlers) == 1 and _u(t.handlers[0].type) == "(TypeError, ValueError)"
            and _u(t.handlers[0].body[-1]) == "max_entries = self.DEFAULT_PREVIOUS_VERSIONS_MAX" and not t.orelse and not t.finalbody):
        raise Unsupported("_append_metadata_log: int(raw_max) section changed")
    default = None
    for n in ast.walk(mm):
        if isinstance(n, ast.Assign) and _u(n.targets[0]) == "DEFAULT_PREVIOUS_VERSIONS_MAX" and isinstance(n.value, ast.Constant) and isinstance(n.value.value, int):
            default = n.value.value
    if default is None:
        raise Unsupported("DEFAULT_PREVIOUS_VERSIONS_MAX is not an integer constant")

    class MT(Tr):
        def ret(self_, s, env):        # noqa: N805
            raise self_.bad("return in the tail")
    tr = MT("MetadataManager._append_metadata_log", "mlog")
    # entry_path = prefix + previous_metadata_file with a fixed prefix: file names are opaque Z, the prefix is dropped
    env = Env({"entry_path": ("prev_file", "z"), "log": ("log", "mlog"), "max_entries": ("max_entries", "z")},
              {"base_metadata.last_updated_ms": ("base_updated", "z", ""), "new_metadata.metadata_log": ("log", "mlog", "mlog")})
    tail = tr.block([body[k]] + body[k + 3:], env, lambda e: e.fields["new_metadata.metadata_log"][0])
    return ("(* MetadataManager._append_metadata_log: the new metadata_log from the old one, the property, the base's stamp and the\n"
            "   superseded file (entry_path = metadata_path + '/' + file: names are opaque, the fixed prefix is dropped) *)\n"
            f"Definition gen_default_prevmax : Z := {default}.\n"
            "Definition gen_append_mlog (p : pval) (log : list (Z * Z)) (base_updated prev_file : Z) : list (Z * Z) :=\n"
            "  if py_nonempty_and_last log (fun e => snd e =? prev_file) then log else\n"
            "  let max_entries := py_prop_int_or p gen_default_prevmax in\n"
            f"  {tail}.\n")



class DeleteTr(Tr):
    """SnapshotManager.delete_snapshot between refresh() and commit(): result = pyres (option meta)
    (PyOk None = returns False without committing; PyOk (Some m') = commits m' and returns True)."""

    def __init__(self):
        super().__init__("SnapshotManager.delete_snapshot", "ometa")
        self.committed = False

    def newmeta(self, env: Env) -> str:
        g = lambda a: env.fields[f"new_metadata.{a}"][0]
        return f"(with_snaps m {g('current_snapshot_id')} {g('snapshots')} {g('snapshot_log')})"

    def ret(self, s: ast.Return, env: Env) -> str:
        v = _u(s.value) if s.value is not None else "None"
        if v == "False":
            if self.committed:
                raise self.bad("returns False after committing")
            return "PyOk None"
        if v == "True":
            if not self.committed:
                raise self.bad("returns True without committing")
            if "new_metadata.snapshots" in env.stale:
                raise self.bad("commits a stale snapshot list")
            return f"PyOk (Some {self.newmeta(env)})"
        raise self.bad(f"returns {v}")

    def block(self, stmts: List[ast.stmt], env: Env, k) -> str:
        if not stmts:
            return k(env)
        s, rest = stmts[0], stmts[1:]
        # new_metadata = deepcopy(base_metadata): a separate object with the same field values
        if isinstance(s, ast.Assign) and _u(s) == "new_metadata = deepcopy(base_metadata)":
            for f in ("snapshots", "snapshot_log", "current_snapshot_id"):
                t, ty, rf = env.fields[f"base_metadata.{f}"]
                env.fields[f"new_metadata.{f}"] = (t, ty, rf)
            return self.block(rest, env, k)
        # for i, v in enumerate(xs): if c: acc = i; break
        if (isinstance(s, ast.For) and isinstance(s.target, ast.Tuple) and len(s.target.elts) == 2 and not s.orelse
                and isinstance(s.iter, ast.Call) and _u(s.iter.func) == "enumerate" and len(s.iter.args) == 1
                and len(s.body) == 1 and isinstance(s.body[0], ast.If) and not s.body[0].orelse and len(s.body[0].body) == 2
                and isinstance(s.body[0].body[0], ast.Assign) and isinstance(s.body[0].body[1], ast.Break)
                and _u(s.body[0].body[0].value) == s.target.elts[0].id and isinstance(s.body[0].body[0].targets[0], ast.Name)):
            i, v = s.target.elts[0].id, s.target.elts[1].id
            acc = s.body[0].body[0].targets[0].id
            if env.vars.get(acc, ("", ""))[1] != "oidx":
                raise self.bad(f"{acc} is not initialised to None before the search loop")
            src, st = self.expr(s.iter.args[0], env)
            if st != "snaps":
                raise self.bad("enumerate over non-snapshots")
            inner = env.copy()
            inner.vars[v] = (v, "snap")
            c = self.cond(s.body[0].test, inner)
            env.vars[acc] = (acc, "oidx")
            self.idx_source[acc] = _u(s.iter.args[0])
            return f"let {acc} := py_index_where (fun {v} => {c}) {src} in\n  " + self.block(rest, env, k)
        # if acc is not None: <body ending in return>
        if (isinstance(s, ast.If) and not s.orelse and isinstance(s.test, ast.Compare) and isinstance(s.test.left, ast.Name)
                and env.vars.get(s.test.left.id, ("", ""))[1] == "oidx" and _u(s.test) == f"{s.test.left.id} is not None"
                and s.body and isinstance(s.body[-1], ast.Return)):
            a = s.test.left.id
            inner = env.copy()
            inner.vars[a] = (a + "_v", "idx")
            body = self.block(s.body, inner, k)
            return f"match {a} with\n  | Some {a}_v => {body}\n  | None => " + self.block(rest, env, k) + "\n  end"
        # del xs[idx]
        if isinstance(s, ast.Delete) and len(s.targets) == 1 and isinstance(s.targets[0], ast.Subscript) and isinstance(s.targets[0].slice, ast.Name):
            tgt = _u(s.targets[0].value)
            ix = s.targets[0].slice.id
            if env.vars.get(ix, ("", ""))[1] != "idx":
                raise self.bad(f"del with index {ix}")
            l, lt = self.lookup(tgt, env)
            if lt != "snaps":
                raise self.bad("del on a non-snapshot list")
            # the index was found in a list with the same elements (the base's snapshots, deep-copied)
            cn = self.coqname(tgt)
            self.bind(tgt, cn, "snaps", env)
            return f"let {cn} := py_del_at {env.vars[ix][0]} {l} in\n  " + self.block(rest, env, k)
        # if c: x = self._most_recent_snapshot_id(new_metadata)      (may raise: the continuation is duplicated)
        if (isinstance(s, ast.If) and not s.orelse and len(s.body) == 1 and isinstance(s.body[0], ast.Assign)
                and _u(s.body[0].value) == "self._most_recent_snapshot_id(new_metadata)"):
            c = self.cond(s.test, env)
            tgt = _u(s.body[0].targets[0])
            e_then = env.copy()
            cn = self.coqname(tgt)
            self.bind(tgt, cn, "oz", e_then)
            then = (f"match gen_most_recent {self.newmeta(env)} with\n    | PyOk {cn} => " + self.block(rest, e_then, k)
                    + "\n    | PyRaise => PyRaise\n    end")
            return f"if {c} then {then}\n  else " + self.block(rest, env, k)
        # self.metadata_manager.commit(base_metadata, new_metadata)
        if isinstance(s, ast.Expr) and _u(s) == "self.metadata_manager.commit(base_metadata, new_metadata)":
            self.committed = True
            r = self.block(rest, env, k)
            self.committed = False
            return r
        return super().block(stmts, env, k)

    idx_source: Dict[str, str] = {}


def gen_delete_snapshot(sm: ast.Module) -> str:
    fn = find_function(sm, "delete_snapshot", "SnapshotManager")
    if [a.arg for a in fn.args.args] != ["self", "snapshot_id"]:
        raise Unsupported("delete_snapshot signature changed")
    body = strip_docstring(fn.body)
    head = [_u(x) for x in body[:2]]
    if head != ["base_metadata = self.metadata_manager.refresh()", "if base_metadata is None:\n    return False"]:
        raise Unsupported(f"delete_snapshot: head changed: {head}")
    tr = DeleteTr()
    tr.none_type = {"snapshot_to_remove": "oidx"}
    fields = {k.replace("metadata.", "base_metadata."): v for k, v in meta_fields("metadata").items()}
    env = Env({"snapshot_id": ("snapshot_id", "z")}, fields)
    term = tr.block(body[2:], env, lambda e: (_ for _ in ()).throw(tr.bad("falls off the end")))
    return ("(* SnapshotManager.delete_snapshot(snapshot_id) on the metadata refresh() returned (m), up to the commit:\n"
            "   PyOk None = no such snapshot, nothing committed, returns False; PyOk (Some m') = commits m', returns True *)\n"
            f"Definition gen_delete_snapshot (m : meta) (snapshot_id : Z) : pyres (option meta) :=\n  {term}.\n")



def gen_create_snapshot(sm: ast.Module) -> str:
    """SnapshotManager.create_snapshot with the caller's base / id / sequence number: statement shape checked one by one,
    the metadata update emitted from it (Snapshot / HistoryEntry constructors map to the model's records)."""
    fn = find_function(sm, "create_snapshot", "SnapshotManager")
    where = "SnapshotManager.create_snapshot"
    body = [x for x in strip_docstring(fn.body) if not isinstance(x, (ast.Import, ast.ImportFrom))]
    src = [_u(x) for x in body]
    want = [
        "if base_metadata is None:\n    base_metadata = self.metadata_manager.refresh()",
        "if base_metadata is None:\n    raise ValueError('Cannot create snapshot: no current metadata')",
        "if snapshot_id is None:\n    snapshot_id = uuid.uuid4().int & (1 << 63) - 1",
        "if sequence_number is None:\n    sequence_number = base_metadata.last_sequence_number + 1",
        None,   # snapshot = Snapshot(...)
        "new_metadata = deepcopy(base_metadata)",
        "new_metadata.snapshots.append(snapshot)",
        "new_metadata.current_snapshot_id = snapshot_id",
        "new_metadata.last_sequence_number = max(base_metadata.last_sequence_number, sequence_number)",
        "history_entry = HistoryEntry(timestamp_ms=snapshot.timestamp_ms, snapshot_id=snapshot.snapshot_id)",
        "new_metadata.snapshot_log.append(history_entry)",
        "if metadata_mutator is not None:\n    metadata_mutator(new_metadata)\n    if all((s.snapshot_id != snapshot_id for s in new_metadata.snapshots)):\n"
        "        raise ValueError('metadata_mutator removed the snapshot being committed')",
        "self._apply_retention(new_metadata)",
        "self.metadata_manager.commit(base_metadata, new_metadata)",
        "return snapshot",
    ]
    if len(src) != len(want):
        raise Unsupported(f"{where}: {len(src)} statements, expected {len(want)}")
    for k, (g, w) in enumerate(zip(src, want)):
        if w is not None and g != w:
            raise Unsupported(f"{where}: statement {k} changed:\n  expected: {w}\n  got:      {g}")
    c = body[4]
    if not (isinstance(c, ast.Assign) and _u(c.targets[0]) == "snapshot" and isinstance(c.value, ast.Call) and _u(c.value.func) == "Snapshot" and not c.value.args):
        raise Unsupported(f"{where}: the Snapshot(...) construction changed")
    kw = {k.arg: _u(k.value) for k in c.value.keywords}
    need = {"snapshot_id": "snapshot_id", "timestamp_ms": "int(datetime.now().timestamp() * 1000)", "manifest_list": "manifest_list_path",
            "parent_snapshot_id": "parent_snapshot_id", "sequence_number": "sequence_number"}
    for k_, v in need.items():
        if kw.get(k_) != v:
            raise Unsupported(f"{where}: Snapshot({k_}=...) is {kw.get(k_)!r}, expected {v!r}")
    return ("(* SnapshotManager.create_snapshot(base_metadata = m, snapshot_id, sequence_number, parent_snapshot_id given; t = the clock\n"
            "   reading; ml = the manifests the manifest list names; cut = the expiry cutoff folded in as metadata_mutator), up to the\n"
            "   commit.  PyRaise = the mutator removed the snapshot being committed *)\n"
            "Definition gen_create_snapshot (m : meta) (snapshot_id t : Z) (ml : list manifest) (parent_snapshot_id : option Z)\n"
            "                               (sequence_number : Z) (cut : option Z) : pyres meta :=\n"
            "  let snapshot := {| sid := snapshot_id; ts := t; parent := parent_snapshot_id; seq := sequence_number; mlist := ml |} in\n"
            "  let new_metadata :=\n"
            "    {| cur := Some snapshot_id; snaps := snaps m ++ [snapshot]; slog := slog m ++ [(ts snapshot, sid snapshot)];\n"
            "       last_seq := Z.max (last_seq m) sequence_number; last_updated := last_updated m;\n"
            "       retention := retention m; prevmax := prevmax m; mlog := mlog m |} in\n"
            "  match cut with\n"
            "  | Some cutoff_ms =>\n"
            "      let new_metadata := gen_expire cutoff_ms new_metadata in\n"
            "      if forallb (fun s => negb (sid s =? snapshot_id)) (snaps new_metadata) then PyRaise\n"
            "      else PyOk (gen_apply_retention new_metadata)\n"
            "  | None => PyOk (gen_apply_retention new_metadata)\n"
            "  end.\n")


@generator("GenMeta.v")
def gen(src: str) -> str:
    sm = parse_module(src, "snapshot_manager.py")
    tx = parse_module(src, "transaction.py")
    mm = parse_module(src, "metadata_manager.py")
    parts = [
        "(* GENERATED by translator/gen_meta.py from snapshot_manager.py / transaction.py / metadata_manager.py -- do not edit. *)",
        "From Coq Require Import ZArith List Bool.",
        "Require Import DS.Model.MetaBase DS.Model.Meta DS.Model.MetaPy.",
        "Import ListNotations.",
        "Open Scope Z_scope.",
        "",
        gen_expire(tx),
        gen_apply_retention(sm),
        gen_most_recent(sm),
        gen_by_timestamp(sm),
        gen_append_mlog(mm),
        gen_delete_snapshot(sm),
        gen_create_snapshot(sm),
    ]
    return "\n".join(parts)


if __name__ == "__main__":
    import sys
    print(gen(sys.argv[1]))
