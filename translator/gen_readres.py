"""GenReadRes.v -- how many times each read API resolves the table pointer, and how many times one commit
attempt of a transaction reaches the commit protocol; counted on the source (C02).

Model/Reader.v gives a read ONE pointer resolution (`RPtr`, then the files that version names) and
Model/Commit.v gives a transaction ONE pointer flip.  Both are conventions of the model unless the code is
shown to do the same; this generator counts, by an interval analysis over the ASTs of transaction.py,
snapshot_manager.py and metadata_manager.py,

  read_api_resolutions        for every public read API of Table (scan, to_pandas, scan_batches, iter_records,
                              iter_pandas, row_count): (lo, hi) = the least / greatest number of calls of
                              MetadataManager.refresh() on any path through the API that returns (paths ending
                              in `raise` deliver no rows and are not counted);
  txn_commits_per_attempt     (lo, hi) = calls of MetadataManager.commit() on any path through ONE iteration of
                              Transaction.commit's retry loop that ends in `return` (MetadataManager.commit
                              itself contains exactly one pointer flip: translator/gen_commit.py);
  delete_snapshot_commits     the same for SnapshotManager.delete_snapshot (0 = nothing to delete).

Proofs/ReadResProofs.v proves from these regenerated values that every interval is (1, 1) (resp. hi = 1); a
library change that makes a read resolve the pointer twice (emptiness from one resolution, the snapshot from
another -- the defect this was written for) makes that proof fail, whatever the harness happens to schedule.

The analysis (fail closed: anything else raises Unsupported):
  * statements: sequences, if / else, try (handlers start anywhere between the try's entry and its end), with,
    return, raise, for / while (header expression counted once; a loop BODY, a comprehension's element, a nested
    function or a lambda must contain no counted call -- they run any number of times);
  * `self`, `self.metadata_manager`, `self.snapshot_manager` handed to other code, or a counted method referenced
    without being called (an alias, a hook): Unsupported -- calls through them could not be counted;
  * calls `self.m(...)`, `self.metadata_manager.m(...)`, `self.snapshot_manager.m(...)` are followed into Table /
    MetadataManager / SnapshotManager; `MetadataManager.refresh` (resp. `.commit`) is the counted primitive;
    calls on any other receiver count 0, and the modules behind those receivers (file_manager.py,
    data_operations.py, filters.py, integrity.py) are checked not to mention `.refresh(` / `.commit(` at all;
  * the idiom `if <param> is None: <param> = self.metadata_manager.refresh()` at the top of a callee is NOT taken
    when the call passes that parameter.  The argument is then the caller's own resolution result; that it is
    not None where the call is made was checked by hand on the functions involved, which is why caller and
    callee must both be in translator/gen_read.py's golden-AST pin list (resp. gen_fileops.py's pinned
    Transaction.commit dispatch): a change to any of them fails closed until it is reviewed.
"""
from __future__ import annotations

import ast
from typing import Dict, FrozenSet, List, Optional, Tuple

from core import Unsupported, coq_str, find_function, generator, parse_module, strip_docstring

Iv = Tuple[int, int]
ZERO: Iv = (0, 0)

READ_APIS = ["scan", "to_pandas", "scan_batches", "iter_records", "iter_pandas", "row_count"]
CLASS_FILE = {"Table": "transaction.py", "Transaction": "transaction.py", "SnapshotManager": "snapshot_manager.py",
              "MetadataManager": "metadata_manager.py"}
# receiver expression (unparsed) -> class, per class
RECEIVERS = {
    "Table": {"self": "Table", "self.metadata_manager": "MetadataManager", "self.snapshot_manager": "SnapshotManager"},
    "Transaction": {"self": "Transaction", "self.metadata_manager": "MetadataManager", "self.snapshot_manager": "SnapshotManager"},
    "SnapshotManager": {"self": "SnapshotManager", "self.metadata_manager": "MetadataManager"},
    "MetadataManager": {"self": "MetadataManager"},
}
OTHER_MODULES = ["file_manager.py", "data_operations.py", "filters.py", "integrity.py"]


# MetadataManager methods other than refresh() that read the pointer or a metadata file: a read path that reaches one of them
# from outside MetadataManager has a resolution the count of refresh() calls does not see
OTHER_RESOLVERS = {"_current_version_info", "_read_version_hint", "_read_metadata_file", "_recover_version_from_files", "_parse_hint_content"}


def add(a: Iv, b: Iv) -> Iv:
    return (a[0] + b[0], a[1] + b[1])


def join(a: Optional[Iv], b: Optional[Iv]) -> Optional[Iv]:
    if a is None:
        return b
    if b is None:
        return a
    return (min(a[0], b[0]), max(a[1], b[1]))


class Counter:
    def __init__(self, src: str, primitive: Tuple[str, str], pinned: FrozenSet[Tuple[str, str]]):
        self.src = src
        self.primitive = primitive
        self.pinned = pinned
        self.mods: Dict[str, ast.Module] = {}
        self.memo: Dict[Tuple[str, str, FrozenSet[str]], Iv] = {}
        self.stack: List[Tuple[str, str]] = []

    def fn(self, cls: str, name: str) -> Optional[ast.FunctionDef]:
        f = CLASS_FILE[cls]
        if f not in self.mods:
            self.mods[f] = parse_module(self.src, f)
        for node in ast.walk(self.mods[f]):
            if isinstance(node, ast.ClassDef) and node.name == cls:
                for ch in node.body:
                    if isinstance(ch, ast.FunctionDef) and ch.name == name:
                        return ch
                return None
        raise Unsupported(f"class {cls} not found in {f}")

    # ------------------------------------------------------------------ functions
    def call_count(self, cls: str, name: str, provided: FrozenSet[str], caller: Tuple[str, str]) -> Iv:
        if (cls, name) == self.primitive:
            return (1, 1)
        key = (cls, name, provided)
        if key in self.memo:
            return self.memo[key]
        if (cls, name) in self.stack:
            raise Unsupported(f"recursion through {cls}.{name}")
        fn = self.fn(cls, name)
        if fn is None:
            raise Unsupported(f"{caller[0]}.{caller[1]} calls {cls}.{name}, which does not exist")
        self.stack.append((cls, name))
        try:
            fall, exits = self.block(cls, fn, strip_docstring(fn.body), ZERO, provided)
        finally:
            self.stack.pop()
        total = join(fall, exits)
        if total is None:
            total = ZERO        # every path raises: no rows delivered
        self.memo[key] = total
        return total

    # ------------------------------------------------------------------ statements
    def block(self, cls: str, fn: ast.FunctionDef, stmts: List[ast.stmt], st: Optional[Iv], provided: FrozenSet[str]
              ) -> Tuple[Optional[Iv], Optional[Iv]]:
        """(count at fall-through or None when unreachable, join of the counts at every `return`)."""
        exits: Optional[Iv] = None
        for s in stmts:
            if st is None:
                break
            st, ex = self.stmt(cls, fn, s, st, provided)
            exits = join(exits, ex)
        return st, exits

    def must_be_zero(self, cls: str, fn: ast.FunctionDef, node: ast.AST, what: str) -> None:
        skip = set()
        for n in ast.walk(node):
            if isinstance(n, ast.Call) and isinstance(n.func, ast.Attribute):
                skip.add(id(n.func))                        # judged as a call below
                if ast.unparse(n.func.value) in RECEIVERS[cls]:
                    skip.add(id(n.func.value))
            if isinstance(n, ast.Attribute) and isinstance(n.value, ast.Name):
                skip.add(id(n.value))
        for n in ast.walk(node):
            if isinstance(n, ast.Call) and self.expr_call(cls, fn, n, frozenset()) != ZERO:
                raise Unsupported(f"{cls}.{fn.name}: a counted call inside {what}: {ast.unparse(n)[:80]}")
            if isinstance(n, (ast.Attribute, ast.Name)) and id(n) not in skip:
                self.expr(cls, fn, n, frozenset())          # raises when a counted object or method escapes

    def stmt(self, cls: str, fn: ast.FunctionDef, s: ast.stmt, st: Iv, provided: FrozenSet[str]) -> Tuple[Optional[Iv], Optional[Iv]]:
        where = f"{cls}.{fn.name}"
        if isinstance(s, (ast.Import, ast.ImportFrom, ast.Pass, ast.Global, ast.Nonlocal)):
            return st, None
        if isinstance(s, ast.FunctionDef):
            self.must_be_zero(cls, fn, s, f"the nested function {s.name}")
            return st, None
        if isinstance(s, ast.Return):
            return None, add(st, self.expr(cls, fn, s.value, provided))
        if isinstance(s, ast.Raise):
            return None, None
        if isinstance(s, (ast.Expr, ast.Assign, ast.AnnAssign, ast.AugAssign)):
            return add(st, self.expr(cls, fn, s.value, provided)), None
        if isinstance(s, ast.If):
            t = s.test
            # `if <param> is None:` with the parameter passed by the caller: not taken (see module docstring)
            if (isinstance(t, ast.Compare) and isinstance(t.left, ast.Name) and t.left.id in provided and len(t.ops) == 1
                    and isinstance(t.ops[0], ast.Is) and isinstance(t.comparators[0], ast.Constant) and t.comparators[0].value is None):
                if s.orelse:
                    raise Unsupported(f"{where}: `if {t.left.id} is None` with an else branch")
                return st, None
            st = add(st, self.expr(cls, fn, t, provided))
            f1, e1 = self.block(cls, fn, s.body, st, provided)
            f2, e2 = self.block(cls, fn, s.orelse, st, provided)
            return join(f1, f2), join(e1, e2)
        if isinstance(s, (ast.For, ast.While)):
            head = s.iter if isinstance(s, ast.For) else s.test
            st = add(st, self.expr(cls, fn, head, provided))
            for b in s.body + s.orelse:
                self.must_be_zero(cls, fn, b, "a loop body")
            # returns inside the loop leave with the count reached at its head
            has_return = any(isinstance(n, ast.Return) for b in s.body + s.orelse for n in ast.walk(b))
            return st, (st if has_return else None)
        if isinstance(s, ast.With):
            for it in s.items:
                st = add(st, self.expr(cls, fn, it.context_expr, provided))
            return self.block(cls, fn, s.body, st, provided)
        if isinstance(s, ast.Try):
            f_body, e_body = self.block(cls, fn, s.body, st, provided)
            exits = e_body
            # a handler starts anywhere between the try's entry and its end (counts only grow)
            entry_h = join(st, join(f_body, e_body))
            falls = None
            if s.orelse:
                f_body, e_else = self.block(cls, fn, s.orelse, f_body, provided)
                exits = join(exits, e_else)
            falls = f_body
            for h in s.handlers:
                f_h, e_h = self.block(cls, fn, h.body, entry_h, provided)
                falls = join(falls, f_h)
                exits = join(exits, e_h)
            if s.finalbody:
                for b in s.finalbody:
                    self.must_be_zero(cls, fn, b, "a finally block")
            return falls, exits
        if isinstance(s, (ast.Assert, ast.Delete)):
            return st, None
        raise Unsupported(f"{where}: statement kind {type(s).__name__}: {ast.unparse(s)[:80]}")

    # ------------------------------------------------------------------ expressions
    def expr(self, cls: str, fn: ast.FunctionDef, e: Optional[ast.AST], provided: FrozenSet[str]) -> Iv:
        if e is None:
            return ZERO
        if isinstance(e, (ast.Lambda, ast.ListComp, ast.SetComp, ast.DictComp, ast.GeneratorExp)):
            if isinstance(e, ast.Lambda):
                self.must_be_zero(cls, fn, e.body, "a lambda")
                return ZERO
            first = self.expr(cls, fn, e.generators[0].iter, provided)
            for part in ([e.elt] if hasattr(e, "elt") else [e.key, e.value]) + [c for g in e.generators for c in g.ifs] + \
                        [g.iter for g in e.generators[1:]]:
                self.must_be_zero(cls, fn, part, "a comprehension")
            return first
        if isinstance(e, ast.BoolOp):
            vals = [self.expr(cls, fn, v, provided) for v in e.values]
            return (vals[0][0], sum(v[1] for v in vals))
        if isinstance(e, ast.IfExp):
            t = self.expr(cls, fn, e.test, provided)
            j = join(self.expr(cls, fn, e.body, provided), self.expr(cls, fn, e.orelse, provided))
            assert j is not None
            return add(t, j)
        if isinstance(e, ast.Name):
            if e.id == "self":
                raise Unsupported(f"{cls}.{fn.name}: `self` is handed to other code (calls through it cannot be counted)")
            return ZERO
        if isinstance(e, ast.Attribute):
            u = ast.unparse(e)
            if u != "self" and u in RECEIVERS[cls]:
                raise Unsupported(f"{cls}.{fn.name}: `{u}` is handed to other code (calls through it cannot be counted)")
            recv = ast.unparse(e.value)
            if recv in RECEIVERS[cls]:
                # a bound method taken without calling it (a hook, an alias): it may be called any number of times
                tcls = RECEIVERS[cls][recv]
                if (tcls, e.attr) == self.primitive or (self.fn(tcls, e.attr) is not None
                                                        and self.call_count(tcls, e.attr, frozenset(), (cls, fn.name)) != ZERO):
                    raise Unsupported(f"{cls}.{fn.name}: the counted method {u} is referenced without being called")
                return ZERO
            return self.expr(cls, fn, e.value, provided)
        if isinstance(e, ast.Call):
            if isinstance(e.func, ast.Attribute):
                total = ZERO if ast.unparse(e.func.value) in RECEIVERS[cls] else self.expr(cls, fn, e.func.value, provided)
            elif isinstance(e.func, ast.Name):
                total = ZERO
            else:
                total = self.expr(cls, fn, e.func, provided)
            for a in e.args:
                total = add(total, self.expr(cls, fn, a.value if isinstance(a, ast.Starred) else a, provided))
            for k in e.keywords:
                total = add(total, self.expr(cls, fn, k.value, provided))
            return add(total, self.expr_call(cls, fn, e, provided))
        total = ZERO
        for ch in ast.iter_child_nodes(e):
            if isinstance(ch, (ast.expr_context, ast.operator, ast.unaryop, ast.cmpop, ast.boolop)):
                continue
            total = add(total, self.expr(cls, fn, ch, provided))
        return total

    def expr_call(self, cls: str, fn: ast.FunctionDef, c: ast.Call, _provided: FrozenSet[str]) -> Iv:
        """The count contributed by the call itself (arguments are counted by the caller)."""
        f = c.func
        if not isinstance(f, ast.Attribute):
            return ZERO                       # a plain function / class / local callable: checked textually (OTHER_MODULES)
        recv = ast.unparse(f.value)
        target_cls = RECEIVERS[cls].get(recv)
        if target_cls is None:
            if recv.startswith("self.metadata_manager") or recv.startswith("self.snapshot_manager"):
                raise Unsupported(f"{cls}.{fn.name}: call through {recv}.{f.attr}")
            return ZERO
        if target_cls == "MetadataManager" and cls != "MetadataManager" and f.attr in OTHER_RESOLVERS and self.primitive[1] == "refresh":
            # a second way to learn what the pointer names, not counted by the refresh() count: fail closed
            raise Unsupported(f"{cls}.{fn.name}: resolves the pointer through {recv}.{f.attr}() instead of refresh(); the resolution count "
                              f"no longer counts pointer reads")
        callee = self.fn(target_cls, f.attr)
        if callee is None:
            if (target_cls, f.attr) == self.primitive:
                return (1, 1)
            # an attribute that is not a method of the class (a field holding a callable, an inherited method)
            if recv == "self":
                return ZERO
            raise Unsupported(f"{cls}.{fn.name}: {recv}.{f.attr} is not a method of {target_cls}")
        # parameters passed explicitly (positionally or by keyword)
        params = [a.arg for a in callee.args.args if a.arg != "self"]
        given = set(params[:len(c.args)]) | {k.arg for k in c.keywords if k.arg}
        idiom = frozenset(p for p in given if self.has_none_idiom(callee, p))
        if idiom:
            for who in ((cls, fn.name), (target_cls, f.attr)):
                if who not in self.pinned:
                    raise Unsupported(f"{cls}.{fn.name} passes {sorted(idiom)} to {target_cls}.{f.attr}: {who[0]}.{who[1]} is not "
                                      f"golden-pinned, so that the argument is not None there has not been reviewed")
        return self.call_count(target_cls, f.attr, idiom, (cls, fn.name))

    @staticmethod
    def has_none_idiom(callee: ast.FunctionDef, p: str) -> bool:
        for s in strip_docstring(callee.body):
            if (isinstance(s, ast.If) and isinstance(s.test, ast.Compare) and isinstance(s.test.left, ast.Name)
                    and s.test.left.id == p and len(s.test.ops) == 1 and isinstance(s.test.ops[0], ast.Is)
                    and isinstance(s.test.comparators[0], ast.Constant) and s.test.comparators[0].value is None):
                return True
        return False


def _pinned_read() -> FrozenSet[Tuple[str, str]]:
    import gen_read
    return frozenset((c, f) for _m, c, f in gen_read.PINNED)


def read_resolutions(src: str) -> Dict[str, Iv]:
    cn = Counter(src, ("MetadataManager", "refresh"), _pinned_read())
    out = {}
    for api in READ_APIS:
        if cn.fn("Table", api) is None:
            raise Unsupported(f"Table.{api}: read API not found")
        out[api] = cn.call_count("Table", api, frozenset(), ("<api>", api))
    return out


def commit_counts(src: str) -> Tuple[Iv, Iv]:
    # Transaction.commit / _commit_file_ops are pinned by translator/gen_fileops.py (dispatch and operation partitioning);
    # SnapshotManager.create_snapshot's `if base_metadata is None` idiom: the caller passes the base it validated as not None
    pinned = frozenset({("Transaction", "commit"), ("Transaction", "_commit_file_ops"), ("SnapshotManager", "create_snapshot")})
    cn = Counter(src, ("MetadataManager", "commit"), pinned)
    commit = cn.fn("Transaction", "commit")
    if commit is None:
        raise Unsupported("Transaction.commit not found")
    loops = [s for s in strip_docstring(commit.body) if isinstance(s, ast.While)]
    if len(loops) != 1 or len(loops[0].body) != 1 or not isinstance(loops[0].body[0], ast.Try):
        raise Unsupported("Transaction.commit: expected exactly one retry loop `while ...: try: ...`")
    # nothing outside the retry loop may reach the commit protocol
    for s in strip_docstring(commit.body):
        if s is not loops[0]:
            cn.stack.append(("Transaction", "commit"))
            try:
                cn.must_be_zero("Transaction", commit, s, "Transaction.commit outside its retry loop")
            finally:
                cn.stack.pop()
    tr = loops[0].body[0]
    cn.stack.append(("Transaction", "commit"))
    try:
        for h in tr.handlers:
            for b in h.body:
                cn.must_be_zero("Transaction", commit, b, "an exception handler of the retry loop")
        fall, exits = cn.block("Transaction", commit, tr.body, ZERO, frozenset())
    finally:
        cn.stack.pop()
    if fall is not None:
        raise Unsupported("Transaction.commit: an attempt can fall out of its try body without returning")
    if exits is None:
        raise Unsupported("Transaction.commit: no attempt returns")
    # the attempt's successful exit must be `return True` directly after the dispatch (checked by gen_fileops.gen_partition)
    dele = cn.call_count("SnapshotManager", "delete_snapshot", frozenset(), ("<api>", "delete_snapshot"))
    return exits, dele


def check_other_modules(src: str) -> None:
    import os
    for m in OTHER_MODULES:
        with open(os.path.join(src, m), encoding="utf-8") as f:
            text = f.read()
        for needle in (".refresh(", ".commit(", "get_current_snapshot("):
            if needle in text:
                raise Unsupported(f"{m} mentions `{needle}`: calls through this module can no longer be counted as 0")


def _iv(v: Iv) -> str:
    return f"({v[0]}, {v[1]})%nat"


@generator("GenReadRes.v")
def gen_readres(src: str) -> str:
    check_other_modules(src)
    res = read_resolutions(src)
    per_attempt, dele = commit_counts(src)
    rows = "; ".join(f"({coq_str(k)}, {_iv(v)})" for k, v in res.items())
    return f"""(* GENERATED by translator/gen_readres.py from src/datashard/{{transaction,snapshot_manager,metadata_manager}}.py -- do not edit *)
From Coq Require Import List String.
Import ListNotations.
Local Open Scope string_scope.

(* per read API of Table: (least, greatest) number of MetadataManager.refresh() calls = pointer resolutions on any
   path through the API that returns *)
Definition read_api_resolutions : list (string * (nat * nat)) :=
  [{rows}].
(* MetadataManager.commit() calls on any returning path through ONE attempt (one iteration of the retry loop) of
   Transaction.commit, whatever operations the transaction queued *)
Definition txn_commits_per_attempt : nat * nat := {_iv(per_attempt)}.
(* ... and of SnapshotManager.delete_snapshot (0: the snapshot does not exist, nothing is committed) *)
Definition delete_snapshot_commits : nat * nat := {_iv(dele)}.
"""


if __name__ == "__main__":
    import sys
    print(gen_readres(sys.argv[1]))
