"""GenSchema.v -- the literal tables and comparison shape behind schema-argument validation (C11).

Regenerated on every run from
  data_structures.Schema.__post_init__        valid_primitive_types        -> Inductive ptype
  data_operations._iceberg_type_to_arrow      type_mapping + its default   -> Inductive atype, arrow_of_type
  data_operations._compute_column_bounds      the "no bounds" type tuple   -> bounds_skipped
  transaction.Transaction._schema_signature   container kind + tuple shape -> sig_ordered, sig_comps
and pinned by golden AST shape (fail closed when the source shape changes):
  transaction._validate_schema_against_table  (legacy table => nothing enforced; signatures compared with !=)
  data_operations.create_arrow_schema         (cache keyed by schema_id only; fields in list order; nullable = not required)
  data_operations.validate_records_strict     the per-record key tests (every key a str; no unknown key), in this order
  data_operations._value_fits / _iceberg_type_to_arrow   the list<element> branches (element = text[5:-1], recursion)
  data_structures.Schema.__post_init__        field ids are integers (bool excluded); duplicate ids / names refused
  transaction.append_files / _with_verified_bounds / append_data   bounds supplied with a pre-built file are recomputed
  transaction.append_data                     the schema argument object is validated again (Schema(...)) before it is compared
and, for the behaviour under storage faults (Model/SchemaTx.v), regenerated as booleans -- is the failing
operation outside every `try`, so that its exception reaches the caller? --
  transaction._resolve_table_schema           self.metadata_manager.refresh()     -> resolve_refresh_propagates
  transaction.append_data                     self._register_inflight(file_path)  -> marker_failure_propagates
  transaction.append_data                     self.append_files([...])            -> queue_failure_propagates
  transaction.append_files                    validate_file_exists(...) in the loop -> files_exists_failure_propagates
and for the GC-protection step of a pre-built-file call (append_files -> _protect_adopted_files, which stands before
the queueing; all false when the source has no such step) -- does the failure reach the caller: is the failing
operation outside every `try`, or only inside `try` blocks all of whose handlers end in a bare `raise`? --
  _protect_adopted_files                      self._register_inflight(...)        -> adopt_marker_failure_propagates
  _protect_adopted_files + garbage_collector.collection_in_progress   the listing of announced runs
                                                                                  -> adopt_listing_failure_propagates
  _protect_adopted_files + collection_in_progress   `if running is not None: raise`; an announcement that is in force
                                              or cannot be read counts as a run  -> adopt_refused_while_collecting
  _protect_adopted_files                      validate_file_exists(...) re-check  -> adopt_recheck_failure_propagates
  _protect_adopted_files                      the handler deletes every marker the call wrote -> adopt_cleanup_on_failure

The hand-written model (Model/Schema.v) builds `signature` / `accept_schema` from sig_ordered and
sig_comps, so replacing the ordered list by a set, or dropping the field id from the tuple, changes
the Gallina term the theorems are proved about.
"""
from __future__ import annotations

import ast
import re
from typing import Dict, List, Tuple

from core import Unsupported, dump, find_function, generator, parse_module, strip_docstring


def _norm(s: str) -> str:
    return re.sub(r"\s+", "", s).replace(",)", ")")


class _StripRaise(ast.NodeTransformer):
    """Error messages are not part of the pinned shape."""

    def visit_Raise(self, node: ast.Raise) -> ast.AST:
        return ast.Raise(exc=None, cause=None)


def _pinned(fn: ast.FunctionDef) -> str:
    body = strip_docstring(list(fn.body))
    mod = ast.Module(body=body, type_ignores=[])
    mod = _StripRaise().visit(mod)
    return _norm(dump(mod.body))


def _ident(s: str) -> str:
    if not re.fullmatch(r"[A-Za-z][A-Za-z0-9_]*", s):
        raise Unsupported(f"not usable as a Coq identifier: {s!r}")
    return s


# ------------------------------------------------------------------ valid_primitive_types
def primitive_types(src: str) -> List[str]:
    mod = parse_module(src, "data_structures.py")
    fn = find_function(mod, "__post_init__", cls="Schema")
    for node in ast.walk(fn):
        if (isinstance(node, ast.Assign) and len(node.targets) == 1 and isinstance(node.targets[0], ast.Name)
                and node.targets[0].id == "valid_primitive_types"):
            if not isinstance(node.value, ast.Set):
                raise Unsupported(f"valid_primitive_types is not a set literal: {dump(node.value)}")
            out = []
            for e in node.value.elts:
                if not (isinstance(e, ast.Constant) and isinstance(e.value, str)):
                    raise Unsupported(f"valid_primitive_types element: {dump(e)}")
                out.append(_ident(e.value))
            if len(set(out)) != len(out):
                raise Unsupported("duplicate primitive type")
            return sorted(out)
    raise Unsupported("valid_primitive_types not found in Schema.__post_init__")


POST_INIT_CHECKS = [
    # (what, regex over the normalised dump) -- Schema.__post_init__ must keep rejecting these
    ("field id that is not an integer (Model/Schema.v: fid : Z)",
     r"If\(BoolOp\(Or\(\),\[Call\(Name\('isinstance',Load\(\)\),\[Name\('f_id',Load\(\)\),Name\('bool',Load\(\)\)\],\[\]\),"
     r"UnaryOp\(Not\(\),Call\(Name\('isinstance',Load\(\)\),\[Name\('f_id',Load\(\)\),Name\('int',Load\(\)\)\],\[\]\)\)\]\),\[Raise"),
    ("duplicate field id", r"If\(Compare\(Name\('f_id',Load\(\)\),\[In\(\)\],\[Name\('seen_ids',Load\(\)\)\]\),\[Raise"),
    ("duplicate field name", r"If\(Compare\(Name\('f_name',Load\(\)\),\[In\(\)\],\[Name\('seen_names',Load\(\)\)\]\),\[Raise"),
    ("unknown primitive type", r"If\(Compare\(Name\('f_type',Load\(\)\),\[NotIn\(\)\],\[Name\('valid_primitive_types',Load\(\)\)\]\),\[Raise"),
]


def check_post_init(src: str) -> None:
    mod = parse_module(src, "data_structures.py")
    fn = find_function(mod, "__post_init__", cls="Schema")
    text = _pinned(fn)
    for what, rx in POST_INIT_CHECKS:
        if not re.search(rx, text):
            raise Unsupported(f"Schema.__post_init__ no longer rejects: {what}")


# ------------------------------------------------------------------ type_mapping
def _arrow_ctor(call: ast.AST) -> str:
    if not (isinstance(call, ast.Call) and isinstance(call.func, ast.Attribute) and isinstance(call.func.value, ast.Name)
            and call.func.value.id == "pa" and not call.keywords):
        raise Unsupported(f"arrow type expression: {dump(call)}")
    name = call.func.attr
    for a in call.args:
        if not (isinstance(a, ast.Constant) and isinstance(a.value, str)):
            raise Unsupported(f"arrow type argument: {dump(a)}")
        name += "_" + a.value
    return "A_" + _ident(name)


def type_mapping(src: str) -> Tuple[Dict[str, str], str]:
    mod = parse_module(src, "data_operations.py")
    fn = find_function(mod, "_iceberg_type_to_arrow", cls="DataFileManager")
    mapping = None
    for node in ast.walk(fn):
        if (isinstance(node, ast.Assign) and len(node.targets) == 1 and isinstance(node.targets[0], ast.Name)
                and node.targets[0].id == "type_mapping"):
            if not isinstance(node.value, ast.Dict):
                raise Unsupported("type_mapping is not a dict literal")
            mapping = {}
            for k, v in zip(node.value.keys, node.value.values):
                if not (isinstance(k, ast.Constant) and isinstance(k.value, str)):
                    raise Unsupported(f"type_mapping key: {dump(k)}")
                if k.value in mapping:
                    raise Unsupported(f"type_mapping duplicate key {k.value}")
                mapping[k.value] = _arrow_ctor(v)
    if mapping is None:
        raise Unsupported("type_mapping not found")
    ret = fn.body[-1]
    want = "Return(Call(Attribute(Name('type_mapping',Load()),'get',Load()),[Call(Name('str',Load()),[Name('iceberg_type',Load())],[]),"
    got = _norm(dump(ret))
    if not got.startswith(_norm(want)):
        raise Unsupported(f"_iceberg_type_to_arrow final lookup changed: {got}")
    default = _arrow_ctor(ret.value.args[1])
    return mapping, default


def bounds_skipped(src: str) -> List[str]:
    mod = parse_module(src, "data_operations.py")
    fn = find_function(mod, "_compute_column_bounds", cls="DataFileManager")
    for node in ast.walk(fn):
        if (isinstance(node, ast.If) and isinstance(node.test, ast.Compare) and isinstance(node.test.left, ast.Name)
                and node.test.left.id == "field_type" and len(node.test.ops) == 1 and isinstance(node.test.ops[0], ast.In)
                and isinstance(node.test.comparators[0], ast.Tuple)):
            if not (len(node.body) == 1 and isinstance(node.body[0], ast.Continue)):
                raise Unsupported("bounds skip branch is not `continue`")
            out = []
            for e in node.test.comparators[0].elts:
                if not (isinstance(e, ast.Constant) and isinstance(e.value, str)):
                    raise Unsupported(f"bounds skip tuple element {dump(e)}")
                out.append(e.value)
            return out
    raise Unsupported("bounds skip tuple not found in _compute_column_bounds")


BOUNDS_KEYING = [
    # bounds are keyed by the *argument* schema's field id, for columns present in the Arrow table
    r"Assign\(\[Name\('field_id',Store\(\)\)\],Call\(Attribute\(Name\('field_dict',Load\(\)\),'get',Load\(\)\),\[Constant\('id'\)\],\[\]\)\)",
    r"If\(Compare\(Name\('field_name',Load\(\)\),\[NotIn\(\)\],\[Attribute\(Name\('table',Load\(\)\),'column_names',Load\(\)\)\]\),\[Continue\(\)\]",
    r"Assign\(\[Subscript\(Name\('lower_bounds',Load\(\)\),Name\('field_id',Load\(\)\),Store\(\)\)\],Name\('min_val',Load\(\)\)\)",
    r"Assign\(\[Subscript\(Name\('upper_bounds',Load\(\)\),Name\('field_id',Load\(\)\),Store\(\)\)\],Name\('max_val',Load\(\)\)\)",
]


def check_bounds_keying(src: str) -> None:
    mod = parse_module(src, "data_operations.py")
    fn = find_function(mod, "_compute_column_bounds", cls="DataFileManager")
    text = _pinned(fn)
    for rx in BOUNDS_KEYING:
        if not re.search(rx, text):
            raise Unsupported(f"_compute_column_bounds shape changed; missing: {rx}")


# ------------------------------------------------------------------ _schema_signature
TYPE_KEY_PREFIX = (
    "Assign([Name('f_type',Store())],Call(Attribute(Name('f',Load()),'get',Load()),[Constant('type')],[])),"
    "Assign([Name('type_key',Store())],IfExp(Call(Name('isinstance',Load()),[Name('f_type',Load()),Tuple([Name('dict',Load()),Name('list',Load())],Load())],[]),"
    "Call(Attribute(Name('json',Load()),'dumps',Load()),[Name('f_type',Load())],[keyword('sort_keys',Constant(True))]),Name('f_type',Load()))),"
)

COMPONENTS = {
    "Call(Attribute(Name('f',Load()),'get',Load()),[Constant('id')],[])": "CId",
    "Call(Attribute(Name('f',Load()),'get',Load()),[Constant('name')],[])": "CName",
    "Name('type_key',Load())": "CType",
    "Call(Name('bool',Load()),[Call(Attribute(Name('f',Load()),'get',Load()),[Constant('required'),Constant(False)],[])],[])": "CReq",
}


def signature_shape(src: str) -> Tuple[bool, List[str]]:
    mod = parse_module(src, "transaction.py")
    fn = find_function(mod, "_schema_signature", cls="Transaction")
    body = strip_docstring(list(fn.body))
    if len(body) != 3:
        raise Unsupported(f"_schema_signature: expected init / loop / return, got {dump(body)}")
    init, loop, ret = body
    # container kind
    if not (isinstance(init, (ast.Assign, ast.AnnAssign))):
        raise Unsupported(f"_schema_signature init: {dump(init)}")
    target = init.targets[0] if isinstance(init, ast.Assign) else init.target
    if not (isinstance(target, ast.Name) and target.id == "sig"):
        raise Unsupported(f"_schema_signature init target: {dump(target)}")
    v = _norm(dump(init.value))
    if v == _norm("Call(Name('set',Load()),[],[])"):
        ordered, method = False, "add"
    elif v in (_norm("List([],Load())"), _norm("Call(Name('list',Load()),[],[])")):
        ordered, method = True, "append"
    else:
        raise Unsupported(f"_schema_signature container: {v}")
    if _norm(dump(ret)) != _norm("Return(Name('sig',Load()))"):
        raise Unsupported(f"_schema_signature return: {dump(ret)}")
    if not (isinstance(loop, ast.For) and _norm(dump(loop.target)) == _norm("Name('f',Store())")
            and _norm(dump(loop.iter)) == _norm("Attribute(Name('schema',Load()),'fields',Load())") and not loop.orelse):
        raise Unsupported(f"_schema_signature loop header: {dump(loop)}")
    lb = _norm(dump(loop.body))
    if not lb.startswith("[" + _norm(TYPE_KEY_PREFIX)):
        raise Unsupported(f"_schema_signature type_key computation changed: {lb}")
    last = loop.body[-1]
    if len(loop.body) != 3:
        raise Unsupported("_schema_signature loop body: expected f_type / type_key / sig.<add|append>(tuple)")
    if not (isinstance(last, ast.Expr) and isinstance(last.value, ast.Call) and isinstance(last.value.func, ast.Attribute)
            and isinstance(last.value.func.value, ast.Name) and last.value.func.value.id == "sig"
            and last.value.func.attr == method and len(last.value.args) == 1 and not last.value.keywords
            and isinstance(last.value.args[0], ast.Tuple)):
        raise Unsupported(f"_schema_signature: expected sig.{method}((...)): {dump(last)}")
    comps = []
    for e in last.value.args[0].elts:
        k = _norm(dump(e))
        if k not in COMPONENTS:
            raise Unsupported(f"_schema_signature tuple component not understood: {k}")
        comps.append(COMPONENTS[k])
    return ordered, comps


VALIDATE_AGAINST_TABLE = (
    "[Assign([Name('table_schema',Store())],Call(Attribute(Name('self',Load()),'_resolve_table_schema',Load()),[],[])),"
    "If(Compare(Name('table_schema',Load()),[Is()],[Constant(None)]),[Return()],[]),"
    "If(Compare(Call(Attribute(Name('self',Load()),'_schema_signature',Load()),[Name('schema',Load())],[]),[NotEq()],"
    "[Call(Attribute(Name('self',Load()),'_schema_signature',Load()),[Name('table_schema',Load())],[])]),[Raise()],[])]"
)

CREATE_ARROW_SCHEMA = (
    "[If(Compare(Attribute(Name('iceberg_schema',Load()),'schema_id',Load()),[In()],[Attribute(Name('self',Load()),'_arrow_schema_cache',Load())]),"
    "[Return(Subscript(Attribute(Name('self',Load()),'_arrow_schema_cache',Load()),Attribute(Name('iceberg_schema',Load()),'schema_id',Load()),Load()))],[]),"
    "Import([alias('pyarrow','pa')]),Assign([Name('fields',Store())],List([],Load())),"
    "For(Name('field_dict',Store()),Attribute(Name('iceberg_schema',Load()),'fields',Load()),["
    "Assign([Name('field_id',Store())],Call(Attribute(Name('field_dict',Load()),'get',Load()),[Constant('id'),Constant(0)],[])),"
    "Assign([Name('field_name',Store())],Call(Attribute(Name('field_dict',Load()),'get',Load()),[Constant('name'),JoinedStr([Constant('field_'),FormattedValue(Name('field_id',Load()),-1)])],[])),"
    "Assign([Name('field_type_str',Store())],Call(Attribute(Name('field_dict',Load()),'get',Load()),[Constant('type'),Constant('string')],[])),"
    "Assign([Name('arrow_type',Store())],Call(Attribute(Name('self',Load()),'_iceberg_type_to_arrow',Load()),[Name('field_type_str',Load())],[])),"
    "Assign([Name('is_nullable',Store())],UnaryOp(Not(),Call(Attribute(Name('field_dict',Load()),'get',Load()),[Constant('required'),Constant(False)],[]))),"
    "Expr(Call(Attribute(Name('fields',Load()),'append',Load()),[Call(Attribute(Name('pa',Load()),'field',Load()),[Name('field_name',Load()),Name('arrow_type',Load())],[keyword('nullable',Name('is_nullable',Load()))])],[]))],[]),"
    "Assign([Name('schema',Store())],Call(Attribute(Name('pa',Load()),'schema',Load()),[Name('fields',Load())],[])),"
    "Assign([Subscript(Attribute(Name('self',Load()),'_arrow_schema_cache',Load()),Attribute(Name('iceberg_schema',Load()),'schema_id',Load()),Store())],Name('schema',Load())),"
    "Return(Name('schema',Load()))]"
)


def check_pins(src: str) -> None:
    mod = parse_module(src, "transaction.py")
    got = _pinned(find_function(mod, "_validate_schema_against_table", cls="Transaction"))
    if got != _norm(VALIDATE_AGAINST_TABLE):
        raise Unsupported(f"_validate_schema_against_table shape changed.\n expected {VALIDATE_AGAINST_TABLE}\n got      {got}")
    mod = parse_module(src, "data_operations.py")
    got = _pinned(find_function(mod, "create_arrow_schema", cls="DataFileManager"))
    if got != _norm(CREATE_ARROW_SCHEMA):
        raise Unsupported(f"create_arrow_schema shape changed.\n expected {CREATE_ARROW_SCHEMA}\n got      {got}")


# ------------------------------------------------------------------ further pins (by source text of the statements)
def _u(node: ast.AST) -> str:
    return re.sub(r"\s+", " ", ast.unparse(node)).strip()


def _stmts(fn: ast.FunctionDef) -> List[str]:
    """The function's top-level statements (docstring stripped), raise messages elided."""
    out = []
    for st in strip_docstring(list(fn.body)):
        st = _StripRaise().visit(ast.parse(ast.unparse(st)).body[0])
        out.append(_u(st))
    return out


VALUE_FITS_LIST = ("if isinstance(field_type, str) and field_type.startswith('list<'): "
                   "if not isinstance(value, (list, tuple)): return False "
                   "element_type = field_type[5:-1] "
                   "return all((DataFileManager._value_fits(element_type, item) for item in value))")
ARROW_LIST = ("if iceberg_type.startswith('list<'): element_type = iceberg_type[5:-1] "
              "return pa.list_(self._iceberg_type_to_arrow(element_type))")
RECORD_KEYS = ["not_names = [k for k in record.keys() if not isinstance(k, str)]", "if not_names: raise",
               "unknown = {str(k) for k in record.keys()} - allowed", "if unknown: raise"]
# Transaction._with_verified_bounds: NOTHING a caller-built DataFile says about the file's content is stored as given
# (Model/SchemaTx.v stored_claims / claims_verifiable): the statements that must be there, and the only way out before them
VERIFIED_BOUNDS = [
    "if data_file.checksum is not None: with self.file_manager.storage.open_file(data_file.file_path.lstrip('/')) as stream: "
    "actual_checksum = IntegrityChecker.compute_checksum_from_stream(stream) if data_file.checksum != actual_checksum: raise",
    "if content is not None and table_schema is not None: lower_bounds, upper_bounds = dfm._compute_column_bounds(content, table_schema)",
    "if not isinstance(field_id, int) or isinstance(field_id, bool): continue",
    "return dataclasses.replace(data_file, record_count=footer.num_rows if footer is not None else data_file.record_count, "
    "column_sizes=column_sizes if data_file.column_sizes is not None else None, "
    "value_counts=value_counts if data_file.value_counts is not None else None, "
    "null_value_counts=null_value_counts if data_file.null_value_counts is not None else None, "
    "lower_bounds=lower_bounds, upper_bounds=upper_bounds)",
]


def check_more_pins(src: str) -> None:
    mod = parse_module(src, "data_operations.py")
    got = _stmts(find_function(mod, "_value_fits", cls="DataFileManager"))
    if got[:2] != ["if value is None: return True", "if isinstance(field_type, dict): field_type = field_type.get('type', 'string')"] \
            or got[2] != VALUE_FITS_LIST:
        raise Unsupported(f"_value_fits: the list<element> admission (or what precedes it) changed: {got[:3]}")
    arrow = _u(find_function(mod, "_iceberg_type_to_arrow", cls="DataFileManager"))
    if ARROW_LIST not in arrow:
        raise Unsupported("_iceberg_type_to_arrow: the list<element> branch changed")
    fn = find_function(mod, "validate_records_strict", cls="DataFileManager")
    loops = [st for st in fn.body if isinstance(st, ast.For)]
    if len(loops) != 1:
        raise Unsupported("validate_records_strict: expected one loop over the records")
    body = [_u(_StripRaise().visit(ast.parse(ast.unparse(st)).body[0])) for st in loops[0].body]
    if body[:4] != RECORD_KEYS:
        raise Unsupported(f"validate_records_strict: the key tests changed: {body[:4]}")
    mod = parse_module(src, "transaction.py")
    vb = find_function(mod, "_with_verified_bounds", cls="Transaction")
    got = _stmts(vb)
    flat = " ".join(got)
    missing = [w for w in VERIFIED_BOUNDS if w not in flat]
    if missing or not got[-1].startswith("return dataclasses.replace(") or sum(isinstance(n, ast.Return) for n in ast.walk(vb)) != 1:
        raise Unsupported(f"_with_verified_bounds changed (a caller-supplied checksum / record_count / statistics map / bound must not be "
                          f"stored unverified; one return, at the end): missing {missing}")
    for n in ast.walk(vb):
        # the footer may stay unread only on a table without a persisted schema
        if isinstance(n, ast.ExceptHandler) and "if table_schema is None: footer = None else: raise" not in _u(_StripRaise().visit(ast.parse(ast.unparse(n.body[-1])).body[0])):
            raise Unsupported("_with_verified_bounds: a handler swallows a failure of the verification on a table with a schema")
    app = _stmts(find_function(mod, "append_files", cls="Transaction"))
    want = ["if _statistics_computed_here is not _STATISTICS_COMPUTED_HERE: files = [self._with_verified_bounds(f, table_schema) for f in files]",
            "self._operations.append({'type': 'append_files', 'files': files})", "return self"]
    # between the verification of the bounds and the queueing only the GC protection of the adopted files may stand
    # (F-C06b repair: marker registration + refusal while a collection run is announced; judged by C06)
    tail = [x for x in app[-4:] if x != "self._protect_adopted_files(files)"][-3:]
    if tail != want:
        raise Unsupported(f"append_files: queueing changed (bounds of pre-built files must be verified first): {app[-4:]}")
    app_data = _u(find_function(mod, "append_data", cls="Transaction"))
    if "else: Schema(schema_id=schema.schema_id, fields=schema.fields) self._validate_schema_against_table(schema)" not in app_data:
        raise Unsupported("append_data no longer re-validates the schema argument object (Schema(...)) before comparing it with the table's")
    whole = ast.unparse(mod)
    # the verification is skipped for the private token only: a module-level object() that nothing but append_data's own
    # call (for the file it has just written) and the test in append_files mentions -- no value a caller can write
    tokens = [st for st in mod.body if isinstance(st, ast.Assign) and _u(st) == "_STATISTICS_COMPUTED_HERE = object()"]
    n_token = sum(isinstance(n, ast.Name) and n.id == "_STATISTICS_COMPUTED_HERE" for n in ast.walk(mod))
    n_kw = sum(isinstance(n, ast.keyword) and n.arg == "_statistics_computed_here" for n in ast.walk(mod))
    n_param = sum(isinstance(n, ast.Name) and n.id == "_statistics_computed_here" for n in ast.walk(mod))
    if len(tokens) != 1 or n_token != 3 or n_kw != 1 or n_param != 1 or "globals" in whole or \
            "self.append_files([updated_data_file], _statistics_computed_here=_STATISTICS_COMPUTED_HERE)" not in _u(find_function(mod, "append_data", cls="Transaction")):
        raise Unsupported("only append_data, for the file it has just written, may skip the verification of supplied statistics "
                          "(the flag must be the private token _STATISTICS_COMPUTED_HERE = object(), not a value a caller can pass)")


def _reraises(h: ast.ExceptHandler) -> bool:
    """The handler always ends by re-raising what it caught: its last statement is a bare `raise`, and nothing in it
    can leave it another way (no return; break / continue only inside its own loops)."""
    if not h.body or not (isinstance(h.body[-1], ast.Raise) and h.body[-1].exc is None):
        return False

    def leaves(stmts: List[ast.stmt], in_loop: bool) -> bool:
        for st in stmts:
            if isinstance(st, ast.Return):
                return True
            if isinstance(st, (ast.Break, ast.Continue)) and not in_loop:
                return True
            if isinstance(st, (ast.FunctionDef, ast.ClassDef)):
                continue
            for name in ("body", "orelse", "finalbody"):
                sub = getattr(st, name, None)
                if isinstance(sub, list) and leaves(sub, in_loop or isinstance(st, (ast.For, ast.While))):
                    return True
            for hh in getattr(st, "handlers", []):
                if leaves(hh.body, in_loop):
                    return True
        return False

    return not leaves(h.body, False)


def _propagates(fn: ast.FunctionDef, text: str, reraise_ok: bool = False) -> bool:
    """Is the unique statement containing `text` outside every `try` of fn (its exception reaches the caller)?
    With reraise_ok, a `try` all of whose handlers end in a bare `raise` (and that has no `finally` that returns)
    does not count: the exception still reaches the caller."""
    hits: List[bool] = []

    def transparent(st: ast.Try) -> bool:
        if not reraise_ok:
            return False
        if any(isinstance(n, ast.Return) for f in st.finalbody for n in ast.walk(f)):
            return False
        return all(_reraises(h) for h in st.handlers)

    def walk(stmts: List[ast.stmt], guarded: bool) -> None:
        for st in stmts:
            if isinstance(st, ast.Try):
                walk(st.body, guarded or not transparent(st))
                for h in st.handlers:
                    walk(h.body, guarded)
                walk(st.orelse, guarded)
                walk(st.finalbody, guarded)
                continue
            if isinstance(st, (ast.If, ast.For, ast.While, ast.With)):
                walk(st.body, guarded)
                walk(getattr(st, "orelse", []), guarded)
                head = st.test if isinstance(st, (ast.If, ast.While)) else (st.iter if isinstance(st, ast.For) else None)
                if head is not None and text in _u(head):
                    hits.append(not guarded)
                continue
            if isinstance(st, (ast.FunctionDef, ast.ClassDef)):
                continue
            if text in _u(st):
                hits.append(not guarded)

    walk(strip_docstring(list(fn.body)), False)
    if len(hits) != 1:
        raise Unsupported(f"{fn.name}: expected exactly one statement containing {text!r}, found {len(hits)}")
    return hits[0]


# garbage_collector.collection_in_progress: an announcement counts while it is in force; one that cannot be read counts
# as a run in progress; one withdrawn between the listing and the read does not.  The listing itself is unguarded.
COLLECTION_IN_PROGRESS = [
    "now_ms = time.time() * 1000",
    "for path in storage.list_files(COLLECTING_PATH): "
    "try: payload = json.loads(storage.read_file(path).decode('utf-8')) "
    "expires_ms = float(payload['started_ms']) + float(payload['grace_period_ms']) "
    "except FileNotFoundError: continue "
    "except Exception: return str(path) "
    "if now_ms < expires_ms: return str(path)",
    "return None",
]
# the handler of _protect_adopted_files: every marker this call wrote is deleted (a marker that cannot be deleted stays
# registered with the transaction), then the exception goes on to the caller
ADOPT_CLEANUP = ("for marker_path in new_markers: try: storage.delete_file(marker_path) except Exception: continue "
                 "if marker_path in self._inflight_markers: self._inflight_markers.remove(marker_path)")


def adoption_flags(src: str) -> Dict[str, bool]:
    """The GC-protection step of append_files for pre-built files, as far as the outcome of the CALL depends on it."""
    names = ["adopt_marker_failure_propagates", "adopt_listing_failure_propagates", "adopt_refused_while_collecting",
             "adopt_recheck_failure_propagates", "adopt_cleanup_on_failure"]
    none = {k: False for k in names}
    mod = parse_module(src, "transaction.py")
    files = find_function(mod, "append_files", cls="Transaction")
    try:
        prot = find_function(mod, "_protect_adopted_files", cls="Transaction")
    except Unsupported:
        return none
    stmts = _stmts(files)
    call = "self._protect_adopted_files(files)"
    queue = "self._operations.append({'type': 'append_files', 'files': files})"
    if stmts.count(call) != 1 or stmts.count(queue) != 1:
        return none                                   # not a top-level step of append_files (or no plain queueing)
    # the step runs for every call, after the last look at the files and before anything is queued, and its
    # exception is the call's exception
    reaches = stmts.index(call) + 1 == stmts.index(queue) and _propagates(files, call)
    if not reaches:
        return none

    def p(text: str) -> bool:
        try:
            return _propagates(prot, text, reraise_ok=True)
        except Unsupported:
            return False

    try:
        gc = _stmts(find_function(parse_module(src, "garbage_collector.py"), "collection_in_progress"))
    except (Unsupported, OSError):
        gc = []
    body = _u(prot)
    handlers = [h for n in ast.walk(prot) if isinstance(n, ast.Try) for h in n.handlers
                if any(isinstance(x, ast.Raise) and x.exc is None for x in h.body)]
    cleanup = len(handlers) == 1 and _reraises(handlers[0]) and \
        " ".join(_u(st) for st in handlers[0].body[:-1]) == ADOPT_CLEANUP and \
        "self._register_inflight(data_file.file_path) new_markers.append(marker_path)" in body
    return {
        "adopt_marker_failure_propagates": p("self._register_inflight(data_file.file_path)"),
        "adopt_listing_failure_propagates": p("running = collection_in_progress(storage)") and gc == COLLECTION_IN_PROGRESS,
        "adopt_refused_while_collecting": p("running = collection_in_progress(storage)") and gc == COLLECTION_IN_PROGRESS
        and "running = collection_in_progress(storage) if running is not None: raise" in _u(_StripRaise().visit(ast.parse(ast.unparse(prot)))),
        "adopt_recheck_failure_propagates": p("self.file_manager.validate_file_exists(data_file.file_path)"),
        "adopt_cleanup_on_failure": cleanup,
    }


def fault_flags(src: str) -> Dict[str, bool]:
    mod = parse_module(src, "transaction.py")
    res = find_function(mod, "_resolve_table_schema", cls="Transaction")
    app = find_function(mod, "append_data", cls="Transaction")
    files = find_function(mod, "append_files", cls="Transaction")
    first = _stmts(files)
    if "table_schema = self._resolve_table_schema()" not in first or \
            first.index("table_schema = self._resolve_table_schema()") > 1:
        raise Unsupported("append_files no longer resolves the table schema before looking at any file")
    order = [i for i, t in enumerate(_stmts(app)) if "self._register_inflight(file_path)" in t or "write_data_file(" in t]
    if len(order) != 2 or "self._register_inflight(file_path)" not in _stmts(app)[order[0]]:
        raise Unsupported("append_data: the in-flight marker is no longer written right before the data file")
    return {"resolve_refresh_propagates": _propagates(res, "self.metadata_manager.refresh()"),
            "marker_failure_propagates": _propagates(app, "self._register_inflight(file_path)"),
            "queue_failure_propagates": _propagates(app, "self.append_files("),
            "files_exists_failure_propagates": _propagates(files, "self.file_manager.validate_file_exists(data_file.file_path)"),
            **adoption_flags(src)}


@generator("GenSchema.v")
def gen_schema(src: str) -> str:
    prims = primitive_types(src)
    check_post_init(src)
    mapping, default = type_mapping(src)
    skipped = bounds_skipped(src)
    check_bounds_keying(src)
    ordered, comps = signature_shape(src)
    check_pins(src)
    check_more_pins(src)
    flags = fault_flags(src)

    atypes: List[str] = []
    for t in prims:
        a = mapping.get(t, default)
        if a not in atypes:
            atypes.append(a)
    if default not in atypes:
        atypes.append(default)
    pt_ctor = {t: "T_" + t for t in prims}
    lines = [
        "(* GENERATED by translator/gen_schema.py from src/datashard/{data_structures,data_operations,transaction}.py -- do not edit *)",
        "From Coq Require Import ZArith List Bool.",
        "Import ListNotations.",
        "Open Scope Z_scope.",
        "",
        "(* Schema.__post_init__: valid_primitive_types *)",
        "Inductive ptype := " + " | ".join(pt_ctor[t] for t in prims) + ".",
        "Definition ptype_tag (t : ptype) : Z := match t with " + " | ".join(f"{pt_ctor[t]} => {i}" for i, t in enumerate(prims)) + " end.",
        "Definition all_ptypes : list ptype := [" + "; ".join(pt_ctor[t] for t in prims) + "].",
        "",
        "(* _iceberg_type_to_arrow: type_mapping (types without a key fall to the .get default) *)",
        "Inductive atype := " + " | ".join(atypes) + ".",
        "Definition atype_tag (a : atype) : Z := match a with " + " | ".join(f"{a} => {i}" for i, a in enumerate(atypes)) + " end.",
        "Definition arrow_of_type (t : ptype) : atype := match t with "
        + " | ".join(f"{pt_ctor[t]} => {mapping.get(t, default)}" for t in prims) + " end.",
        "",
        "(* _compute_column_bounds: primitive types for which no bounds are computed *)",
        "Definition bounds_skipped (t : ptype) : bool := match t with "
        + " | ".join(f"{pt_ctor[t]} => {'true' if t in skipped else 'false'}" for t in prims) + " end.",
        "",
        "(* _schema_signature: what is compared, and how *)",
        "Inductive sigcomp := CId | CName | CType | CReq.",
        f"Definition sig_ordered : bool := {'true' if ordered else 'false'}.",
        "Definition sig_comps : list sigcomp := [" + "; ".join(comps) + "].",
        "",
        "(* storage failures during append_data / append_files: true = the failing operation is outside every `try`,",
        "   its exception reaches the caller; adopt_*: the GC-protection step of append_files for pre-built files",
        "   (_protect_adopted_files, right before the queueing) -- a `try` whose handlers all end in a bare `raise` does not",
        "   stop an exception; adopt_cleanup_on_failure: that handler deletes every marker the call wrote; all false when",
        "   the source has no such step *)",
    ] + [f"Definition {k} : bool := {'true' if v else 'false'}." for k, v in flags.items()] + [
        "",
    ]
    return "\n".join(lines)
