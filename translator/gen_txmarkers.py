"""GenTxMarkers.v -- who touches a transaction's in-flight markers, read off transaction.py (C06).

A transaction protects every file it is going to publish (data files it wrote, pre-built files it adopted, the manifests /
manifest list of the commit attempt in progress) by an in-flight marker, kept in `self._inflight_markers` until the commit has
gone through (`_finish_committed`) or the transaction gives up (`_rollback`).  `Transaction.commit` retries internally when an
attempt loses the OCC race; between the lost attempt and the retry the transaction is still going to publish its files, so
whatever the retry arm of the conflict handler runs must leave the markers alone.  Nothing of this is modelled by hand:

    gen_marker_growers      the methods of Transaction in which `self._inflight_markers` grows (`.append` / `.extend`)
    gen_marker_droppers     the methods in which it shrinks or is replaced (assignment, `del`, any other mutating method), or
                            which delete files from storage while referring to the markers (`_inflight_markers` /
                            `_INFLIGHT_PATH`)
    gen_retry_arm_calls     every method of Transaction reachable (transitively, through `self.<method>` calls and references) from the
                            RETRY arm of commit's ConcurrentModificationException handler
    gen_retry_arm_drops     := some reachable method is a dropper              (computed by Coq from the two lists)
    gen_write_protects      append_data registers the marker (reaches a grower) BEFORE it writes the data file
    gen_adopt_protects      append_files puts the pre-built files under protection (reaches a grower) BEFORE it queues them
    gen_attempt_protects    _commit_file_ops reaches a grower (the manifests / manifest list of an attempt get markers)

Model/TxMarkers.v (the marker ledger of one transaction through any number of lost attempts) is stated over these; the
invariant proof (Proofs/TxMarkersProofs.v) needs gen_retry_arm_drops = false and the three `protects` = true of the code as it is.

Fail-closed (Unsupported): `self._inflight_markers` used in a way whose effect cannot be classified syntactically (aliased,
passed to a function other than len / list / sorted / set / tuple, returned, ...), the retry loop of commit not in the shape
`while retry_count < max_retries: try: ... except ConcurrentModificationException: retry_count += 1; if retry_count >=
max_retries: <final> else: <retry>`, a marker attribute assigned through setattr / __dict__.
"""
from __future__ import annotations

import ast
from typing import Dict, List, Set

from core import Unsupported, coq_str, find_function, generator, parse_module

ATTR = "_inflight_markers"
GROW = {"append", "extend"}
READ = {"copy", "index", "count", "__contains__", "__len__", "__iter__"}
PURE_FUNCS = {"len", "list", "sorted", "set", "tuple", "bool", "any", "all", "frozenset"}


def _u(n: ast.AST) -> str:
    return ast.unparse(n)


def _is_markers(n: ast.AST) -> bool:
    return isinstance(n, ast.Attribute) and n.attr == ATTR and isinstance(n.value, ast.Name) and n.value.id == "self"


def _classify(fn: ast.FunctionDef) -> Dict[str, bool]:
    """How one method uses self._inflight_markers: grows / drops; Unsupported when a use cannot be classified."""
    parents: Dict[int, ast.AST] = {}
    for p in ast.walk(fn):
        for c in ast.iter_child_nodes(p):
            parents[id(c)] = p
    grows = drops = mentions = False
    for n in ast.walk(fn):
        if isinstance(n, ast.Name) and n.id == "_INFLIGHT_PATH":
            mentions = True
        if isinstance(n, ast.Constant) and isinstance(n.value, str) and ATTR in n.value:
            raise Unsupported(f"{fn.name}: the marker list is addressed by name in a string ({n.value!r})")
        if not _is_markers(n):
            continue
        mentions = True
        p = parents.get(id(n))
        if isinstance(n.ctx, (ast.Store, ast.Del)):
            drops = True                                  # replaced / deleted
            continue
        if isinstance(p, ast.Attribute) and p.value is n:
            gp = parents.get(id(p))
            if not (isinstance(gp, ast.Call) and gp.func is p):
                raise Unsupported(f"{fn.name}: bound method of the marker list taken: {_u(p)}")
            if p.attr in GROW:
                grows = True
            elif p.attr in READ:
                pass
            else:
                drops = True                              # remove / pop / clear / sort / insert / reverse / ...
            continue
        if isinstance(p, ast.Subscript) and p.value is n:
            if isinstance(p.ctx, (ast.Store, ast.Del)):
                drops = True
            continue                                      # a read of an element / a slice
        if isinstance(p, (ast.For, ast.comprehension)) and p.iter is n:
            continue
        if isinstance(p, ast.Compare) and n in p.comparators and all(isinstance(o, (ast.In, ast.NotIn)) for o in p.ops):
            continue
        if isinstance(p, ast.Call) and n in p.args and isinstance(p.func, ast.Name) and p.func.id in PURE_FUNCS:
            continue
        if isinstance(p, ast.AugAssign) and p.target is n:
            drops = True
            continue
        if isinstance(p, (ast.If, ast.While, ast.BoolOp, ast.UnaryOp)) :
            continue                                      # truth test
        raise Unsupported(f"{fn.name}: use of self.{ATTR} that cannot be classified: {_u(p)[:100] if p is not None else '?'}")
    deletes = any(isinstance(c, ast.Call) and isinstance(c.func, ast.Attribute) and c.func.attr in ("delete_file", "delete_files", "delete_prefix")
                  for c in ast.walk(fn))
    if deletes and mentions:
        drops = True                                      # removes objects from storage while handling the markers
    return {"grows": grows, "drops": drops}


def _self_calls(node_list: List[ast.stmt], methods: Dict[str, ast.FunctionDef]) -> List[str]:
    out: List[str] = []
    for s in node_list:
        for c in ast.walk(s):
            # a call self.<method>(...) or a reference to the bound method (handed on as a hook / callback)
            if isinstance(c, ast.Attribute) and isinstance(c.value, ast.Name) and c.value.id == "self" and isinstance(c.ctx, ast.Load):
                if c.attr in methods and c.attr not in out:
                    out.append(c.attr)
            if isinstance(c, ast.Call) and isinstance(c.func, ast.Name) and c.func.id in ("setattr", "delattr"):
                raise Unsupported(f"setattr / delattr in a method of Transaction: {_u(c)[:80]}")
    return out


def _closure(start: List[str], methods: Dict[str, ast.FunctionDef]) -> List[str]:
    seen: List[str] = []
    todo = list(start)
    while todo:
        m = todo.pop(0)
        if m in seen:
            continue
        seen.append(m)
        todo += _self_calls(methods[m].body, methods)
    return seen


def _retry_arm(commit: ast.FunctionDef) -> List[ast.stmt]:
    loops = [n for n in ast.walk(commit) if isinstance(n, ast.While)]
    if not (len(loops) == 1 and _u(loops[0].test) == "retry_count < max_retries" and len(loops[0].body) == 1 and isinstance(loops[0].body[0], ast.Try)):
        raise Unsupported("Transaction.commit: retry loop shape changed")
    tr = loops[0].body[0]
    hs = [h for h in tr.handlers if h.type is not None and "ConcurrentModificationException" in _u(h.type)]
    if len(hs) != 1:
        raise Unsupported(f"Transaction.commit: {len(hs)} handlers name ConcurrentModificationException")
    h = hs[0]
    if tr.handlers.index(h) != 0:
        raise Unsupported("Transaction.commit: the conflict handler is not the first handler (an earlier one may catch the conflict)")
    branch = [s for s in h.body if isinstance(s, ast.If)]
    if not (len(branch) == 1 and _u(branch[0].test) == "retry_count >= max_retries" and h.body[-1] is branch[0]
            and all(isinstance(s, (ast.AugAssign, ast.Assign)) and isinstance(getattr(s, "target", None) or s.targets[0], ast.Name) for s in h.body[:-1])):
        raise Unsupported("Transaction.commit: conflict arm shape changed")
    arm = branch[0].orelse
    if not (arm and isinstance(arm[-1], ast.Continue)):
        raise Unsupported("Transaction.commit: the retry arm does not end in `continue`")
    if tr.finalbody:
        arm = arm + tr.finalbody                          # a finally clause runs between the lost attempt and the retry too
    return arm


def _first_line(fn: ast.FunctionDef, pred) -> int:
    lines = [c.lineno for c in ast.walk(fn) if isinstance(c, ast.Call) and pred(c)]
    return min(lines) if lines else -1


def _b(x: bool) -> str:
    return "true" if x else "false"


def _lst(xs: List[str]) -> str:
    return "[" + "; ".join(coq_str(x) for x in xs) + "]"


@generator("GenTxMarkers.v")
def gen(src: str) -> str:
    tx = parse_module(src, "transaction.py")
    cls = next((n for n in ast.walk(tx) if isinstance(n, ast.ClassDef) and n.name == "Transaction"), None)
    if cls is None:
        raise Unsupported("class Transaction not found")
    methods: Dict[str, ast.FunctionDef] = {n.name: n for n in cls.body if isinstance(n, ast.FunctionDef)}
    # nobody outside the class may touch the list
    for n in ast.walk(tx):
        if isinstance(n, ast.Attribute) and n.attr == ATTR and not _is_markers(n):
            raise Unsupported(f"the marker list is reached through something other than `self`: {_u(n)}")
    inside: Set[int] = {id(x) for m in methods.values() for x in ast.walk(m)}
    for n in ast.walk(tx):
        if _is_markers(n) and id(n) not in inside:
            raise Unsupported("self._inflight_markers used outside the methods of Transaction")
    kinds = {name: _classify(fn) for name, fn in methods.items()}
    growers = sorted(n for n, k in kinds.items() if k["grows"])
    droppers = sorted(n for n, k in kinds.items() if k["drops"])
    if not growers:
        raise Unsupported("no method of Transaction registers an in-flight marker")
    commit = find_function(tx, "commit", "Transaction")
    arm_calls = _closure(_self_calls(_retry_arm(commit), methods), methods)

    def reaches_grower(name: str) -> bool:
        return any(m in growers for m in _closure([name], methods))

    # append_data: a marker-registering call before the data file is written
    ad = methods.get("append_data")
    if ad is None:
        raise Unsupported("Transaction.append_data not found")
    reg = _first_line(ad, lambda c: isinstance(c.func, ast.Attribute) and isinstance(c.func.value, ast.Name) and c.func.value.id == "self"
                      and c.func.attr in methods and reaches_grower(c.func.attr))
    wr = _first_line(ad, lambda c: isinstance(c.func, ast.Attribute) and c.func.attr in ("write_data_file", "write_file"))
    if wr < 0:
        raise Unsupported("Transaction.append_data: no data file write found")
    write_protects = 0 <= reg < wr
    # append_files: protection before the operation is queued
    af = methods.get("append_files")
    if af is None:
        raise Unsupported("Transaction.append_files not found")
    prot = _first_line(af, lambda c: isinstance(c.func, ast.Attribute) and isinstance(c.func.value, ast.Name) and c.func.value.id == "self"
                       and c.func.attr in methods and reaches_grower(c.func.attr))
    queue = _first_line(af, lambda c: _u(c.func) == "self._operations.append")
    if queue < 0:
        raise Unsupported("Transaction.append_files: the operation is not queued with self._operations.append")
    adopt_protects = 0 <= prot < queue
    cfo = methods.get("_commit_file_ops")
    if cfo is None:
        raise Unsupported("Transaction._commit_file_ops not found")
    attempt_protects = any(m in growers for m in _closure(_self_calls(cfo.body, methods), methods))
    out = [
        "(* GENERATED by translator/gen_txmarkers.py from transaction.py -- do not edit. *)",
        "From Coq Require Import List Bool String.",
        "Import ListNotations.",
        "Open Scope string_scope.",
        "",
        "(* methods of Transaction in which self._inflight_markers grows *)",
        f"Definition gen_marker_growers : list string := {_lst(growers)}.",
        "(* ... in which it shrinks / is replaced, or which delete from storage while handling the markers *)",
        f"Definition gen_marker_droppers : list string := {_lst(droppers)}.",
        "(* methods reachable from the RETRY arm of commit's conflict handler (lost attempt -> next attempt) *)",
        f"Definition gen_retry_arm_calls : list string := {_lst(arm_calls)}.",
        "Definition gen_retry_arm_drops : bool :=",
        "  existsb (fun c => existsb (String.eqb c) gen_marker_droppers) gen_retry_arm_calls.",
        "(* append_data registers the marker before it writes the data file *)",
        f"Definition gen_write_protects : bool := {_b(write_protects)}.",
        "(* append_files protects the pre-built files before it queues them *)",
        f"Definition gen_adopt_protects : bool := {_b(adopt_protects)}.",
        "(* _commit_file_ops registers markers for the manifests / manifest list of the attempt *)",
        f"Definition gen_attempt_protects : bool := {_b(attempt_protects)}.",
        "",
    ]
    return "\n".join(out)


if __name__ == "__main__":
    import sys
    print(gen(sys.argv[1]))
