"""GenEntryCodec.v -- the manifest ENTRY codec, translated field by field (C13, C14, C15).

    gen_entry_stamp   FileManager.create_manifest_file: the (snapshot_id, sequence_number) an entry is stamped with
                      (ADDED: this commit's; EXISTING: the ones the file was added with)
    gen_write_entry   ... the `record = {...}` literal: DataFile -> stored record
    gen_read_entry    FileManager.read_manifest_file (Avro branch): stored record -> DataFile

over the record types and Python idioms of coq/Model/ManifestCodec.v; the primitive codecs are parameters:
    enc / dec      self._encode_bound / self._decode_bound    (Gen/GenBound.v; C13_bound_roundtrip is their inverse law)
    str_of/int_of  str(k) / int(k) on field ids
    safe_int       self._safe_int on statistics values
    pstr           str(v) on partition values
FileFormat(x.value) = x is built in (formats are opaque).  Proofs/EntryCodecProofs.v proves the round trip
read (write df) = normalize df (+ the stamp) for all DataFiles under the primitives' inverse laws, i.e. that NO field --
checksum, bounds, statistics, path, size, adding snapshot, sequence number -- is lost or altered when an entry is written,
read back, or carried through a manifest rewrite.

Each dict value / constructor argument must be one of the recognised field expressions; anything else (a new field, a
dropped one, a different conversion, memoisation, lazy wrappers ...) is Unsupported: fail closed.
"""
from __future__ import annotations

import ast
from typing import Dict, List, Optional, Tuple

from core import Unsupported, find_function, generator, parse_module, strip_docstring


def _u(n: ast.AST) -> str:
    return ast.unparse(n)


W = "FileManager.create_manifest_file"
R = "FileManager.read_manifest_file"

DF_FIELD = {"file_path": "df_path", "record_count": "df_count", "file_size_in_bytes": "df_size", "checksum": "df_checksum"}
STAT = {"column_sizes": "df_column_sizes", "value_counts": "df_value_counts", "null_value_counts": "df_null_counts"}
BOUND = {"lower_bounds": "df_lower", "upper_bounds": "df_upper"}
REC = {"file_path": "r_path", "file_format": "r_format", "record_count": "r_count", "file_size_in_bytes": "r_size",
       "column_sizes": "r_column_sizes", "value_counts": "r_value_counts", "null_value_counts": "r_null_counts",
       "lower_bounds": "r_lower", "upper_bounds": "r_upper", "checksum": "r_checksum"}


def write_side(fm: ast.Module) -> Tuple[str, str]:
    fn = find_function(fm, "create_manifest_file", "FileManager")
    loops = [n for n in ast.walk(fn) if isinstance(n, ast.For)]
    if len(loops) != 1:
        raise Unsupported(f"{W}: expected exactly one loop over the entries")
    lp = loops[0]
    if _u(lp.target) != "(df, status)" or _u(lp.iter) != "[(f, ENTRY_STATUS_ADDED) for f in data_files] + [(f, ENTRY_STATUS_EXISTING) for f in existing_files]":
        raise Unsupported(f"{W}: the loop is not over data_files (ADDED) followed by existing_files (EXISTING): {_u(lp.iter)}")
    b = lp.body
    st = b[0]
    want_stamp = ("if status == ENTRY_STATUS_ADDED:\n    entry_snapshot_id: Optional[int] = snapshot_id_val\n"
                  "    entry_sequence_number: Optional[int] = sequence_number\nelse:\n"
                  "    entry_snapshot_id = df.added_snapshot_id\n    entry_sequence_number = df.sequence_number")
    if _u(st) != want_stamp:
        raise Unsupported(f"{W}: the stamp of an entry changed:\n{_u(st)}")
    rec = [s for s in b if isinstance(s, ast.Assign) and _u(s.targets[0]) == "record"]
    if len(rec) != 1 or not isinstance(rec[0].value, ast.Dict):
        raise Unsupported(f"{W}: `record = {{...}}` not found")
    for s in b[1:]:
        ok = (s is rec[0] or _u(s) == "records.append(record)"
              or _u(s) == "if entry_sequence_number is not None:\n    entry_sequence_numbers.append(entry_sequence_number)")
        if not ok:
            raise Unsupported(f"{W}: statement in the entry loop: {_u(s)[:80]}")
    d = rec[0].value
    top = {k.value: v for k, v in zip(d.keys, d.values)}
    if set(top) != {"status", "snapshot_id", "sequence_number", "file_sequence_number", "data_file"}:
        raise Unsupported(f"{W}: record keys {sorted(top)}")
    want_top = {"status": "status", "snapshot_id": "entry_snapshot_id", "sequence_number": "entry_sequence_number",
                "file_sequence_number": "entry_sequence_number"}
    for k, v in want_top.items():
        if _u(top[k]) != v:
            raise Unsupported(f"{W}: record[{k!r}] = {_u(top[k])}")
    dfd = top["data_file"]
    if not isinstance(dfd, ast.Dict):
        raise Unsupported(f"{W}: data_file is not a dict literal")
    fields = {k.value: v for k, v in zip(dfd.keys, dfd.values)}
    need = {"file_path", "file_format", "partition", "record_count", "file_size_in_bytes", "column_sizes", "value_counts",
            "null_value_counts", "lower_bounds", "upper_bounds", "checksum"}
    if set(fields) != need:
        raise Unsupported(f"{W}: data_file keys changed: missing {sorted(need - set(fields))}, new {sorted(set(fields) - need)}")
    out: Dict[str, str] = {}
    for k, e in fields.items():
        src = _u(e)
        if k in DF_FIELD:
            if src != f"df.{k}":
                raise Unsupported(f"{W}: data_file[{k!r}] = {src}")
            out[REC[k]] = f"{DF_FIELD[k]} df"
        elif k == "file_format":
            if src != "df.file_format.value if hasattr(df.file_format, 'value') else str(df.file_format)":
                raise Unsupported(f"{W}: data_file['file_format'] = {src}")
            out["r_format"] = "df_format df"
        elif k == "partition":
            if src != "{'values': {k: str(v) for k, v in df.partition_values.items()}}":
                raise Unsupported(f"{W}: data_file['partition'] = {src}")
            out["r_partition"] = "map (fun kv => (fst kv, pstr (snd kv))) (df_partition df)"
        elif k in STAT:
            if src != f"{{str(k): self._safe_int(v) for k, v in df.{k}.items()}} if df.{k} else None":
                raise Unsupported(f"{W}: data_file[{k!r}] = {src}")
            out[REC[k]] = f"py_dictcomp_or_none (fun kv => (str_of (fst kv), safe_int (snd kv))) ({STAT[k]} df)"
        elif k in BOUND:
            if src != f"{{str(k): self._encode_bound(v) for k, v in df.{k}.items()}} if df.{k} else None":
                raise Unsupported(f"{W}: data_file[{k!r}] = {src}")
            out[REC[k]] = f"py_dictcomp_or_none (fun kv => (str_of (fst kv), enc (snd kv))) ({BOUND[k]} df)"
    consts = {}
    for n in fm.body:
        if isinstance(n, ast.Assign) and isinstance(n.targets[0], ast.Name) and n.targets[0].id in ("ENTRY_STATUS_EXISTING", "ENTRY_STATUS_ADDED") \
                and isinstance(n.value, ast.Constant) and isinstance(n.value.value, int):
            consts[n.targets[0].id] = n.value.value
    if set(consts) != {"ENTRY_STATUS_EXISTING", "ENTRY_STATUS_ADDED"} or consts["ENTRY_STATUS_EXISTING"] == consts["ENTRY_STATUS_ADDED"]:
        raise Unsupported("ENTRY_STATUS_* constants changed")
    order = ["r_path", "r_format", "r_partition", "r_count", "r_size", "r_column_sizes", "r_value_counts", "r_null_counts", "r_lower", "r_upper", "r_checksum"]
    stamp = ("  Definition gen_status_existing : Z := %d.\n  Definition gen_status_added : Z := %d.\n"
             "  (* the snapshot id / sequence number an entry is stamped with *)\n"
             "  Definition gen_entry_stamp (status snapshot_id_val : Z) (sequence_number : option Z) (df : datafile bval) : option Z * option Z :=\n"
             "    if status =? gen_status_added then (Some snapshot_id_val, sequence_number) else (df_added df, df_seq df).\n"
             % (consts["ENTRY_STATUS_EXISTING"], consts["ENTRY_STATUS_ADDED"]))
    write = ("  (* the `record = {...}` literal of create_manifest_file *)\n"
             "  Definition gen_write_entry (status snapshot_id_val : Z) (sequence_number : option Z) (df : datafile bval) : mrecord ebound skey :=\n"
             "    let stamp := gen_entry_stamp status snapshot_id_val sequence_number df in\n"
             "    {| r_status := status; r_snapshot_id := fst stamp; r_sequence_number := snd stamp; r_file_sequence_number := snd stamp;\n"
             + ";\n".join(f"       {k} := {out[k]}" for k in order) + " |}.\n")
    return stamp, write


def read_side(fm: ast.Module) -> str:
    fn = find_function(fm, "read_manifest_file", "FileManager")
    loops = [n for n in ast.walk(fn) if isinstance(n, ast.For) and _u(n.iter) == "reader"]
    if len(loops) != 1:
        raise Unsupported(f"{R}: the loop over the Avro reader not found")
    b = loops[0].body
    src = [_u(s) for s in b]
    if src[0] != "record: Dict[str, Any] = record_raw" or src[1] != "df_record: Dict[str, Any] = record['data_file']":
        raise Unsupported(f"{R}: record / df_record bindings changed: {src[:2]}")
    pre: Dict[str, str] = {}
    k = 2
    while k + 1 < len(b) and isinstance(b[k], ast.Assign) and isinstance(b[k + 1], ast.If):
        name = _u(b[k].targets[0])
        if _u(b[k].value) != f"df_record.get('{name}')":
            raise Unsupported(f"{R}: {src[k]}")
        i = b[k + 1]
        if _u(i.test) != name or i.orelse or len(i.body) != 1:
            raise Unsupported(f"{R}: {src[k + 1][:80]}")
        conv = _u(i.body[0])
        if name in BOUND and conv == f"{name} = {{int(k): self._decode_bound(v) for k, v in {name}.items()}}":
            pre[name] = f"py_dictcomp_if_truthy (fun kv => (int_of (fst kv), dec (snd kv))) ({REC[name]} r)"
        elif name in STAT and conv == f"{name} = {{int(k): v for k, v in {name}.items()}}":
            pre[name] = f"py_dictcomp_if_truthy (fun kv => (int_of (fst kv), snd kv)) ({REC[name]} r)"
        else:
            raise Unsupported(f"{R}: conversion of {name}: {conv}")
        k += 2
    if set(pre) != set(BOUND) | set(STAT):
        raise Unsupported(f"{R}: converted maps: {sorted(pre)}")
    c = b[k]
    if not (isinstance(c, ast.Assign) and _u(c.targets[0]) == "data_file" and isinstance(c.value, ast.Call) and _u(c.value.func) == "DataFile" and not c.value.args):
        raise Unsupported(f"{R}: DataFile(...) construction not found where expected: {src[k][:80]}")
    if [_u(x) for x in b[k + 1:]] != ["data_files.append(data_file)"]:
        raise Unsupported(f"{R}: statements after the DataFile construction: {src[k + 1:]}")
    kw = {x.arg: _u(x.value) for x in c.value.keywords}
    want = {
        "file_path": ("df_record['file_path']", "r_path r"), "file_format": ("FileFormat(df_record['file_format'])", "r_format r"),
        "partition_values": ("df_record['partition']['values']", "r_partition r"), "record_count": ("df_record['record_count']", "r_count r"),
        "file_size_in_bytes": ("df_record['file_size_in_bytes']", "r_size r"),
        "column_sizes": ("column_sizes", pre["column_sizes"]), "value_counts": ("value_counts", pre["value_counts"]),
        "null_value_counts": ("null_value_counts", pre["null_value_counts"]),
        "lower_bounds": ("lower_bounds", pre["lower_bounds"]), "upper_bounds": ("upper_bounds", pre["upper_bounds"]),
        "checksum": ("df_record.get('checksum')", "r_checksum r"), "added_snapshot_id": ("record.get('snapshot_id')", "r_snapshot_id r"),
        "sequence_number": ("record.get('file_sequence_number') if record.get('file_sequence_number') is not None else record.get('sequence_number')",
                            "py_first_some (r_file_sequence_number r) (r_sequence_number r)"),
    }
    if set(kw) != set(want):
        raise Unsupported(f"{R}: DataFile arguments changed: missing {sorted(set(want) - set(kw))}, new {sorted(set(kw) - set(want))}")
    for a, (srcw, _) in want.items():
        if kw[a] != srcw:
            raise Unsupported(f"{R}: DataFile({a}=...) = {kw[a]}")
    fmap = {"file_path": "df_path", "file_format": "df_format", "partition_values": "df_partition", "record_count": "df_count",
            "file_size_in_bytes": "df_size", "column_sizes": "df_column_sizes", "value_counts": "df_value_counts",
            "null_value_counts": "df_null_counts", "lower_bounds": "df_lower", "upper_bounds": "df_upper", "checksum": "df_checksum",
            "added_snapshot_id": "df_added", "sequence_number": "df_seq"}
    return ("  (* the DataFile read_manifest_file builds from a stored record (Avro branch) *)\n"
            "  Definition gen_read_entry (r : mrecord ebound skey) : datafile bval :=\n    {| "
            + ";\n       ".join(f"{fmap[a]} := {want[a][1]}" for a in fmap) + " |}.\n")


@generator("GenEntryCodec.v")
def gen(src: str) -> str:
    fm = parse_module(src, "file_manager.py")
    stamp, write = write_side(fm)
    read = read_side(fm)
    return "\n".join([
        "(* GENERATED by translator/gen_entrycodec.py from file_manager.py -- do not edit. *)",
        "From Coq Require Import ZArith List Bool.",
        "Require Import DS.Model.ManifestCodec.",
        "Import ListNotations.",
        "Open Scope Z_scope.",
        "",
        "Section Gen.",
        "  Variables bval ebound skey : Type.",
        "  Variables (enc : bval -> ebound) (dec : ebound -> bval) (str_of : Z -> skey) (int_of : skey -> Z) (safe_int : Z -> Z) (pstr : Z -> Z).",
        "",
        stamp, write, read,
        "End Gen.",
        "",
    ])


if __name__ == "__main__":
    import sys
    print(gen(sys.argv[1]))
