"""GenDurable.v -- the OS-call sequences of the two publish routines, read off the source (C16).

    gen_write_file    LocalStorageBackend.write_file          (storage_backend.py)
    gen_data_writer   DataFileWriter.open (local branch) + DataFileWriter.close   (data_operations.py)

The routine's statements are walked in program order -- into `try` bodies, `finally` blocks and
`else` branches, never into `except` handlers (error paths) -- and every call on `os`, `tempfile`,
`pq` and the parquet writer is mapped to a call of coq/Model/DurableBase.v:

    tempfile.mkstemp / tempfile.NamedTemporaryFile(delete=False)   Create tmp
    os.write(fd, content), or the write-everything loop
      `while len(buf) > 0: n = os.write(fd, buf); [if n <= 0: raise]; buf = buf[n:]`,
      or self._writer.close()                                       Write tmp c
    os.fsync(fd) with fd bound to the temp file (mkstemp's fd, or os.open(temp_name))   Fsync tmp
    os.replace(temp, final)                                         Rename tmp p
    os.fsync(fd) with fd bound by os.open(<dirname of the final path>)                  FsyncDir (dir_of p)
    os.makedirs, os.close, os.open, os.path.*, pq.ParquetWriter(...)                    no call (bindings only)

Anything else on those modules (os.rename, os.remove, os.truncate, open(..., "w"), a second write ...)
is outside the subset: Unsupported, fail closed.  Dropping or moving an fsync therefore CHANGES the
generated definition, and the proofs of Props/C16.v (which unfold it) are re-checked against it.

ERROR PATHS (the `except` handlers, read separately -- they decide what a FAILING call does):

    gen_*_fallible   how many of the calls above, counted from the first, raise to the caller when the OS
                     refuses them.  Every `try` statement that encloses one of the mapped calls is examined:
                     a handler may (a) end in a bare `raise` / `raise X(...) from e` on every path (the error
                     propagates), or (b) be `except AttributeError: pass` (no such function on this platform:
                     the call was never made), or (c) be `except OSError as e: if not dir_fsync_unsupported(e):
                     raise ...` around the DIRECTORY fsync only (the file system said "directories cannot be
                     fsynced here"; every attempted-and-failed sync propagates).  A handler that swallows an
                     OSError of a mapped call in any other way (`except (OSError, AttributeError): pass` -- the
                     audit finding that a failing directory fsync left an acknowledged commit whose rename was
                     not durable) is Unsupported: fail closed.  Today both are 5 = every call.
    gen_*_on_error   what the routine's cleanup handler does before re-raising: `if os.path.exists(temp):
                     os.remove(temp)` -> [Unlink tmp] (Model/Durable.v applies it only while the temp name
                     exists: failed_of).  Any other statement in that handler is Unsupported.

WRITE PATH of the data writer (every method of DataFileWriter other than open / close): the bytes reach the temp file
through `self._writer.write_batch(...)` only, any number of times, each ONE burst `Write tmp b` of the model
(gen_data_writer_burst; coq/Model/DurableChunks.v replaces the single Write of gen_data_writer by an arbitrary list of
bursts).  A durability call anywhere in those methods -- an fsync "every N rows", a helper that syncs, a rename -- makes
what close() must still flush depend on how much was written: Unsupported, fail closed.  For the same reason a
durability call of open / close / write_file may sit only under the pinned conditions (which backend, was the writer
opened): `if <anything else>: os.fsync(fd)` is a call that is sometimes skipped, not the call of the model.

Also pinned (golden order, modelled by hand in Model/Durable.v `commit_body` / `pub_item`):
    Transaction.append_data            _register_inflight(...)  before  write_data_file(...)
    FileManager.create_manifest_file   pre_write_hook(...)      before  storage.write_file(...)
    FileManager.create_manifest_list_file   idem
    MetadataManager.commit             _write_metadata_file(...) before _write_hint_at_commit_point(...)
    Transaction._commit_file_ops       create_manifest_file* < create_manifest_list_file < create_snapshot
    Transaction._finish_committed      storage.delete_file(marker) only (markers removed after the commit point)
"""
from __future__ import annotations

import ast
from typing import Dict, List, Optional, Tuple

from core import Unsupported, dump, find_function, generator, parse_module, strip_docstring


def _call_name(c: ast.Call) -> str:
    parts = []
    f = c.func
    while isinstance(f, ast.Attribute):
        parts.append(f.attr)
        f = f.value
    if isinstance(f, ast.Name):
        parts.append(f.id)
    else:
        parts.append("?")
    return ".".join(reversed(parts))


def _ordered_calls(stmts: List[ast.stmt]) -> List[Tuple[ast.Call, Optional[str]]]:
    """Every Call in program order with the name it is assigned to (if any); except-handlers skipped."""
    out: List[Tuple[ast.Call, Optional[str]]] = []
    depth = [0]

    def expr_calls(e: ast.AST, target: Optional[str]) -> None:
        # inner calls first (arguments are evaluated before the call)
        for node in ast.iter_child_nodes(e):
            expr_calls(node, None)
        if isinstance(e, ast.Call):
            if depth[0] > 0:
                IN_LOOP.add(id(e))
            out.append((e, target))

    def walk(body: List[ast.stmt]) -> None:
        for s in body:
            if isinstance(s, ast.Try):
                walk(s.body)
                walk(s.orelse)
                walk(s.finalbody)
            elif isinstance(s, (ast.If,)):
                expr_calls(s.test, None)
                walk(s.body)
                walk(s.orelse)
            elif isinstance(s, ast.With):
                for it in s.items:
                    expr_calls(it.context_expr, None)
                walk(s.body)
            elif isinstance(s, (ast.For, ast.While)):
                wa = _is_write_all_loop(s)
                if wa is not None:
                    WRITE_ALL.add(id(wa))
                expr_calls(s.iter if isinstance(s, ast.For) else s.test, None)
                depth[0] += 1
                walk(s.body)
                walk(s.orelse)
                depth[0] -= 1
            elif isinstance(s, ast.Assign):
                tgt = None
                if len(s.targets) == 1:
                    t = s.targets[0]
                    if isinstance(t, ast.Name):
                        tgt = t.id
                    elif isinstance(t, ast.Tuple) and all(isinstance(x, ast.Name) for x in t.elts):
                        tgt = ",".join(x.id for x in t.elts)       # fd, temp_path = mkstemp(...)
                    elif isinstance(t, ast.Attribute):
                        tgt = "self." + t.attr
                expr_calls(s.value, tgt)
            elif isinstance(s, (ast.Expr, ast.Return, ast.Raise, ast.Assert, ast.AnnAssign, ast.AugAssign)):
                for node in ast.iter_child_nodes(s):
                    expr_calls(node, None)
            elif isinstance(s, (ast.Pass, ast.Import, ast.ImportFrom, ast.Continue, ast.Break, ast.Delete, ast.Global, ast.Nonlocal)):
                pass
            else:
                raise Unsupported(f"statement kind {type(s).__name__} in a publish routine")
    walk(stmts)
    return out


IN_LOOP: set = set()      # ids of Call nodes that sit inside a loop (repeatable: not allowed for OS calls)
WRITE_ALL: set = set()    # ids of os.write calls inside a recognised write-all loop (one Write of the whole content)


def _is_write_all_loop(loop: ast.AST) -> Optional[ast.Call]:
    """`while len(buf) > 0: n = os.write(fd, buf); [if n <= 0: raise ...]; buf = buf[n:]`
    -- the POSIX write-everything idiom; returns its os.write call.  It transfers exactly the buffer's
    content, so it is ONE `Write tmp c` of the model."""
    if not isinstance(loop, ast.While) or loop.orelse:
        return None
    t = loop.test
    if not (isinstance(t, ast.Compare) and len(t.ops) == 1 and isinstance(t.ops[0], ast.Gt)
            and isinstance(t.left, ast.Call) and isinstance(t.left.func, ast.Name) and t.left.func.id == "len"
            and len(t.left.args) == 1 and isinstance(t.left.args[0], ast.Name)
            and isinstance(t.comparators[0], ast.Constant) and t.comparators[0].value == 0):
        return None
    buf = t.left.args[0].id
    body = list(loop.body)
    if len(body) not in (2, 3):
        return None
    a = body[0]
    if not (isinstance(a, ast.Assign) and len(a.targets) == 1 and isinstance(a.targets[0], ast.Name)
            and isinstance(a.value, ast.Call) and _call_name(a.value) == "os.write" and len(a.value.args) == 2
            and isinstance(a.value.args[1], ast.Name) and a.value.args[1].id == buf):
        return None
    n = a.targets[0].id
    if len(body) == 3:
        g = body[1]
        if not (isinstance(g, ast.If) and not g.orelse and len(g.body) == 1 and isinstance(g.body[0], ast.Raise)
                and isinstance(g.test, ast.Compare) and isinstance(g.test.left, ast.Name) and g.test.left.id == n):
            return None
    z = body[-1]
    if not (isinstance(z, ast.Assign) and len(z.targets) == 1 and isinstance(z.targets[0], ast.Name) and z.targets[0].id == buf
            and isinstance(z.value, ast.Subscript) and isinstance(z.value.value, ast.Name) and z.value.value.id == buf
            and isinstance(z.value.slice, ast.Slice) and isinstance(z.value.slice.lower, ast.Name) and z.value.slice.lower.id == n
            and z.value.slice.upper is None and z.value.slice.step is None):
        return None
    return a.value


def _name(e: ast.AST) -> str:
    if isinstance(e, ast.Name):
        return e.id
    if isinstance(e, ast.Attribute) and isinstance(e.value, ast.Name) and e.value.id == "self":
        return "self." + e.attr
    if isinstance(e, ast.Attribute):
        return _name(e.value) + "." + e.attr
    return dump(e)


IGNORED_OS = {"os.makedirs", "os.close", "os.path.dirname", "os.path.basename", "os.path.exists", "os.path.join"}


def _sequence(calls: List[Tuple[ast.Call, Optional[str]]], temp_vars: set, final_vars: set, dir_vars: set,
              writer_close: Optional[str]) -> List[str]:
    """Map the calls on os / tempfile / pq to model calls.  fd variables are tracked."""
    fd_kind: Dict[str, str] = {}     # fd variable -> "tmp" | "dir"
    seq: List[str] = []
    for c, tgt in calls:
        nm = _call_name(c)
        if id(c) in IN_LOOP and id(c) not in WRITE_ALL and (nm.startswith(("os.", "tempfile.", "pq.")) or nm == "open" or nm == writer_close) and nm not in IGNORED_OS:
            raise Unsupported(f"{nm} inside a loop in a publish routine")
        if nm == "tempfile.mkstemp":
            if not tgt or "," not in tgt:
                raise Unsupported("mkstemp result not unpacked into (fd, path)")
            fdv, pathv = tgt.split(",")
            fd_kind[fdv] = "tmp"
            temp_vars.add(pathv)
            seq.append("Create tmp")
        elif nm == "tempfile.NamedTemporaryFile":
            kw = {k.arg: k.value for k in c.keywords}
            if not (isinstance(kw.get("delete"), ast.Constant) and kw["delete"].value is False):
                raise Unsupported("NamedTemporaryFile without delete=False")
            seq.append("Create tmp")
        elif nm.startswith("tempfile."):
            raise Unsupported(f"tempfile call {nm}")
        elif nm == "os.open":
            if not tgt:
                raise Unsupported("os.open result not bound to a name")
            arg = _name(c.args[0])
            flags = _name(c.args[1]) if len(c.args) > 1 else "?"
            if flags != "os.O_RDONLY":
                raise Unsupported(f"os.open with flags {flags} (only O_RDONLY descriptors for fsync are in the subset)")
            if arg in temp_vars:
                fd_kind[tgt] = "tmp"
            elif arg in dir_vars:
                fd_kind[tgt] = "dir"
            else:
                raise Unsupported(f"os.open of {arg}: neither the temp file nor the final path's directory")
        elif nm == "os.write":
            fdv = _name(c.args[0])
            if fd_kind.get(fdv) != "tmp":
                raise Unsupported(f"os.write to descriptor {fdv} which is not the temp file's")
            seq.append("Write tmp c")
        elif nm in ("os.fsync", "os.fdatasync"):
            fdv = _name(c.args[0])
            k = fd_kind.get(fdv)
            if k == "tmp":
                seq.append("Fsync tmp")
            elif k == "dir":
                seq.append("FsyncDir (dir_of p)")
            else:
                raise Unsupported(f"fsync of unknown descriptor {fdv}")
        elif nm == "os.replace":
            a, b = _name(c.args[0]), _name(c.args[1])
            if a not in temp_vars or b not in final_vars:
                raise Unsupported(f"os.replace({a}, {b}) is not temp -> final")
            seq.append("Rename tmp p")
        elif nm in IGNORED_OS:
            continue
        elif nm.startswith("os."):
            raise Unsupported(f"os call outside the subset: {nm}")
        elif nm == "open":
            raise Unsupported("builtin open() in a publish routine")
        elif nm == "pq.ParquetWriter":
            arg = _name(c.args[0])
            if not (arg in temp_vars or arg == "self.file_path"):
                raise Unsupported(f"ParquetWriter on {arg}")
            # the S3 branch writes self.file_path through a pyarrow filesystem: not a local publish
        elif writer_close is not None and nm == writer_close:
            seq.append("Write tmp c")
    return seq


MAPPED = ("tempfile.mkstemp", "tempfile.NamedTemporaryFile", "os.write", "os.fsync", "os.fdatasync", "os.replace", "os.open")


def _has_mapped_call(stmts: List[ast.stmt], writer_close: Optional[str]) -> bool:
    for st in stmts:
        for n in ast.walk(st):
            if isinstance(n, ast.Call) and (_call_name(n) in MAPPED or (writer_close is not None and _call_name(n) == writer_close)):
                return True
    return False


def _always_raises(body: List[ast.stmt]) -> bool:
    """The handler body re-raises on every path (after best-effort cleanup that cannot itself escape)."""
    if not body:
        return False
    last = body[-1]
    if isinstance(last, ast.Raise):
        return True
    if isinstance(last, ast.If) and last.orelse:
        return _always_raises(last.body) and _always_raises(last.orelse)
    return False


def _is_dir_sync_try(t: ast.Try, dir_vars: set) -> bool:
    """`try: fd = os.open(<dir of the final path>, os.O_RDONLY); try: os.fsync(fd) finally: os.close(fd)`"""
    opens = [n for st in t.body for n in ast.walk(st) if isinstance(n, ast.Call) and _call_name(n) == "os.open"]
    others = [n for st in t.body for n in ast.walk(st) if isinstance(n, ast.Call) and _call_name(n) in MAPPED and _call_name(n) not in ("os.open", "os.fsync")]
    return bool(opens) and not others and all(_name(o.args[0]) in dir_vars for o in opens)


def _handler_names(h: ast.ExceptHandler) -> List[str]:
    if h.type is None:
        return ["BaseException"]
    if isinstance(h.type, ast.Tuple):
        return [dump(x) if not isinstance(x, ast.Name) else x.id for x in h.type.elts]
    return [h.type.id] if isinstance(h.type, ast.Name) else [dump(h.type)]


def _check_error_paths(fn: ast.FunctionDef, where: str, dir_vars: set, temp_vars: set, writer_close: Optional[str]) -> List[str]:
    """Every try statement around a mapped call: its handlers must let an OS failure of that call reach the
    caller (see the module docstring).  Returns the cleanup the outermost such handler performs, as model calls."""
    on_error: Optional[List[str]] = None

    def cleanup_of(body: List[ast.stmt]) -> List[str]:
        """statements before the final raise: only `try: if os.path.exists(t): os.remove(t) except Exception: pass`"""
        out: List[str] = []
        for st in body[:-1]:
            ok = False
            if isinstance(st, ast.Try) and not st.orelse and not st.finalbody and len(st.body) == 1 and isinstance(st.body[0], ast.If):
                g = st.body[0]
                if (not g.orelse and isinstance(g.test, ast.Call) and _call_name(g.test) == "os.path.exists" and _name(g.test.args[0]) in temp_vars
                        and len(g.body) == 1 and isinstance(g.body[0], ast.Expr) and isinstance(g.body[0].value, ast.Call)
                        and _call_name(g.body[0].value) == "os.remove" and _name(g.body[0].value.args[0]) == _name(g.test.args[0])
                        and all(len(hh.body) == 1 and isinstance(hh.body[0], ast.Pass) for hh in st.handlers)):
                    out.append("Unlink tmp")
                    ok = True
            if not ok:
                raise Unsupported(f"{where}: statement in the cleanup handler of a publish routine: {ast.unparse(st)[:90]}")
        return out

    def visit(stmts: List[ast.stmt]) -> None:
        nonlocal on_error
        for st in stmts:
            if isinstance(st, ast.Try):
                if _has_mapped_call(st.body, writer_close):
                    dirsync = _is_dir_sync_try(st, dir_vars)
                    for h in st.handlers:
                        names = _handler_names(h)
                        if names == ["AttributeError"] and len(h.body) == 1 and isinstance(h.body[0], ast.Pass):
                            continue                                   # (b)
                        if dirsync and names == ["OSError"] and h.name and len(h.body) == 1 and isinstance(h.body[0], ast.If):
                            g = h.body[0]                              # (c)
                            if (not g.orelse and ast.unparse(g.test) == f"not dir_fsync_unsupported({h.name})"
                                    and len(g.body) == 1 and isinstance(g.body[0], ast.Raise)):
                                continue
                        if _always_raises(h.body) and isinstance(h.body[-1], ast.Raise):
                            if not dirsync:                             # (a) with cleanup: the routine's outer handler
                                c = cleanup_of(h.body)
                                if on_error is not None and c != on_error:
                                    raise Unsupported(f"{where}: two different cleanup handlers")
                                on_error = c
                            continue
                        raise Unsupported(f"{where}: `except {', '.join(names)}` around {'the directory fsync' if dirsync else 'a durability call'} "
                                          f"does not let the OS failure reach the caller (a swallowed failure lets the commit go on to "
                                          f"advance the pointer): {ast.unparse(h)[:120]!r}")
                visit(st.body)
                visit(st.orelse)
                visit(st.finalbody)
                # handlers are error paths: a mapped call inside one would be an unmodelled OS call
                for h in st.handlers:
                    if _has_mapped_call(h.body, writer_close):
                        raise Unsupported(f"{where}: durability call inside an except handler")
            elif isinstance(st, (ast.If, ast.While, ast.For)):
                visit(st.body)
                visit(st.orelse)
            elif isinstance(st, ast.With):
                visit(st.body)
    visit(strip_docstring(fn.body))
    if on_error is None:
        raise Unsupported(f"{where}: no cleanup handler (except ...: remove the temp file; raise) around the durability calls")
    return on_error


def _durability_calls_in(fn: ast.AST, writer_close: Optional[str]) -> List[str]:
    out = []
    for n in ast.walk(fn):
        if isinstance(n, ast.Call):
            nm = _call_name(n)
            if (nm in MAPPED or (nm.startswith(("os.", "tempfile.", "shutil.")) and nm not in IGNORED_OS and not nm.startswith("os.path."))
                    or nm == "open" or (writer_close is not None and nm == writer_close)):
                out.append(nm)
    return out


def _check_guards(fn: ast.FunctionDef, where: str, allowed: set, early_exit_ok: set, writer_close: Optional[str]) -> None:
    """Durability calls only under the pinned conditions; early `return`s only under the pinned tests.
    Except handlers (error paths, read by _check_error_paths) are not entered."""
    def nodes(x: ast.AST):
        yield x
        for ch in ast.iter_child_nodes(x):
            if not isinstance(ch, ast.ExceptHandler):
                yield from nodes(ch)
    for n in nodes(fn):
        if isinstance(n, (ast.If, ast.While)) and _is_write_all_loop(n) is None:
            test = ast.unparse(n.test)
            guarded = [c for st in list(n.body) + list(n.orelse) for c in _durability_calls_in(st, writer_close)]
            helper = [c for st in list(n.body) + list(n.orelse) for x in ast.walk(st)
                      if isinstance(x, ast.Call) and (c := _call_name(x)).startswith("self._") and c.count(".") == 1]
            if (guarded or helper) and test not in allowed:
                raise Unsupported(f"{where}: {(guarded + helper)[0]} under the condition `{test}`: a durability call that is sometimes "
                                  f"skipped is not the unconditional call of the model")
            if any(isinstance(x, ast.Return) for st in n.body + n.orelse for x in ast.walk(st)) and test not in early_exit_ok | allowed:
                raise Unsupported(f"{where}: early return under `{test}` in a publish routine")
        elif isinstance(n, ast.IfExp) and _durability_calls_in(n, writer_close):
            raise Unsupported(f"{where}: durability call inside a conditional expression")


def _writer_write_path(do: ast.Module) -> List[str]:
    """The methods of DataFileWriter other than open / close: no durability call; the arrow writer is fed through
    self._writer.write_batch only.  Returns the model calls of ONE such burst."""
    cls = next((n for n in do.body if isinstance(n, ast.ClassDef) and n.name == "DataFileWriter"), None)
    if cls is None:
        raise Unsupported("class DataFileWriter not found")
    feeds = []
    for m in cls.body:
        if not isinstance(m, (ast.FunctionDef, ast.AsyncFunctionDef)) or m.name in ("open", "close"):
            continue
        bad = _durability_calls_in(m, "self._writer.close")
        if bad:
            raise Unsupported(f"DataFileWriter.{m.name}: durability call {bad[0]} outside open / close: what close() must still flush "
                              f"would depend on how much was written (the model's data writer syncs once, after the last burst)")
        for n in ast.walk(m):
            if isinstance(n, ast.Call) and _call_name(n).startswith("self._writer."):
                if _call_name(n) != "self._writer.write_batch":
                    raise Unsupported(f"DataFileWriter.{m.name}: {_call_name(n)} (only write_batch feeds the arrow writer in the subset)")
                feeds.append(m.name)
    if set(feeds) != {"write_batch"}:
        raise Unsupported(f"DataFileWriter: the arrow writer is fed from {sorted(set(feeds))}, expected write_batch only")
    return ["Write tmp b"]


def _dir_fsync_unsupported_pin(sb: ast.Module) -> None:
    """dir_fsync_unsupported(exc) may say True only for `unsupported here`: Windows, or an errno from the fixed set."""
    fn = find_function(sb, "dir_fsync_unsupported", None)
    body = strip_docstring(fn.body)
    want = ["if os.name == 'nt':\n    return True", "return exc.errno in (errno.EINVAL, errno.ENOTSUP, errno.EOPNOTSUPP)"]
    got = [ast.unparse(x) for x in body]
    if got != want:
        raise Unsupported(f"dir_fsync_unsupported changed (which failures of a directory fsync are tolerated): {got}")


def _render(name: str, seq: List[str], doc: str) -> str:
    body = "; ".join(seq)
    return f"(* {doc} *)\nDefinition {name} (tmp p : path) (c : content) : list call :=\n  [{body}].\n"


def _pos(calls: List[Tuple[ast.Call, Optional[str]]], suffix: str) -> List[int]:
    return [k for k, (c, _) in enumerate(calls) if _call_name(c).endswith(suffix)]


def _require_order(fn: ast.FunctionDef, what: str, *suffixes: str) -> None:
    calls = _ordered_calls(strip_docstring(fn.body))
    last = -1
    for sfx in suffixes:
        ps = _pos(calls, sfx)
        if not ps:
            raise Unsupported(f"{what}: call *{sfx} not found")
        if min(ps) <= last:
            raise Unsupported(f"{what}: source order changed, *{sfx} no longer after the previous step ({suffixes})")
        last = max(ps)


@generator("GenDurable.v")
def gen(src: str) -> str:
    sb = parse_module(src, "storage_backend.py")
    do = parse_module(src, "data_operations.py")
    tx = parse_module(src, "transaction.py")
    fm = parse_module(src, "file_manager.py")
    mm = parse_module(src, "metadata_manager.py")

    # ---- LocalStorageBackend.write_file
    wf = find_function(sb, "write_file", "LocalStorageBackend")
    calls = _ordered_calls(strip_docstring(wf.body))
    seq_wf = _sequence(calls, temp_vars=set(), final_vars={"full_path"}, dir_vars={"dir_path"}, writer_close=None)
    err_wf = _check_error_paths(wf, "LocalStorageBackend.write_file", {"dir_path"}, {"temp_path"}, None)
    _check_guards(wf, "LocalStorageBackend.write_file", set(), set(), None)
    _dir_fsync_unsupported_pin(sb)

    # ---- DataFileWriter.open (local branch) + close
    op = find_function(do, "open", "DataFileWriter")
    cl = find_function(do, "close", "DataFileWriter")
    ocalls = _ordered_calls(strip_docstring(op.body))
    ccalls = _ordered_calls(strip_docstring(cl.body))
    # close() must take the temp name from the NamedTemporaryFile and the directory from self.file_path
    src_close = ast.unparse(cl)
    if "temp_name = self._temp_file.name" not in src_close or "dir_path = os.path.dirname(self.file_path)" not in src_close:
        raise Unsupported("DataFileWriter.close: temp_name / dir_path bindings changed")
    seq_dw = _sequence(ocalls + ccalls, temp_vars={"self._temp_file.name", "temp_name"}, final_vars={"self.file_path"},
                       dir_vars={"dir_path"}, writer_close="self._writer.close")
    err_dw = _check_error_paths(cl, "DataFileWriter.close", {"dir_path"}, {"temp_name"}, "self._writer.close")
    _check_guards(op, "DataFileWriter.open", {"self.file_format == FileFormat.PARQUET", "self._filesystem"}, set(), "self._writer.close")
    _check_guards(cl, "DataFileWriter.close", {"self._temp_file"}, {"not self._writer"}, "self._writer.close")
    burst = _writer_write_path(do)

    # ---- golden order of the commit's steps (modelled by hand)
    _require_order(find_function(tx, "append_data", "Transaction"), "Transaction.append_data", "_register_inflight", "write_data_file")
    _require_order(find_function(fm, "create_manifest_file", "FileManager"), "FileManager.create_manifest_file", "pre_write_hook", "storage.write_file")
    _require_order(find_function(fm, "create_manifest_list_file", "FileManager"), "FileManager.create_manifest_list_file", "pre_write_hook", "storage.write_file")
    _require_order(find_function(mm, "commit", "MetadataManager"), "MetadataManager.commit", "_write_metadata_file", "_write_hint_at_commit_point")
    _require_order(find_function(mm, "initialize_table", "MetadataManager"), "MetadataManager.initialize_table", "_write_metadata_file", "storage.write_file")
    _require_order(find_function(tx, "_commit_file_ops", "Transaction"), "Transaction._commit_file_ops",
                   "create_manifest_file", "create_manifest_list_file", "create_snapshot")
    fc = find_function(tx, "_finish_committed", "Transaction")
    fcalls = [_call_name(c) for c, _ in _ordered_calls(strip_docstring(fc.body))]
    if [n for n in fcalls if "storage." in n] != ["self.file_manager.storage.delete_file"]:
        raise Unsupported(f"Transaction._finish_committed: storage calls changed: {fcalls}")
    hk = find_function(tx, "_register_inflight", "Transaction")
    hcalls = [_call_name(c) for c, _ in _ordered_calls(strip_docstring(hk.body))]
    if [n for n in hcalls if "storage." in n] != ["self.file_manager.storage.write_file"]:
        raise Unsupported(f"Transaction._register_inflight: storage calls changed: {hcalls}")

    out = ["(* GENERATED by translator/gen_durable.py from storage_backend.py / data_operations.py -- do not edit. *)",
           "From Coq Require Import NArith List.",
           "Require Import DS.Model.DurableBase.",
           "Import ListNotations.",
           "",
           _render("gen_write_file", seq_wf, "LocalStorageBackend.write_file: calls on os / tempfile in program order"),
           _render("gen_data_writer", seq_dw, "DataFileWriter.open (local branch) + close: calls on os / tempfile / the parquet writer in program order"),
           "(* DataFileWriter.write_batch (reached from write_records / write_pandas): what ONE self._writer.write_batch(...) does to the\n"
           "   temp file; no method other than open / close makes a durability call (checked by the translator, fail closed) *)",
           f"Definition gen_data_writer_burst (tmp : path) (b : content) : list call := [{'; '.join(burst)}].",
           "",
           "(* ERROR PATHS.  How many of the calls, counted from the first, raise to the caller when the OS refuses them\n"
           "   (every enclosing `try` lets the failure out; a swallowed OSError is rejected by the translator) ... *)",
           f"Definition gen_write_file_fallible : nat := {len(seq_wf)}%nat.",
           f"Definition gen_data_writer_fallible : nat := {len(seq_dw)}%nat.",
           "(* ... and what the routine's cleanup handler does before re-raising (guarded by os.path.exists(temp)) *)",
           f"Definition gen_write_file_on_error (tmp : path) : list call := [{'; '.join(err_wf)}].",
           f"Definition gen_data_writer_on_error (tmp : path) : list call := [{'; '.join(err_dw)}].",
           ""]
    return "\n".join(out)
