"""GenCreateSchema.v -- what becomes of the schema given at creation, and what a schema-less append does (C18).

    iceberg.create_table / Table.__init__ / Table._initialize_table + TableMetadata.__post_init__   (transaction.py, data_structures.py)
      gen_init_schemas        (schemas, current_schema_id) of the v0 metadata an initialisation writes, as a function of the
                              schema argument (None: the default empty schema 0)
    Transaction._resolve_table_schema
      gen_resolve_table_schema  the persisted schema a schema-less append uses: the current one when it has fields, else the
                              first one that has, else none
    Transaction.append_data
      gen_append_order        the protocol-relevant statements in program order: the no-schema ValueError is raised before
                              the in-flight marker and the data file are written
      gen_append_schema       the schema the append writes with (None = raises): the argument after validation, else the
                              table's

Fail-closed: each function's statements are compared with the shape read here (ast.unparse text for the kernels that are
emitted as fixed Gallina; a statement classifier with a closed vocabulary for append_data)."""
from __future__ import annotations

import ast
from typing import List

from core import Unsupported, find_function, generator, parse_module, strip_docstring


def _u(n: ast.AST) -> str:
    return ast.unparse(n)


def _body(fn: ast.FunctionDef) -> List[str]:
    return [_u(s) for s in strip_docstring(fn.body)]


RESOLVE_BODY = [
    "metadata = self.metadata_manager.refresh()",
    "if metadata and metadata.schemas:\n    for s in metadata.schemas:\n        if s.schema_id == metadata.current_schema_id and s.fields:\n"
    "            return s\n    for s in metadata.schemas:\n        if s.fields:\n            return s",
    "return None",
]

INIT_IF = ("if schema is not None:\n    initial_metadata = TableMetadata(location=self.table_path, schemas=[schema], "
           "current_schema_id=schema.schema_id, partition_specs=[partition_spec] if partition_spec is not None else [])\n"
           "else:\n    initial_metadata = TableMetadata(location=self.table_path, "
           "partition_specs=[partition_spec] if partition_spec is not None else [])")
INIT_TRY_HEAD = "try:\n    self.metadata_manager.initialize_table(initial_metadata)\nexcept TableExistsError:"

POST_INIT_HEAD = [
    "if not self.schemas:\n    self.schemas = [Schema(schema_id=0, fields=[])]",
    "if self.current_schema_id == 0 and self.schemas:\n    self.current_schema_id = self.schemas[0].schema_id",
]


def _check_resolve(tx: ast.Module) -> None:
    fn = find_function(tx, "_resolve_table_schema", "Transaction")
    if _body(fn) != RESOLVE_BODY:
        raise Unsupported(f"_resolve_table_schema changed: {_body(fn)}")


def _check_init(tx: ast.Module, ds: ast.Module, ice: ast.Module) -> None:
    fn = find_function(tx, "_initialize_table", "Table")
    if [a.arg for a in fn.args.args] != ["self", "schema", "partition_spec"]:
        raise Unsupported("_initialize_table: signature changed")
    body = _body(fn)
    if not (len(body) == 3 and body[0] == "from .metadata_manager import TableExistsError" and body[1] == INIT_IF and body[2].startswith(INIT_TRY_HEAD)):
        raise Unsupported(f"_initialize_table changed: {body}")
    # Table.__init__ hands its schema argument on, only when nothing is resolvable
    ctor = find_function(tx, "__init__", "Table")
    last = strip_docstring(ctor.body)[-1]
    if _u(last) != "if create_if_not_exists and self.metadata_manager.refresh() is None:\n    self._initialize_table(schema, partition_spec)":
        raise Unsupported(f"Table.__init__ tail changed: {_u(last)}")
    for s in strip_docstring(ctor.body)[:-1]:
        for n in ast.walk(s):
            if isinstance(n, (ast.Name,)) and n.id == "schema" and isinstance(n.ctx, ast.Store):
                raise Unsupported("Table.__init__ rebinds `schema` before the initialisation")
    ct = find_function(ice, "create_table")
    first = strip_docstring(ct.body)[0]
    if _u(first) != "table = Table(table_path, create_if_not_exists=True, schema=schema, partition_spec=partition_spec)":
        raise Unsupported(f"create_table head changed: {_u(first)}")
    # TableMetadata: defaults and __post_init__
    cls = next((n for n in ast.walk(ds) if isinstance(n, ast.ClassDef) and n.name == "TableMetadata"), None)
    if cls is None:
        raise Unsupported("TableMetadata not found")
    fields = {_u(s.target): _u(s.value) if s.value is not None else None for s in cls.body if isinstance(s, ast.AnnAssign)}
    if fields.get("schemas") != "field(default_factory=list)" or fields.get("current_schema_id") != "0":
        raise Unsupported(f"TableMetadata defaults changed: schemas={fields.get('schemas')} current_schema_id={fields.get('current_schema_id')}")
    pi = find_function(ds, "__post_init__", "TableMetadata")
    pb = _body(pi)
    if pb[:2] != POST_INIT_HEAD:
        raise Unsupported(f"TableMetadata.__post_init__ changed: {pb[:2]}")
    for later in pb[2:]:
        if "schemas" in later or "current_schema_id" in later:
            raise Unsupported(f"TableMetadata.__post_init__ touches the schemas again: {later[:80]}")


NO_SCHEMA_IF_HEAD = "if schema is None:\n    schema = self._resolve_table_schema()\n    if schema is None:\n        raise ValueError("
NO_SCHEMA_IF_TAIL = "\nelse:\n    self._validate_schema_against_table(schema)"
# (F-C11 repair 0c35afc: the schema ARGUMENT object is re-validated as it is now before it is compared with the table's)
NO_SCHEMA_IF_TAIL2 = "\nelse:\n    Schema(schema_id=schema.schema_id, fields=schema.fields)\n    self._validate_schema_against_table(schema)"


def _append_order(tx: ast.Module) -> List[str]:
    fn = find_function(tx, "append_data", "Transaction")
    if [a.arg for a in fn.args.args] != ["self", "records", "schema", "partition_values"]:
        raise Unsupported("append_data: signature changed")
    acts: List[str] = []
    for s in strip_docstring(fn.body):
        t = _u(s)
        calls = sorted({_u(c.func) for c in ast.walk(s) if isinstance(c, ast.Call)})
        if t.startswith("if not self.is_active():") and isinstance(s, ast.If) and not s.orelse:
            acts.append("AAActive")
        elif t.startswith(NO_SCHEMA_IF_HEAD) and (t.endswith(NO_SCHEMA_IF_TAIL) and len(s.orelse) == 1 or t.endswith(NO_SCHEMA_IF_TAIL2) and len(s.orelse) == 2) \
                and isinstance(s, ast.If) and len(s.body) == 2 \
                and isinstance(s.body[1], ast.If) and len(s.body[1].body) == 1 and isinstance(s.body[1].body[0], ast.Raise) and not s.body[1].orelse:
            acts += ["AAResolveSchema", "AARaiseNoSchema", "AAValidateArg"]
        elif t == "self._register_inflight(file_path)":
            acts.append("AAMarker")
        elif isinstance(s, ast.Assign) and calls == ["self.file_manager.data_file_manager.write_data_file"]:
            kw = {k.arg: _u(k.value) for k in s.value.keywords} if isinstance(s.value, ast.Call) else {}
            if kw.get("iceberg_schema") != "schema" or kw.get("records") != "records":
                raise Unsupported(f"append_data: the data file is not written from (records, schema): {kw}")
            acts.append("AADataWrite")
        elif t == "self._written_files.append(file_path)":
            acts.append("AATrack")
        elif t in ("self.append_files([updated_data_file])", "self.append_files([updated_data_file], _statistics_computed_here=True)",
                   "self.append_files([updated_data_file], _statistics_computed_here=_STATISTICS_COMPUTED_HERE)"):
            acts.append("AAQueue")
        elif isinstance(s, ast.Return):
            continue
        elif isinstance(s, ast.Assign) and all(c in ("uuid.uuid4", "DataFile") for c in calls):
            for n in ast.walk(s):
                if isinstance(n, ast.Name) and n.id == "schema" and isinstance(n.ctx, ast.Store):
                    raise Unsupported("append_data rebinds `schema`")
            continue
        else:
            raise Unsupported(f"append_data: statement outside the known vocabulary: {t[:100]}")
    need = ["AAActive", "AAResolveSchema", "AARaiseNoSchema", "AAValidateArg", "AAMarker", "AADataWrite"]
    if [a for a in acts if a in need] != need:
        raise Unsupported(f"append_data: order of the schema resolution / marker / data write changed: {acts}")
    return acts


@generator("GenCreateSchema.v")
def gen(src: str) -> str:
    tx = parse_module(src, "transaction.py")
    ds = parse_module(src, "data_structures.py")
    ice = parse_module(src, "iceberg.py")
    _check_resolve(tx)
    _check_init(tx, ds, ice)
    order = _append_order(tx)
    return "\n".join([
        "(* GENERATED by translator/gen_createschema.py from transaction.py / data_structures.py / iceberg.py -- do not edit. *)",
        "From Coq Require Import ZArith List Bool.",
        "Require Import DS.Model.CreateBase.",
        "Import ListNotations.",
        "Open Scope Z_scope.",
        "",
        "Section CreateSchema.",
        "  (* a schema object: its schema_id, whether its field list is non-empty; the default Schema(schema_id=0, fields=[]) *)",
        "  Variables (S : Type) (sid : S -> Z) (has_fields : S -> bool) (empty0 : S).",
        "",
        "  (* TableMetadata.__post_init__, the part about schemas *)",
        "  Definition gen_post_init (schemas : list S) (cur : Z) : list S * Z :=",
        "    let schemas1 := match schemas with [] => [empty0] | _ => schemas end in",
        "    (schemas1, if cur =? 0 then match schemas1 with s :: _ => sid s | [] => cur end else cur).",
        "",
        "  (* create_table(path, schema=arg) / Table(path, schema=arg) -> _initialize_table(arg): the (schemas, current_schema_id) of v0 *)",
        "  Definition gen_init_schemas (arg : option S) : list S * Z :=",
        "    match arg with",
        "    | Some s => gen_post_init [s] (sid s)",
        "    | None => gen_post_init [] 0",
        "    end.",
        "",
        "  (* Transaction._resolve_table_schema over the persisted (schemas, current_schema_id) *)",
        "  Definition gen_resolve_table_schema (schemas : list S) (cur : Z) : option S :=",
        "    match find (fun s => (sid s =? cur) && has_fields s) schemas with",
        "    | Some s => Some s",
        "    | None => find has_fields schemas",
        "    end.",
        "",
        "  (* Transaction.append_data: the schema the data file is written with; None = ValueError('No schema available ...') *)",
        "  Definition gen_append_schema (table : option S) (arg : option S) : option S :=",
        "    match arg with",
        "    | None => table",
        "    | Some a => Some a        (* after _validate_schema_against_table(a), which may raise *)",
        "    end.",
        "End CreateSchema.",
        "",
        "(* Transaction.append_data: protocol-relevant statements in program order *)",
        f"Definition gen_append_order : list append_act :=\n  [{'; '.join(order)}].",
        "",
    ])


if __name__ == "__main__":
    import sys
    print(gen(sys.argv[1]))
