"""GenFileOps.v -- Transaction._commit_file_ops and the operation partitioning of Transaction.commit, translated (C15, C09, C05).

    gen_partition        Transaction.commit: the loop over self._operations -> (append_files, deleted_paths, expire_cutoff)
    gen_is_file_txn      ... and the dispatch `if append_files or deleted_paths` (file commit vs metadata-only commit)
    gen_base_manifests   _commit_file_ops step 1: the manifests of the base snapshot (PyRaise = dangling current_snapshot_id)
    gen_final_manifests  step 2: the delete rewrite of the existing manifests
    gen_append_manifests step 3: the manifest of the appended files, added after the carried-over ones
    gen_parent / gen_seq the parent id and sequence number stamped into the new snapshot

coq/Model/Meta.v models the same steps by hand (tx_adds / tx_dels / tx_expire, base_manifests, apply_deletes,
append_manifest, new_snap); Proofs/FileOpsGenProofs.v proves them equal for all inputs.

What the file manager does is NOT translated here; its contract is the model's (coq/Model/Meta.v):
    read_manifest_list_file(snapshot.manifest_list)        -> the snapshot's manifests               (mlist s)
    read_manifest_file(manifest.manifest_path)             -> the manifest's entries                 (a manifest IS its entries)
    create_manifest_file([], DATA, id, existing_files=fs, sequence_number=q)   -> map to_existing fs  (status EXISTING, added id / seq kept)
    create_manifest_file(fs, DATA, id, sequence_number=q)  -> entries with status ADDED, added id = id, seq = q
(checked by C15's correspondence and C14's read theorems).  A failing read raises (`except Exception ... raise RuntimeError`):
the translated kernels describe the run in which the reads succeed.

Subset: assignments, `if`/`elif`/`else`, search loops (`for x in xs: if c: v = x; break`), accumulate loops whose body only
appends to ONE list in if/elif/else arms (-> flat_map), list / set comprehensions with a filter, `len`, `==`, `>`, `!=`,
`is None`, `not in`, `.lstrip("/")` on table-relative paths, `x.startswith("/")`-guarded lstrip (= lstrip), the dict-typed
operation records of Transaction.commit.  Anything else: Unsupported (fail closed).
"""
from __future__ import annotations

import ast
from typing import Dict, List, Optional, Tuple

from core import Unsupported, find_function, generator, parse_module, strip_docstring


def _u(n: ast.AST) -> str:
    return ast.unparse(n)


def _bad(msg: str) -> Unsupported:
    return Unsupported("Transaction._commit_file_ops: " + msg)


# ---------------------------------------------------------------------------------------------- step 1: base manifests
def gen_base(fn: ast.FunctionDef) -> str:
    body = strip_docstring(fn.body)
    src = [_u(s) for s in body]
    try:
        k = src.index("existing_manifests: List[ManifestFile] = []")
    except ValueError:
        raise _bad("`existing_manifests: List[ManifestFile] = []` not found")
    g = body[k + 1]
    if not (isinstance(g, ast.If) and not g.orelse
            and _u(g.test) == "base_metadata.current_snapshot_id is not None and base_metadata.current_snapshot_id != -1"):
        raise _bad(f"step 1 guard changed: {_u(g.test) if isinstance(g, ast.If) else src[k + 1][:80]}")
    b = g.body
    bs = [_u(x) for x in b]
    want0 = "base_snapshot = None"
    if bs[0] != want0 or not isinstance(b[1], ast.For):
        raise _bad(f"step 1 does not start with the base-snapshot search: {bs[:2]}")
    loop = b[1]
    if _u(loop) != ("for s in base_metadata.snapshots:\n    if s.snapshot_id == base_metadata.current_snapshot_id:\n"
                    "        base_snapshot = s\n        break"):
        raise _bad(f"base-snapshot search loop changed: {_u(loop)}")
    r = b[2]
    if not (isinstance(r, ast.If) and _u(r.test) == "base_snapshot is None" and not r.orelse and len(r.body) == 1
            and isinstance(r.body[0], ast.Raise) and _u(r.body[0].exc).startswith("RuntimeError(")):
        raise _bad("a dangling current_snapshot_id no longer raises RuntimeError")
    if bs[3] != "path = base_snapshot.manifest_list" or bs[4] != "if path.startswith('/'):\n    path = path.lstrip('/')":
        raise _bad(f"manifest-list path handling changed: {bs[3:5]}")
    t = b[5]
    if not (isinstance(t, ast.Try) and [_u(x) for x in t.body] == ["existing_manifests = self.file_manager.read_manifest_list_file(path)"]
            and len(t.handlers) == 1 and _u(t.handlers[0].type) == "Exception" and isinstance(t.handlers[0].body[-1], ast.Raise)
            and t.handlers[0].body[-1].exc is not None and not t.orelse and not t.finalbody and len(b) == 6):
        raise _bad("the manifest-list read (or its fail-closed handler) changed")
    return ("(* _commit_file_ops step 1 (reads succeeding): the base snapshot's manifests; PyRaise = current_snapshot_id names no snapshot *)\n"
            "Definition gen_base_manifests (m : meta) : pyres (list manifest) :=\n"
            "  let existing_manifests := ([] : list manifest) in\n"
            "  if (py_is_not_none (cur m)) && (py_ne_int (cur m) (-1)) then\n"
            "    let base_snapshot := find (fun s => opt_eqb (Some (sid s)) (cur m)) (snaps m) in\n"
            "    match base_snapshot with\n"
            "    | None => PyRaise\n"
            "    | Some base_snapshot_v => let existing_manifests := mlist base_snapshot_v in PyOk existing_manifests\n"
            "    end\n"
            "  else PyOk existing_manifests.\n")


# ---------------------------------------------------------------------------------------------- step 2: deletes
class Ops:
    """expressions of steps 2-3 over: deleted_paths / deleted_normalised : list path (set), existing_manifests / final_manifests :
    list manifest, manifest / data_files / surviving_files : manifest (list entry), f : entry."""

    def __init__(self, env: Dict[str, Tuple[str, str]]):
        self.env = dict(env)

    def expr(self, e: ast.AST) -> Tuple[str, str]:
        if isinstance(e, ast.Name):
            if e.id not in self.env:
                raise _bad(f"unknown name {e.id}")
            return self.env[e.id]
        if isinstance(e, ast.Constant) and isinstance(e.value, int) and not isinstance(e.value, bool):
            return f"({e.value})", "z"
        if isinstance(e, ast.Attribute):
            v, ty = self.expr(e.value)
            if ty == "entry" and e.attr == "file_path":
                return f"(epath {v})", "path"
            raise _bad(f"attribute {_u(e)} of a {ty}")
        if isinstance(e, ast.Call):
            f = e.func
            if isinstance(f, ast.Attribute) and f.attr == "lstrip" and [_u(a) for a in e.args] == ["'/'"]:
                v, ty = self.expr(f.value)
                if ty != "path":
                    raise _bad(f"lstrip of a {ty}")
                return f"(lstrip {v})", "path"
            if _u(f) == "len" and len(e.args) == 1:
                v, ty = self.expr(e.args[0])
                if ty not in ("manifest", "manifests", "paths"):
                    raise _bad(f"len of a {ty}")
                return f"(Z.of_nat (length {v}))", "z"
            if _u(f) == "list" and len(e.args) == 1:
                return self.expr(e.args[0])
            raise _bad(f"call {_u(e)}")
        if isinstance(e, (ast.SetComp, ast.ListComp)):
            g = e.generators[0]
            if len(e.generators) != 1 or not isinstance(g.target, ast.Name):
                raise _bad(f"comprehension {_u(e)}")
            src, st = self.expr(g.iter)
            et = {"paths": "path", "manifest": "entry"}.get(st)
            if et is None:
                raise _bad(f"comprehension over a {st}")
            v = g.target.id
            inner = Ops(self.env)
            inner.env[v] = (v, et)
            out = src
            if g.ifs:
                out = f"(filter (fun {v} => {' && '.join(inner.cond(i) for i in g.ifs)}) {out})"
            if isinstance(e.elt, ast.Name) and e.elt.id == v:
                return out, st
            el, elt = inner.expr(e.elt)
            if elt != et:
                raise _bad(f"comprehension maps {et} to {elt}")
            return f"(map (fun {v} => {el}) {out})", st
        raise _bad(f"expression {_u(e)}")

    def cond(self, e: ast.AST) -> str:
        if isinstance(e, ast.Compare) and len(e.ops) == 1:
            op, a, b = e.ops[0], e.left, e.comparators[0]
            if isinstance(op, (ast.In, ast.NotIn)):
                x, xt = self.expr(a)
                s, st = self.expr(b)
                if xt != "path" or st != "paths":
                    raise _bad(f"membership of a {xt} in a {st}")
                r = f"(mem_path {x} {s})"
                return r if isinstance(op, ast.In) else f"(negb {r})"
            x, xt = self.expr(a)
            y, yt = self.expr(b)
            if xt == yt == "z":
                sym = {ast.Eq: "=?", ast.Gt: ">?", ast.GtE: ">=?", ast.Lt: "<?", ast.LtE: "<=?"}.get(type(op))
                if sym:
                    return f"({x} {sym} {y})"
        if isinstance(e, ast.Name):
            v, ty = self.expr(e)
            if ty in ("paths", "manifest", "manifests"):
                return f"(negb (py_empty {v}))"
        if isinstance(e, ast.BoolOp):
            op = "&&" if isinstance(e.op, ast.And) else "||"
            return "(" + f" {op} ".join(self.cond(v) for v in e.values) + ")"
        raise _bad(f"condition {_u(e)}")


def _arm_items(stmts: List[ast.stmt], acc: str, ops: Ops) -> str:
    """An arm of the accumulate loop: the list of items it appends to `acc` (in order)."""
    items: List[str] = []
    for s in stmts:
        if isinstance(s, ast.Expr) and isinstance(s.value, ast.Call) and _u(s.value.func) == f"{acc}.append" and len(s.value.args) == 1:
            v, ty = ops.expr(s.value.args[0])
            if ty != "manifest":
                raise _bad(f"appends a {ty} to {acc}")
            items.append(v)
        elif isinstance(s, ast.Assign) and _u(s.targets[0]) == "new_manifest":
            c = s.value
            if not (isinstance(c, ast.Call) and _u(c.func) == "self.file_manager.create_manifest_file"):
                raise _bad(f"new_manifest = {_u(c)[:60]}")
            args = [_u(a) for a in c.args]
            kw = {k.arg: _u(k.value) for k in c.keywords}
            if args != ["[]", "ManifestContent.DATA", "snapshot_id"] or set(kw) != {"existing_files", "sequence_number", "pre_write_hook"} \
                    or kw["sequence_number"] != "sequence_number" or kw["pre_write_hook"] != "self._register_inflight":
                raise _bad(f"the rewrite's create_manifest_file call changed: {args} {kw}")
            ev, et = ops.expr(ast.parse(kw["existing_files"], mode="eval").body)
            if et != "manifest":
                raise _bad("existing_files is not a list of entries")
            ops.env["new_manifest"] = (f"(map to_existing {ev})", "manifest")
        elif isinstance(s, ast.Assign) and _u(s) == "new_manifest.partition_spec_id = manifest.partition_spec_id":
            continue                                    # not part of the model's manifest
        else:
            raise _bad(f"statement in a loop arm: {_u(s)[:80]}")
    return "[" + "; ".join(items) + "]"


def gen_final(fn: ast.FunctionDef) -> str:
    body = strip_docstring(fn.body)
    src = [_u(s) for s in body]
    try:
        k = src.index("final_manifests: List[ManifestFile] = []")
    except ValueError:
        raise _bad("`final_manifests: List[ManifestFile] = []` not found")
    g = body[k + 1]
    if not (isinstance(g, ast.If) and _u(g.test) == "deleted_paths" and [_u(x) for x in g.orelse] == ["final_manifests = list(existing_manifests)"]):
        raise _bad("step 2 is not `if deleted_paths: ... else: final_manifests = list(existing_manifests)`")
    ops = Ops({"deleted_paths": ("deleted_paths", "paths"), "existing_manifests": ("existing_manifests", "manifests")})
    b = g.body
    if not (len(b) == 2 and isinstance(b[0], ast.Assign) and _u(b[0].targets[0]) == "deleted_normalised" and isinstance(b[1], ast.For)):
        raise _bad(f"step 2 body changed: {[_u(x)[:50] for x in b]}")
    dn, dnt = ops.expr(b[0].value)
    if dnt != "paths":
        raise _bad("deleted_normalised is not a set of paths")
    ops.env["deleted_normalised"] = ("deleted_normalised", "paths")
    loop = b[1]
    if not (isinstance(loop.target, ast.Name) and loop.target.id == "manifest" and _u(loop.iter) == "existing_manifests" and not loop.orelse):
        raise _bad("the rewrite loop is not `for manifest in existing_manifests`")
    lb = loop.body
    ls = [_u(x) for x in lb]
    if ls[0] != "manifest_path = manifest.manifest_path" or ls[1] != "if manifest_path.startswith('/'):\n    manifest_path = manifest_path.lstrip('/')":
        raise _bad(f"manifest path handling changed: {ls[:2]}")
    t = lb[2]
    if not (isinstance(t, ast.Try) and [_u(x) for x in t.body] == ["data_files = self.file_manager.read_manifest_file(manifest_path)"]
            and len(t.handlers) == 1 and _u(t.handlers[0].type) == "Exception" and isinstance(t.handlers[0].body[-1], ast.Raise)
            and t.handlers[0].body[-1].exc is not None and not t.orelse and not t.finalbody):
        raise _bad("the manifest read (or its fail-closed handler) changed")
    ops.env["manifest"] = ("manifest", "manifest")
    ops.env["data_files"] = ("data_files", "manifest")
    a = lb[3]
    if not (isinstance(a, ast.Assign) and _u(a.targets[0]) == "surviving_files"):
        raise _bad("surviving_files assignment missing")
    sv, svt = ops.expr(a.value)
    if svt != "manifest":
        raise _bad("surviving_files is not a list of entries")
    ops.env["surviving_files"] = ("surviving_files", "manifest")
    br = lb[4]
    if len(lb) != 5 or not isinstance(br, ast.If):
        raise _bad("the loop body does not end in the keep / rewrite / drop decision")

    def arms(node: ast.If) -> str:
        c = ops.cond(node.test)
        then = _arm_items(node.body, "final_manifests", Ops(ops.env) if False else ops)
        if len(node.orelse) == 1 and isinstance(node.orelse[0], ast.If):
            other = arms(node.orelse[0])
        else:
            other = _arm_items(node.orelse, "final_manifests", ops)
        return f"if {c} then {then}\n        else {other}"
    decision = arms(br)
    return ("(* _commit_file_ops step 2 (reads succeeding): the manifests carried into the new snapshot *)\n"
            "Definition gen_final_manifests (deleted_paths : list path) (existing_manifests : list manifest) : list manifest :=\n"
            "  if negb (py_empty deleted_paths) then\n"
            f"    let deleted_normalised := {dn} in\n"
            "    flat_map (fun manifest =>\n"
            "      let data_files := manifest in\n"
            f"      let surviving_files := {sv} in\n"
            f"      {decision}) existing_manifests\n"
            "  else existing_manifests.\n")


def gen_append(fn: ast.FunctionDef) -> str:
    body = strip_docstring(fn.body)
    app = [s for s in body if isinstance(s, ast.If) and _u(s.test) == "append_files"]
    if len(app) != 1 or app[0].orelse:
        raise _bad("step 3 `if append_files:` not found")
    b = app[0].body
    bs = [_u(x) for x in b]
    if len(b) != 3 or bs[0] != "self.file_manager.validate_data_files(append_files)" or bs[2] != "final_manifests.append(new_append_manifest)":
        raise _bad(f"step 3 changed: {bs}")
    c = b[1].value if isinstance(b[1], ast.Assign) else None
    if not (isinstance(c, ast.Call) and _u(c.func) == "self.file_manager.create_manifest_file"
            and [_u(a) for a in c.args] == ["append_files", "ManifestContent.DATA", "snapshot_id"]
            and {k.arg: _u(k.value) for k in c.keywords} == {"sequence_number": "sequence_number", "pre_write_hook": "self._register_inflight"}):
        raise _bad("the append manifest's create_manifest_file call changed")
    # order: step 3 comes after step 2 and before the manifest list
    src = [_u(s) for s in body]
    i2 = src.index("final_manifests: List[ManifestFile] = []")
    i3 = body.index(app[0])
    i4 = next((k for k, s in enumerate(src) if s.startswith("manifest_list_path = self.file_manager.create_manifest_list_file(final_manifests, snapshot_id")), -1)
    if not (i2 < i3 < i4):
        raise _bad("steps 2, 3, 4 are no longer in this order / the manifest list is not built from final_manifests")
    # step 5: parent, sequence number, ids passed to create_snapshot
    cs = [s for s in body if isinstance(s, ast.Expr) and isinstance(s.value, ast.Call) and _u(s.value.func) == "self.snapshot_manager.create_snapshot"]
    if len(cs) != 1 or body.index(cs[0]) < i4:
        raise _bad("create_snapshot call missing or not after the manifest list")
    kw = {k.arg: _u(k.value) for k in cs[0].value.keywords}
    want = {"manifest_list_path": "manifest_list_path", "base_metadata": "base_metadata", "snapshot_id": "snapshot_id",
            "metadata_mutator": "mutator", "sequence_number": "sequence_number",
            "parent_snapshot_id": "base_metadata.current_snapshot_id if base_metadata.current_snapshot_id is not None else -1"}
    for k_, v in want.items():
        if kw.get(k_) != v:
            raise _bad(f"create_snapshot({k_}=...) changed: {kw.get(k_)}")
    if "sequence_number = base_metadata.last_sequence_number + 1" not in src:
        raise _bad("sequence_number is no longer base_metadata.last_sequence_number + 1")
    label = kw.get("operation")
    if label != "'append' if append_files else 'delete'":
        raise _bad(f"operation label changed: {label}")
    return ("(* step 3: the appended files' manifest (status ADDED, this commit's id and sequence number) goes after the carried-over ones *)\n"
            "Definition gen_append_manifests (snapshot_id sequence_number : Z) (append_files : list path) (final_manifests : list manifest) : list manifest :=\n"
            "  if negb (py_empty append_files) then\n"
            "    final_manifests ++ [map (fun p => {| epath := p; estatus := ST_ADDED; eadded := snapshot_id; eseq := sequence_number |}) append_files]\n"
            "  else final_manifests.\n"
            "(* step 5: what is stamped into the new snapshot *)\n"
            "Definition gen_seq (m : meta) : Z := last_seq m + 1.\n"
            "Definition gen_parent (m : meta) : option Z := Some (match cur m with Some c => c | None => -1 end).\n"
            "Definition gen_label_is_append (append_files : list path) : bool := negb (py_empty append_files).\n")


# ---------------------------------------------------------------------------------------------- Transaction.commit partition
def gen_partition(tx: ast.Module) -> str:
    fn = find_function(tx, "commit", "Transaction")
    loops = [n for n in ast.walk(fn) if isinstance(n, ast.For) and _u(n.iter) == "self._operations"]
    if len(loops) != 1:
        raise Unsupported("Transaction.commit: the loop over self._operations not found")
    lp = loops[0]
    want = ("for operation in self._operations:\n"
            "    if operation['type'] == 'append_files':\n        append_files.extend(operation['files'])\n"
            "    elif operation['type'] == 'delete_files':\n        deleted_paths.update(operation['file_paths'])\n"
            "    elif operation['type'] == 'expire_snapshots':\n        cutoff = int(operation['older_than_ms'])\n"
            "        expire_cutoff = cutoff if expire_cutoff is None else max(expire_cutoff, cutoff)")
    if _u(lp) != want:
        # translate the arms structurally instead of failing on any difference: only the three known record kinds
        raise Unsupported(f"Transaction.commit: the operation partitioning loop changed:\n{_u(lp)}")
    txt = _u(fn)
    for need in ("append_files: List[DataFile] = []", "deleted_paths: Set[str] = set()", "expire_cutoff: Optional[int] = None",
                 "mutator = self._make_expire_mutator(expire_cutoff) if expire_cutoff is not None else None",
                 "if append_files or deleted_paths:\n    self._commit_file_ops(base_metadata, append_files, deleted_paths, mutator)\nelse:\n"
                 "    new_metadata = self._deep_copy_metadata(base_metadata)\n    if mutator is not None:\n        mutator(new_metadata)\n"
                 "    self.metadata_manager.commit(base_metadata, new_metadata)"):
        if need.replace("\n", "\n" + " " * 20) not in txt and need not in txt:
            # indentation-insensitive comparison
            import re
            flat = re.sub(r"\s+", " ", txt)
            if re.sub(r"\s+", " ", need) not in flat:
                raise Unsupported(f"Transaction.commit: `{need.splitlines()[0]}` ... changed")
    return ("(* Transaction.commit: the queued operations partitioned (lists start empty, the cutoff at None) *)\n"
            "Definition gen_partition (ops : list txop) : list path * list path * option Z :=\n"
            "  fold_left (fun acc operation =>\n"
            "    let '(append_files, deleted_paths, expire_cutoff) := acc in\n"
            "    match operation with\n"
            "    | TAppend files => (append_files ++ files, deleted_paths, expire_cutoff)\n"
            "    | TDelete file_paths => (append_files, deleted_paths ++ file_paths, expire_cutoff)\n"
            "    | TExpire cutoff => (append_files, deleted_paths, Some (match expire_cutoff with None => cutoff | Some e => Z.max e cutoff end))\n"
            "    end) ops ([], [], None).\n"
            "(* `if append_files or deleted_paths`: a file commit (new snapshot); otherwise a metadata-only commit *)\n"
            "Definition gen_is_file_txn (append_files deleted_paths : list path) : bool :=\n"
            "  negb (py_empty append_files) || negb (py_empty deleted_paths).\n")


# ---------------------------------------------------------------------------------------------- every attempt carries the whole queue
_MUTATORS = {"update", "add", "discard", "remove", "clear", "pop", "extend", "append", "insert", "sort", "reverse",
             "difference_update", "intersection_update", "symmetric_difference_update", "__iand__", "__isub__", "__ior__"}


def _contains(outer: ast.AST, inner: ast.AST) -> bool:
    return any(n is inner for n in ast.walk(outer))


def gen_attempt_facts(tx: ast.Module) -> str:
    """Two counted source facts (C02 / C01: a retried transaction re-commits its WHOLE queue):
       gen_partition_per_attempt   the partition accumulators are (re)initialised and filled inside the body of the retry loop of
                                   Transaction.commit, after that attempt's refresh(), from self._operations (which commit() never mutates);
       gen_partition_args_kept     no statement after the partition loop -- in commit() or in _commit_file_ops, which receives the
                                   accumulators -- rebinds, augments or calls a mutating method on append_files / deleted_paths."""
    commit = find_function(tx, "commit", "Transaction")
    whiles = [n for n in ast.walk(commit) if isinstance(n, ast.While)]
    if len(whiles) != 1:
        raise Unsupported("Transaction.commit: expected exactly one retry loop")
    loop = whiles[0]
    part = [n for n in ast.walk(commit) if isinstance(n, ast.For) and _u(n.iter) == "self._operations"]
    inits = [n for n in ast.walk(commit) if isinstance(n, (ast.Assign, ast.AnnAssign))
             and _u(n.targets[0] if isinstance(n, ast.Assign) else n.target) in ("append_files", "deleted_paths", "expire_cutoff")
             and not any(_contains(p_, n) for p_ in part)]
    per_attempt = (len(part) == 1 and _contains(loop, part[0]) and len(inits) == 3 and all(_contains(loop, n) for n in inits)
                   and all(n.lineno < part[0].lineno for n in inits))
    # commit() itself never edits the queue while committing
    for n in ast.walk(commit):
        if isinstance(n, ast.Call) and isinstance(n.func, ast.Attribute) and _u(n.func.value) == "self._operations" and n.func.attr in _MUTATORS:
            per_attempt = False
        if isinstance(n, (ast.Assign, ast.AugAssign, ast.Delete)):
            tg = n.targets if isinstance(n, (ast.Assign, ast.Delete)) else [n.target]
            if any(_u(t).startswith("self._operations") for t in tg):
                per_attempt = False
    kept = True
    ACC = ("append_files", "deleted_paths", "expire_cutoff", "mutator")
    fo = find_function(tx, "_commit_file_ops", "Transaction")
    after = [n for n in ast.walk(commit) if hasattr(n, "lineno") and part and n.lineno > part[0].end_lineno]
    for n in list(ast.walk(fo)) + after:
        if isinstance(n, ast.AugAssign) and _u(n.target) in ACC:
            kept = False
        if isinstance(n, (ast.Assign, ast.AnnAssign)):
            tg = n.targets if isinstance(n, ast.Assign) else [n.target]
            if any(_u(t) in ACC or _u(t).startswith(tuple(a + "[" for a in ACC)) for t in tg):
                # (the one rebinding after the loop that is part of the partition itself: the mutator built from the cutoff)
                if not (n in after and _u(tg[0]) == "mutator" and "self._make_expire_mutator(expire_cutoff)" in _u(n.value)):
                    kept = False
            # an alias of an accumulator (x = deleted_paths) could be edited under another name
            val = n.value
            if val is not None and isinstance(val, ast.Name) and val.id in ACC[:2]:
                kept = False
        if isinstance(n, ast.Delete) and any(_u(t).startswith(ACC) for t in n.targets):
            kept = False
        if isinstance(n, ast.Call) and isinstance(n.func, ast.Attribute) and _u(n.func.value) in ACC \
                and n.func.attr in _MUTATORS:
            kept = False
    b = lambda v: "true" if v else "false"
    return ("(* counted on the source: the queue is partitioned afresh in every attempt of the retry loop, and nothing after the\n"
            "   partition (commit, _commit_file_ops) rebinds or mutates the accumulators *)\n"
            f"Definition gen_partition_per_attempt : bool := {b(per_attempt)}.\n"
            f"Definition gen_partition_args_kept : bool := {b(kept)}.\n")


@generator("GenFileOps.v")
def gen(src: str) -> str:
    tx = parse_module(src, "transaction.py")
    fn = find_function(tx, "_commit_file_ops", "Transaction")
    if [a.arg for a in fn.args.args] != ["self", "base_metadata", "append_files", "deleted_paths", "mutator"]:
        raise _bad("signature changed")
    return "\n".join([
        "(* GENERATED by translator/gen_fileops.py from transaction.py -- do not edit. *)",
        "From Coq Require Import ZArith List Bool.",
        "Require Import DS.Model.MetaBase DS.Model.Meta DS.Model.MetaPy.",
        "Import ListNotations.",
        "Open Scope Z_scope.",
        "",
        gen_partition(tx),
        gen_attempt_facts(tx),
        gen_base(fn),
        gen_final(fn),
        gen_append(fn),
    ])


if __name__ == "__main__":
    import sys
    print(gen(sys.argv[1]))
