"""GenHint.v -- the version-pointer logic of metadata_manager.py, regenerated.

Translated (Python ast -> Gallina, fail closed):
  * HINT_PATH, the pattern text of _METADATA_FILE_RE (and that re.compile gets no flags),
    self.metadata_path -- as code lists;
  * MetadataManager._parse_hint_content: the whole decision structure after the UTF-8 decode, as a
    term of type `pres` over the primitives of Model/HintPrim.v:
        text.isdigit()            -> py_isdigit text
        int(E)                    -> py_int E      (None = ValueError)
        _METADATA_FILE_RE.match   -> re_match      (Some group1 / None)
        not text                  -> is_empty text
    A `return int(E), S` whose int() raises goes to the innermost enclosing handler for ValueError:
    `PRaise` when there is none, the handler's `return None` when the statement sits inside
    `try: ... except ValueError: return None`.  So dropping the guard changes the generated term and
    C10_parse_total stops being provable.
Pinned by golden AST (modelled by hand in Model/Hint.v, compared by the correspondence harness):
  _read_version_hint, _current_version_info, _recover_version_from_files, and the first statement
  of _parse_hint_content (decode + strip).
"""
from __future__ import annotations

import ast
import hashlib
from typing import List, Optional

from core import Unsupported, dump, find_function, generator, parse_module, strip_docstring

GOLDEN = {
    # sha256 of core.dump(strip_docstring(body)); the shapes these hashes stand for are described in
    # Model/Hint.v next to the definitions that model them.
    "_read_version_hint": "99000138c67cd723",
    "_current_version_info": "4b2c527512cddc25",
    "_recover_version_from_files": "5b9d0be79e25c139",
}

DECODE_STMT = (
    "Try([Assign([Name('text', Store())], Call(Attribute(Call(Attribute(Name('content', Load()), 'decode', Load()), "
    "[Constant('utf-8')], []), 'strip', Load()), [], []))], [ExceptHandler(Name('UnicodeDecodeError', Load()), "
    "body=[Return(Constant(None))])], [], [])"
)

CATCHES_VALUEERROR = {"ValueError", "Exception"}


def sha(s: str) -> str:
    return hashlib.sha256(s.encode("utf-8")).hexdigest()[:16]


def codes(s: str) -> str:
    return "[" + ";".join(str(ord(c)) for c in s) + "]"


def _is_name(n: ast.AST, name: str) -> bool:
    return isinstance(n, ast.Name) and n.id == name


def _is_return_none(s: ast.stmt) -> bool:
    return isinstance(s, ast.Return) and (s.value is None or (isinstance(s.value, ast.Constant) and s.value.value is None))


class Ctx:
    def __init__(self, handler: str, match_vars: frozenset, group_ok: frozenset):
        self.handler = handler          # Gallina term for "ValueError raised here"
        self.match_vars = match_vars    # names bound to re_match results
        self.group_ok = group_ok        # match vars known to be Some (inside `if m:`)

    def with_(self, **kw) -> "Ctx":
        d = {"handler": self.handler, "match_vars": self.match_vars, "group_ok": self.group_ok}
        d.update(kw)
        return Ctx(**d)


def text_expr(n: ast.AST, ctx: Ctx) -> str:
    """A str-typed expression -> list cp."""
    if _is_name(n, "text"):
        return "text"
    if (isinstance(n, ast.Call) and isinstance(n.func, ast.Attribute) and n.func.attr == "group"
            and isinstance(n.func.value, ast.Name) and n.func.value.id in ctx.group_ok
            and len(n.args) == 1 and isinstance(n.args[0], ast.Constant) and n.args[0].value == 1 and not n.keywords):
        return f"{n.func.value.id}_g1"
    if isinstance(n, ast.JoinedStr):
        parts = []
        for v in n.values:
            if isinstance(v, ast.Constant) and isinstance(v.value, str):
                parts.append(f"lit {codes(v.value)}")
            elif isinstance(v, ast.FormattedValue) and v.conversion == -1 and v.format_spec is None:
                parts.append(text_expr(v.value, ctx))
            else:
                raise Unsupported(f"f-string part {dump(v)}")
        return "(" + " ++ ".join(parts) + ")" if parts else "[]"
    if isinstance(n, ast.Constant) and isinstance(n.value, str):
        return f"(lit {codes(n.value)})"
    raise Unsupported(f"string expression not supported: {dump(n)}")


def ret_expr(n: Optional[ast.AST], ctx: Ctx) -> str:
    if n is None or (isinstance(n, ast.Constant) and n.value is None):
        return "PRet None"
    if isinstance(n, ast.Tuple) and len(n.elts) == 2:
        a, b = n.elts
        if (isinstance(a, ast.Call) and _is_name(a.func, "int") and len(a.args) == 1 and not a.keywords):
            arg = text_expr(a.args[0], ctx)
            return (f"match py_int {arg} with Some n_ => PRet (Some (n_, {text_expr(b, ctx)})) "
                    f"| None => {ctx.handler} end")
    raise Unsupported(f"return value not supported: {dump(n)}")


def stmts(body: List[ast.stmt], ctx: Ctx, k: str) -> str:
    """Gallina term of type pres for `body`, continuing with `k` when control falls off its end."""
    if not body:
        return k
    s, rest = body[0], body[1:]
    if isinstance(s, ast.Return):
        return ret_expr(s.value, ctx)
    if isinstance(s, ast.Pass):
        return stmts(rest, ctx, k)
    if isinstance(s, ast.Expr) and isinstance(s.value, ast.Constant):
        return stmts(rest, ctx, k)
    if isinstance(s, ast.Assign) and len(s.targets) == 1 and isinstance(s.targets[0], ast.Name):
        name = s.targets[0].id
        v = s.value
        if (isinstance(v, ast.Call) and isinstance(v.func, ast.Attribute) and v.func.attr == "match"
                and _is_name(v.func.value, "_METADATA_FILE_RE") and len(v.args) == 1 and not v.keywords):
            if name in ("text", "raw_", "decoded", "n_") or name.endswith("_g1"):
                raise Unsupported(f"assignment to reserved name {name}")
            arg = text_expr(v.args[0], ctx)
            inner = stmts(rest, ctx.with_(match_vars=ctx.match_vars | {name}, group_ok=ctx.group_ok - {name}), k)
            return f"(let {name} := re_match {arg} in {inner})"
        raise Unsupported(f"assignment not supported: {dump(s)}")
    if isinstance(s, ast.If):
        kk = stmts(rest, ctx, k)
        t = s.test
        neg = False
        if isinstance(t, ast.UnaryOp) and isinstance(t.op, ast.Not):
            neg, t = True, t.operand
        if isinstance(t, ast.Name) and t.id in ctx.match_vars:
            m = t.id
            some_ctx = ctx.with_(group_ok=ctx.group_ok | {m})
            yes = stmts(s.orelse if neg else s.body, some_ctx, kk)
            no = stmts(s.body if neg else s.orelse, ctx, kk)
            return f"(match {m} with Some {m}_g1 => {yes} | None => {no} end)"
        if _is_name(t, "text"):
            cond = "negb (is_empty text)"
        elif (isinstance(t, ast.Call) and isinstance(t.func, ast.Attribute) and t.func.attr == "isdigit"
              and _is_name(t.func.value, "text") and not t.args and not t.keywords):
            cond = "py_isdigit text"
        else:
            raise Unsupported(f"condition not supported: {dump(t)}")
        if neg:
            cond = "is_empty text" if cond == "negb (is_empty text)" else f"negb ({cond})"
        return f"(if {cond} then {stmts(s.body, ctx, kk)} else {stmts(s.orelse, ctx, kk)})"
    if isinstance(s, ast.Try):
        if s.orelse or s.finalbody:
            raise Unsupported("try with else/finally")
        handler = ctx.handler
        for h in s.handlers:
            names = []
            if isinstance(h.type, ast.Name):
                names = [h.type.id]
            elif isinstance(h.type, ast.Tuple) and all(isinstance(e, ast.Name) for e in h.type.elts):
                names = [e.id for e in h.type.elts]
            else:
                raise Unsupported(f"except clause {dump(h)}")
            if h.name is not None:
                raise Unsupported("except ... as name")
            if any(nm in CATCHES_VALUEERROR for nm in names):
                if not (len(h.body) == 1 and _is_return_none(h.body[0])):
                    raise Unsupported(f"ValueError handler must be `return None`: {dump(h.body)}")
                handler = "PRet None"
                break
        kk = stmts(rest, ctx, k)
        return stmts(s.body, ctx.with_(handler=handler), kk)
    raise Unsupported(f"statement not supported: {dump(s)}")


def module_constant(mod: ast.Module, name: str) -> ast.AST:
    for node in mod.body:
        if isinstance(node, ast.Assign) and len(node.targets) == 1 and _is_name(node.targets[0], name):
            return node.value
    raise Unsupported(f"module constant {name} not found")


def class_constant(mod: ast.Module, cls: str, name: str) -> ast.AST:
    for node in ast.walk(mod):
        if isinstance(node, ast.ClassDef) and node.name == cls:
            for s in node.body:
                if isinstance(s, ast.Assign) and len(s.targets) == 1 and _is_name(s.targets[0], name):
                    return s.value
    raise Unsupported(f"{cls}.{name} not found")


def metadata_path_literal(mod: ast.Module) -> str:
    init = find_function(mod, "__init__", "MetadataManager")
    found = []
    for node in ast.walk(init):
        if (isinstance(node, ast.Assign) and len(node.targets) == 1 and isinstance(node.targets[0], ast.Attribute)
                and node.targets[0].attr == "metadata_path" and _is_name(node.targets[0].value, "self")):
            found.append(node.value)
    if len(found) != 1 or not (isinstance(found[0], ast.Constant) and isinstance(found[0].value, str)):
        raise Unsupported("self.metadata_path is not assigned one string literal in __init__")
    # and nowhere else in the class
    n_assign = 0
    for node in ast.walk(mod):
        if isinstance(node, (ast.Assign, ast.AugAssign, ast.AnnAssign)):
            targets = node.targets if isinstance(node, ast.Assign) else [node.target]
            for t in targets:
                if isinstance(t, ast.Attribute) and t.attr == "metadata_path":
                    n_assign += 1
    if n_assign != 1:
        raise Unsupported("metadata_path assigned in more than one place")
    return found[0].value


@generator("GenHint.v")
def gen_hint(src: str) -> str:
    mod = parse_module(src, "metadata_manager.py")

    re_call = module_constant(mod, "_METADATA_FILE_RE")
    if not (isinstance(re_call, ast.Call) and isinstance(re_call.func, ast.Attribute) and re_call.func.attr == "compile"
            and _is_name(re_call.func.value, "re") and len(re_call.args) == 1 and not re_call.keywords
            and isinstance(re_call.args[0], ast.Constant) and isinstance(re_call.args[0].value, str)):
        raise Unsupported(f"_METADATA_FILE_RE is not re.compile(<one string literal>): {dump(re_call)}")
    pattern = re_call.args[0].value

    hint_path = class_constant(mod, "MetadataManager", "HINT_PATH")
    if not (isinstance(hint_path, ast.Constant) and isinstance(hint_path.value, str)):
        raise Unsupported("HINT_PATH is not a string literal")
    mpath = metadata_path_literal(mod)

    fn = find_function(mod, "_parse_hint_content", "MetadataManager")
    if [a.arg for a in fn.args.args] != ["content"]:
        raise Unsupported("_parse_hint_content signature changed")
    if not any(_is_name(d, "staticmethod") for d in fn.decorator_list):
        raise Unsupported("_parse_hint_content is no longer a staticmethod")
    body = strip_docstring(fn.body)
    if not body or dump(body[0]) != DECODE_STMT:
        raise Unsupported(f"_parse_hint_content: first statement is not the pinned decode+strip: {dump(body[0]) if body else None}")
    term = stmts(body[1:], Ctx("PRaise", frozenset(), frozenset()), "PRet None")

    return f"""(* GENERATED by translator/gen_hint.py from src/datashard/metadata_manager.py -- do not edit *)
From Coq Require Import ZArith NArith List Bool.
Require Import DS.Model.HintPrim.
Import ListNotations.
Open Scope N_scope.

(* MetadataManager.HINT_PATH *)
Definition gen_hint_path : list N := {codes(hint_path.value)}.
(* self.metadata_path *)
Definition gen_metadata_path : list N := {codes(mpath)}.
(* pattern text of _METADATA_FILE_RE = re.compile(<pattern>)  (no flags) *)
Definition gen_metadata_file_re : list N := {codes(pattern)}.

(* _parse_hint_content.  decoded = None: content.decode("utf-8") raised UnicodeDecodeError. *)
Definition gen_parse_hint (decoded : option (list cp)) : pres :=
  match decoded with
  | None => PRet None
  | Some raw_ =>
    let text := strip raw_ in
    {term}
  end.
"""


@generator("GenHintPins.v")
def gen_hint_pins(src: str) -> str:
    """The golden-AST pins of the hand-modelled functions, in a file of their own: when a pinned function changes,
    this file fails closed (every proof in Proofs/HintStoreProofs.v and Props/C10.v stops checking), while
    GenHint.v and the Model/ files still compile -- so the correspondence harness can still run the OLD hand-written
    model against the CHANGED code and turn the difference into a concrete failing input."""
    mod = parse_module(src, "metadata_manager.py")
    for fn, want in GOLDEN.items():
        got = dump(strip_docstring(find_function(mod, fn, "MetadataManager").body))
        if sha(got) != want:
            raise Unsupported(f"{fn}: source shape changed (golden AST {want}, now {sha(got)}); the hand-written model in "
                              f"Model/Hint.v must be re-validated against it.\n  now: {got}")
    names = ", ".join(sorted(GOLDEN))
    return f"""(* GENERATED by translator/gen_hint.py -- do not edit.
   The bodies of {names} in src/datashard/metadata_manager.py have the AST shapes that Model/Hint.v models by hand. *)
Definition hint_pins_ok : True := I.
"""
