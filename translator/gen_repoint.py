"""GenRepoint.v -- snapshot_manager.repoint_parents_to_surviving_ancestors, translated.

The function's frame (dict comprehension `parent_of`, set comprehension `kept_ids`, the `for snapshot in
kept` loop that reads `snapshot.parent_snapshot_id`, starts with an empty `seen`, and finally stores
`parent` back) is pinned by a golden AST: it is what Model/Meta.v `repoint_all` models by hand (the
dict as an association list whose LAST binding wins, the per-survivor map).  The `while` loop -- the
graph walk the C15 theorems are about -- is translated statement by statement:

    guard     a conjunction of tests on `parent`              -> bool term
    body      if <test>: parent = None; break                 -> early exit with None
              seen.add(parent)                                -> new `seen`
              parent = parent_of.get(parent)                  -> new `parent`
    one loop iteration = one unfolding of the fuelled Fixpoint `gen_walk`; falling out of the loop
    returns `Some parent`; running out of fuel returns None (excluded by theorem C15_repoint_cycle for
    the fuel used by `gen_repoint_one`).

Anything else raises Unsupported (fail closed).
"""
from __future__ import annotations

import ast
import re
from typing import List, Tuple

from core import Unsupported, dump, find_function, generator, parse_module, strip_docstring

FRAME = (
    "[Assign([Name('parent_of', Store())], DictComp(Attribute(Name('s', Load()), 'snapshot_id', Load()), "
    "Attribute(Name('s', Load()), 'parent_snapshot_id', Load()), [comprehension(Name('s', Store()), Name('all_snapshots', Load()), [], 0)])), "
    "Assign([Name('kept_ids', Store())], SetComp(Attribute(Name('s', Load()), 'snapshot_id', Load()), "
    "[comprehension(Name('s', Store()), Name('kept', Load()), [], 0)])), "
    "For(Name('snapshot', Store()), Name('kept', Load()), ["
    "Assign([Name('parent', Store())], Attribute(Name('snapshot', Load()), 'parent_snapshot_id', Load())), "
    "AnnAssign(Name('seen', Store()), Subscript(Name('set', Load()), Name('int', Load()), Load()), Call(Name('set', Load()), [], []), 1), "
    "Pass(), "
    "Assign([Attribute(Name('snapshot', Load()), 'parent_snapshot_id', Store())], Name('parent', Load()))], [])]"
)


def _int_const(n: ast.AST) -> int:
    if isinstance(n, ast.Constant) and type(n.value) is int:
        return n.value
    if isinstance(n, ast.UnaryOp) and isinstance(n.op, ast.USub) and isinstance(n.operand, ast.Constant) and type(n.operand.value) is int:
        return -n.operand.value
    raise Unsupported(f"integer constant expected: {dump(n)}")


def test(n: ast.AST, parent: str, seen: str) -> str:
    """A boolean test over the loop variables, as a Gallina bool term."""
    if isinstance(n, ast.BoolOp) and isinstance(n.op, (ast.And, ast.Or)):
        op = "andb" if isinstance(n.op, ast.And) else "orb"
        parts = [test(v, parent, seen) for v in n.values]
        out = parts[-1]
        for p in reversed(parts[:-1]):
            out = f"({op} {p} {out})"
        return out
    if isinstance(n, ast.UnaryOp) and isinstance(n.op, ast.Not):
        return f"(negb {test(n.operand, parent, seen)})"
    if isinstance(n, ast.Compare) and len(n.ops) == 1 and isinstance(n.left, ast.Name) and n.left.id == "parent":
        op, rhs = n.ops[0], n.comparators[0]
        if isinstance(op, (ast.IsNot, ast.Is)) and isinstance(rhs, ast.Constant) and rhs.value is None:
            t = f"(py_is_not_none {parent})"
            return t if isinstance(op, ast.IsNot) else f"(negb {t})"
        if isinstance(op, (ast.NotEq, ast.Eq)):
            t = f"(py_ne_int {parent} ({_int_const(rhs)}))"
            return t if isinstance(op, ast.NotEq) else f"(negb {t})"
        if isinstance(op, (ast.In, ast.NotIn)) and isinstance(rhs, ast.Name):
            if rhs.id == "kept_ids":
                t = f"(py_in_ints {parent} kept_ids)"
            elif rhs.id == "seen":
                t = f"(py_in_seen {parent} {seen})"
            else:
                raise Unsupported(f"membership in {rhs.id}")
            return t if isinstance(op, ast.In) else f"(negb {t})"
    raise Unsupported(f"test not supported: {dump(n)}")


def loop_body(stmts: List[ast.stmt], parent: str, seen: str) -> str:
    """Symbolically execute one iteration; returns the Gallina term for the rest of the computation."""
    if not stmts:
        return f"(gen_walk fuel' parent_of kept_ids {seen} {parent})"
    s, rest = stmts[0], stmts[1:]
    if isinstance(s, ast.If) and not s.orelse:
        # if <test>: parent = None; break
        b = s.body
        if (len(b) == 2 and isinstance(b[0], ast.Assign) and len(b[0].targets) == 1 and isinstance(b[0].targets[0], ast.Name)
                and b[0].targets[0].id == "parent" and isinstance(b[0].value, ast.Constant) and b[0].value.value is None
                and isinstance(b[1], ast.Break)):
            return f"(if {test(s.test, parent, seen)} then Some None\n       else {loop_body(rest, parent, seen)})"
        if len(b) == 1 and isinstance(b[0], ast.Break):
            return f"(if {test(s.test, parent, seen)} then Some {parent}\n       else {loop_body(rest, parent, seen)})"
        raise Unsupported(f"if-body not supported: {dump(b)}")
    if (isinstance(s, ast.Expr) and isinstance(s.value, ast.Call) and isinstance(s.value.func, ast.Attribute)
            and s.value.func.attr == "add" and isinstance(s.value.func.value, ast.Name) and s.value.func.value.id == "seen"
            and len(s.value.args) == 1 and isinstance(s.value.args[0], ast.Name) and s.value.args[0].id == "parent" and not s.value.keywords):
        return loop_body(rest, parent, f"(py_seen_add {parent} {seen})")
    if (isinstance(s, ast.Assign) and len(s.targets) == 1 and isinstance(s.targets[0], ast.Name) and s.targets[0].id == "parent"):
        v = s.value
        if (isinstance(v, ast.Call) and isinstance(v.func, ast.Attribute) and v.func.attr == "get" and isinstance(v.func.value, ast.Name)
                and v.func.value.id == "parent_of" and len(v.args) == 1 and isinstance(v.args[0], ast.Name) and v.args[0].id == "parent" and not v.keywords):
            return loop_body(rest, f"(py_dict_get parent_of {parent})", seen)
        raise Unsupported(f"assignment to parent not supported: {dump(v)}")
    raise Unsupported(f"statement not supported in the walk: {dump(s)}")


@generator("GenRepoint.v")
def gen_repoint(src: str) -> str:
    mod = parse_module(src, "snapshot_manager.py")
    fn = find_function(mod, "repoint_parents_to_surviving_ancestors")
    args = [a.arg for a in fn.args.args]
    if args != ["all_snapshots", "kept"]:
        raise Unsupported(f"repoint_parents_to_surviving_ancestors signature changed: {args}")
    body = strip_docstring(fn.body)
    try:
        loop = body[2]
        assert isinstance(loop, ast.For)
        idx = next(i for i, s in enumerate(loop.body) if isinstance(s, ast.While))
        wh = loop.body[idx]
    except Exception:
        raise Unsupported("repoint: for/while frame not found")
    if wh.orelse:
        raise Unsupported("while ... else not supported")
    loop.body[idx] = ast.Pass()
    got = dump(body)
    loop.body[idx] = wh
    norm = lambda s: re.sub(r"\s+", "", s).replace(",)", ")")
    if norm(got) != norm(FRAME):
        raise Unsupported(f"repoint frame changed.\n expected {FRAME}\n got      {got}")
    guard = test(wh.test, "parent", "seen")
    step = loop_body(list(wh.body), "parent", "seen")
    return f"""(* GENERATED by translator/gen_repoint.py from
   src/datashard/snapshot_manager.py::repoint_parents_to_surviving_ancestors -- do not edit *)
From Coq Require Import ZArith List Bool.
Require Import DS.Model.MetaBase.
Import ListNotations.
Open Scope Z_scope.

(* One survivor's walk.  `fuel` bounds the number of loop iterations; None = fuel exhausted. *)
Fixpoint gen_walk (fuel : nat) (parent_of : list (Z * option Z)) (kept_ids : list Z)
                  (seen : list (option Z)) (parent : option Z) : option (option Z) :=
  match fuel with
  | O => None
  | S fuel' =>
      if {guard}
      then {step}
      else Some parent
  end.

(* `seen` starts empty; length parent_of + 2 iterations always suffice (theorem C15_repoint_cycle). *)
Definition gen_repoint_one (parent_of : list (Z * option Z)) (kept_ids : list Z) (parent : option Z) : option (option Z) :=
  gen_walk (S (S (length parent_of))) parent_of kept_ids [] parent.
"""
