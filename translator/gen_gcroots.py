"""GenGCRoots.v -- which manifest lists a collection opens, translated from GarbageCollector.collect.

collect() builds a set of manifest-list paths in a loop over `metadata.snapshots` and then opens every member of that
set; everything a retained snapshot needs is found from there.  Property C09 (with C05) needs that set to hold the list
of EVERY retained snapshot, whatever its parent link and operation label say: a snapshot committed by a transaction
that both deleted and appended files is labelled "append" although it dropped manifests of its parent, and
delete_snapshot repoints a survivor's parent past the removed snapshot, so neither field says anything about which
manifests a list shares with another one.

Translated (Python ast -> Gallina, fail closed):
  gc_roots_step table_path acc snapshot   the body of `for snapshot in metadata.snapshots:` as one fold step over the
                                          set (a duplicate-free list): assignments of string expressions (fields of the
                                          snapshot: manifest_list, operation), `if` on string conditions,
                                          `<the set>.add(<str>)` / `.add(self._normalize_path(<str>))`
  gc_list_roots table_path snapshots      fold_left of the step from the empty set
Checked, not translated: `metadata` is the result of self.metadata_manager.refresh(); the set starts empty; nothing
touches it between the loop that fills it and the loop that opens its members; the loop that opens the manifest lists
(the one whose try-block calls file_manager.read_manifest_list_file) iterates over exactly that set; the keep set of the
metadata sweep mentions it.  Anything else raises Unsupported: the roots of the collection are then no longer the
function this file describes and the theorems over it do not apply.
"""
from __future__ import annotations

import ast
from typing import List, Optional

from core import Unsupported, dump, find_function, generator, parse_module, strip_docstring
from gen_norm import Env, bexpr, sexpr

STR_FIELDS = {"manifest_list": "sr_manifest_list", "operation": "sr_operation"}


class _Fields(ast.NodeTransformer):
    """snapshot.<string field> -> a name bound in the environment; any other use of the loop variable is refused."""

    def __init__(self, var: str):
        self.var = var
        self.used: List[str] = []

    def visit_Attribute(self, node: ast.Attribute) -> ast.AST:
        if isinstance(node.value, ast.Name) and node.value.id == self.var:
            if node.attr not in STR_FIELDS:
                raise Unsupported(f"collect: the root selection reads snapshot.{node.attr} (only the string fields "
                                  f"{sorted(STR_FIELDS)} are translated)")
            return ast.copy_location(ast.Name(id=f"__{self.var}_{node.attr}", ctx=ast.Load()), node)
        return self.generic_visit(node)

    def visit_Name(self, node: ast.Name) -> ast.AST:
        if node.id == self.var:
            raise Unsupported("collect: the root selection uses the snapshot object other than through a string field")
        return node


def _is_logging(s: ast.stmt) -> bool:
    return (isinstance(s, ast.Expr) and isinstance(s.value, ast.Call) and isinstance(s.value.func, ast.Attribute)
            and isinstance(s.value.func.value, ast.Name) and s.value.func.value.id == "logger")


class _Body:
    def __init__(self, var: str):
        self.var = var
        self.set_name: Optional[str] = None

    def arg(self, n: ast.AST, env: Env) -> str:
        if (isinstance(n, ast.Call) and isinstance(n.func, ast.Attribute) and isinstance(n.func.value, ast.Name)
                and n.func.value.id == "self" and n.func.attr == "_normalize_path" and len(n.args) == 1 and not n.keywords):
            return f"(normalize_path table_path {sexpr(n.args[0], env)})"
        return sexpr(n, env)

    def stmts(self, body: List[ast.stmt], env: Env) -> str:
        """statement list -> the set after it (a term of type list string over `acc`)."""
        if not body:
            return "acc"
        s, rest = body[0], body[1:]
        if _is_logging(s) or isinstance(s, ast.Pass):
            return self.stmts(rest, env)
        if isinstance(s, ast.Assign) and len(s.targets) == 1 and isinstance(s.targets[0], ast.Name):
            name = s.targets[0].id
            if name in ("acc", "table_path", "snapshot") or name.startswith("__"):
                raise Unsupported(f"collect: assignment to reserved name {name}")
            return f"(let {name} := {sexpr(s.value, env)} in\n   {self.stmts(rest, env.bind(name))})"
        if isinstance(s, ast.If):
            c = bexpr(s.test, env)
            return (f"(let acc := (if {c}\n     then {self.stmts(s.body, env)}\n     else {self.stmts(s.orelse, env)}) in\n   "
                    f"{self.stmts(rest, env)})")
        if (isinstance(s, ast.Expr) and isinstance(s.value, ast.Call) and isinstance(s.value.func, ast.Attribute)
                and s.value.func.attr == "add" and isinstance(s.value.func.value, ast.Name) and len(s.value.args) == 1 and not s.value.keywords):
            tgt = s.value.func.value.id
            if self.set_name is None:
                self.set_name = tgt
            elif self.set_name != tgt:
                raise Unsupported(f"collect: the loop over metadata.snapshots fills two sets ({self.set_name}, {tgt})")
            return f"(let acc := set_add_str {self.arg(s.value.args[0], env)} acc in\n   {self.stmts(rest, env)})"
        raise Unsupported(f"collect: statement in the loop over metadata.snapshots not supported: {dump(s)}")


def _mentions(n: ast.AST, name: str) -> bool:
    return any(isinstance(x, ast.Name) and x.id == name for x in ast.walk(n))


def _calls(n: ast.AST, attr: str) -> bool:
    return any(isinstance(x, ast.Call) and isinstance(x.func, ast.Attribute) and x.func.attr == attr for x in ast.walk(n))


def roots_term(collect: ast.FunctionDef) -> str:
    body = strip_docstring(collect.body)
    # `metadata = self.metadata_manager.refresh()`
    md = [s for s in body if isinstance(s, ast.Assign) and len(s.targets) == 1 and isinstance(s.targets[0], ast.Name) and s.targets[0].id == "metadata"]
    if len(md) != 1 or dump(md[0].value) != "Call(Attribute(Attribute(Name('self', Load()), 'metadata_manager', Load()), 'refresh', Load()), [], [])":
        raise Unsupported("collect: `metadata = self.metadata_manager.refresh()` not found exactly once")
    loops = [i for i, s in enumerate(body) if isinstance(s, ast.For) and dump(s.iter) == "Attribute(Name('metadata', Load()), 'snapshots', Load())"]
    if len(loops) != 1:
        raise Unsupported(f"collect: expected exactly one top-level loop over metadata.snapshots, found {len(loops)}")
    if any(dump(x) == "Attribute(Name('metadata', Load()), 'snapshots', Load())" for i, s in enumerate(body) if i != loops[0] for x in ast.walk(s)):
        raise Unsupported("collect: metadata.snapshots is used outside the loop that selects the manifest lists")
    li = loops[0]
    loop = body[li]
    if not isinstance(loop.target, ast.Name) or loop.orelse:
        raise Unsupported("collect: shape of the loop over metadata.snapshots changed")
    var = loop.target.id
    tr = _Fields(var)
    stmts_ = [tr.visit(s) for s in loop.body]
    env = Env({f"__{var}_{f}": f"({c} snapshot)" for f, c in STR_FIELDS.items()})
    b = _Body(var)
    term = b.stmts(stmts_, env)
    if b.set_name is None:
        raise Unsupported("collect: the loop over metadata.snapshots adds nothing to a set")
    roots = b.set_name
    # the set starts empty, before the loop, and is assigned nowhere else
    inits = [(i, s) for i, s in enumerate(body)
             if (isinstance(s, ast.AnnAssign) and isinstance(s.target, ast.Name) and s.target.id == roots)
             or (isinstance(s, ast.Assign) and any(isinstance(t, ast.Name) and t.id == roots for t in s.targets))]
    if len(inits) != 1 or inits[0][0] >= li or inits[0][1].value is None or dump(inits[0][1].value) != "Call(Name('set', Load()), [], [])":
        raise Unsupported(f"collect: `{roots}` is not initialised exactly once, to set(), before the loop over metadata.snapshots")
    # the loop that opens manifest lists: the top-level For whose body calls read_manifest_list_file
    readers = [i for i, s in enumerate(body) if isinstance(s, ast.For) and _calls(s, "read_manifest_list_file")]
    if len(readers) != 1 or readers[0] <= li:
        raise Unsupported("collect: expected exactly one loop calling read_manifest_list_file, after the loop over metadata.snapshots")
    ri = readers[0]
    rd = body[ri]
    if not (isinstance(rd.iter, ast.Name) and rd.iter.id == roots):
        raise Unsupported(f"collect: the manifest lists that are opened are `{dump(rd.iter)}`, not the set `{roots}` built from "
                          f"metadata.snapshots: the collection no longer reads every retained snapshot's list")
    if _calls(ast.Module(body=[s for i, s in enumerate(body) if i != ri], type_ignores=[]), "read_manifest_list_file"):
        raise Unsupported("collect: read_manifest_list_file is called outside the loop over the root set")
    # nothing touches the set between the two loops; afterwards it is only read
    for s in body[li + 1:ri]:
        if not _is_logging(s) and _mentions(s, roots):
            raise Unsupported(f"collect: `{roots}` is used between the loop that fills it and the loop that opens its members: {dump(s)}")
    for s in body[ri:]:
        for x in ast.walk(s):
            if (isinstance(x, ast.Call) and isinstance(x.func, ast.Attribute) and isinstance(x.func.value, ast.Name) and x.func.value.id == roots
                    and x.func.attr not in ("union", "__len__", "copy")):
                raise Unsupported(f"collect: `{roots}.{x.func.attr}(...)` after the roots were selected")
            if isinstance(x, (ast.Assign, ast.AugAssign, ast.AnnAssign)):
                tgts = x.targets if isinstance(x, ast.Assign) else [x.target]
                if any(isinstance(t, ast.Name) and t.id == roots for t in tgts):
                    raise Unsupported(f"collect: `{roots}` is re-assigned after the roots were selected")
    # the metadata sweep keeps the lists themselves: its keep set is built from the same set
    keeps = [s for s in body[ri:] if isinstance(s, ast.Assign) and _mentions(s.value, roots)]
    if not keeps:
        raise Unsupported(f"collect: `{roots}` no longer flows into the keep set of the metadata sweep")
    return term


@generator("GenGCRoots.v")
def gen_gcroots(src: str) -> str:
    gc = parse_module(src, "garbage_collector.py")
    collect = find_function(gc, "collect", cls="GarbageCollector")
    term = roots_term(collect)
    return f"""(* GENERATED by translator/gen_gcroots.py from src/datashard/garbage_collector.py -- do not edit *)
From Coq Require Import ZArith List String Ascii Bool.
Require Import DS.Model.PyStr DS.Model.SnapRec DS.Gen.GenNorm.
Import ListNotations.
Open Scope string_scope.

(* GarbageCollector.collect: the body of `for snapshot in metadata.snapshots:` as one step over the set of manifest lists
   that the collection then opens (acc = the set so far) *)
Definition gc_roots_step (table_path : string) (acc : list string) (snapshot : snaprec) : list string :=
  {term}.

Definition gc_list_roots (table_path : string) (snapshots : list snaprec) : list string :=
  fold_left (gc_roots_step table_path) snapshots [].
"""
