"""GenLockConst.v -- constants of the two lock implementations, regenerated from the source, and golden
pins of the functions that coq/Model/FLock.v and coq/Model/Lock.v model by hand.

Extracted (milliseconds, Z):
    poll_ms               FileLock._POLL_INTERVAL
    default_lease_ms      S3LockProviderBase.__init__(lease_seconds=...)
    default_timeout_ms    S3LockProviderBase.__init__(timeout=...)
    jitter_min_ms/max_ms  acquire(): time.sleep(random.uniform(a, b))
    held_attempts         is_held(): for attempt in range(N)
    held_retry_sleep_ms   is_held(): time.sleep(x) between the attempts
    heartbeat_divisor     _heartbeat_loop(): interval = lease_seconds / d
Pinned (normalised AST: docstrings and logger calls removed): FileLock.is_held / acquire /
_try_acquire_once / release; S3LockProviderBase.acquire / is_held / release / _heartbeat_loop;
S3LockProvider._try_acquire / _try_takeover_expired / _renew_once.  If one of them changes shape the
generator fails closed: the hand-written model must be re-validated against the new code and the pin
updated (translator/gen_lockconst.py PINS).
"""
from __future__ import annotations

import ast
import hashlib
from typing import Any, Dict, List

from core import Unsupported, find_function, generator, parse_module

PINS: Dict[str, str] = {
    # normalised-AST hashes of the tree the models were written against (see _pin)
    "FileLock.is_held": "d726f13db388c844",
    "FileLock.acquire": "94e4aa5ebe154e24",
    "FileLock._try_acquire_once": "d5a7a1d812bfe33c",
    "FileLock.release": "1245a023ef6b4776",
    "S3LockProviderBase.acquire": "194b927098578b5e",
    "S3LockProviderBase.is_held": "235a26a7aeafcede",
    "S3LockProviderBase.release": "3d3582b1ea4a529c",
    "S3LockProviderBase._heartbeat_loop": "6195a58101c61a47",
    "S3LockProvider._try_acquire": "975eede17fa8a00d",
    "S3LockProvider._try_takeover_expired": "a547931c67ad2c54",
    "S3LockProvider._renew_once": "3cebf29eff6c7818",
}


def _ms(x: Any, what: str) -> int:
    if not isinstance(x, (int, float)) or isinstance(x, bool):
        raise Unsupported(f"{what}: not a number: {x!r}")
    v = x * 1000
    if abs(v - round(v)) > 1e-9:
        raise Unsupported(f"{what}: {x!r} s is not a whole number of milliseconds")
    return int(round(v))


class _Strip(ast.NodeTransformer):
    """Remove docstrings and logger.* expression statements (they do not affect behaviour)."""

    def _clean(self, body: List[ast.stmt]) -> List[ast.stmt]:
        out = []
        for i, st in enumerate(body):
            if isinstance(st, ast.Expr):
                v = st.value
                if isinstance(v, ast.Constant) and isinstance(v.value, str):
                    continue
                if (isinstance(v, ast.Call) and isinstance(v.func, ast.Attribute)
                        and isinstance(v.func.value, ast.Name) and v.func.value.id == "logger"):
                    continue
            out.append(st)
        return out or [ast.Pass()]

    def generic_visit(self, node: ast.AST) -> ast.AST:
        super().generic_visit(node)
        for field in ("body", "orelse", "finalbody"):
            b = getattr(node, field, None)
            if isinstance(b, list) and b and isinstance(b[0], ast.stmt):
                setattr(node, field, self._clean(b))
        return node


def _pin(fn: ast.FunctionDef) -> str:
    tree = _Strip().visit(ast.parse(ast.unparse(fn)))
    return hashlib.sha256(ast.unparse(tree).encode()).hexdigest()[:16]


def _const_assign(cls: ast.ClassDef, name: str) -> Any:
    for st in cls.body:
        if isinstance(st, ast.Assign) and len(st.targets) == 1 and isinstance(st.targets[0], ast.Name) \
                and st.targets[0].id == name and isinstance(st.value, ast.Constant):
            return st.value.value
    raise Unsupported(f"{cls.name}.{name}: constant assignment not found")


def _class(mod: ast.Module, name: str) -> ast.ClassDef:
    for n in mod.body:
        if isinstance(n, ast.ClassDef) and n.name == name:
            return n
    raise Unsupported(f"class {name} not found")


def _default(fn: ast.FunctionDef, arg: str) -> Any:
    args = fn.args.args
    defaults = fn.args.defaults
    off = len(args) - len(defaults)
    for i, a in enumerate(args):
        if a.arg == arg and i >= off and isinstance(defaults[i - off], ast.Constant):
            return defaults[i - off].value
    raise Unsupported(f"{fn.name}: default of {arg} not found")


def _calls(fn: ast.FunctionDef, pred) -> List[ast.Call]:
    return [n for n in ast.walk(fn) if isinstance(n, ast.Call) and pred(n)]


def _is_attr_call(n: ast.Call, mod: str, name: str) -> bool:
    return isinstance(n.func, ast.Attribute) and n.func.attr == name and isinstance(n.func.value, ast.Name) and n.func.value.id == mod


@generator("GenLockConst.v")
def gen(src_dir: str) -> str:
    fl = parse_module(src_dir, "file_lock.py")
    lp = parse_module(src_dir, "lock_provider.py")
    flc = _class(fl, "FileLock")
    base = _class(lp, "S3LockProviderBase")
    cas = _class(lp, "S3LockProvider")

    poll = _ms(_const_assign(flc, "_POLL_INTERVAL"), "FileLock._POLL_INTERVAL")
    if poll <= 0:
        raise Unsupported("FileLock._POLL_INTERVAL must be positive")
    init = find_function(base, "__init__")
    lease = _ms(_default(init, "lease_seconds"), "lease_seconds default")
    tmo = _ms(_default(init, "timeout"), "timeout default")

    acq = find_function(base, "acquire")
    uni = _calls(acq, lambda n: _is_attr_call(n, "random", "uniform"))
    if len(uni) != 1 or len(uni[0].args) != 2 or not all(isinstance(a, ast.Constant) for a in uni[0].args):
        raise Unsupported("acquire(): expected exactly one random.uniform(a, b) with constant bounds")
    jmin, jmax = _ms(uni[0].args[0].value, "jitter min"), _ms(uni[0].args[1].value, "jitter max")

    held = find_function(base, "is_held")
    rng = _calls(held, lambda n: isinstance(n.func, ast.Name) and n.func.id == "range")
    if len(rng) != 1 or len(rng[0].args) != 1 or not isinstance(rng[0].args[0], ast.Constant):
        raise Unsupported("is_held(): expected `for attempt in range(N)`")
    attempts = int(rng[0].args[0].value)
    if attempts != 2:
        raise Unsupported(f"is_held(): the model has exactly two attempts, the code has {attempts}")
    sl = _calls(held, lambda n: _is_attr_call(n, "time", "sleep"))
    if len(sl) != 1 or not isinstance(sl[0].args[0], ast.Constant):
        raise Unsupported("is_held(): expected one time.sleep(constant)")
    rsleep = _ms(sl[0].args[0].value, "is_held retry sleep")

    hbl = find_function(base, "_heartbeat_loop")
    div = None
    for n in ast.walk(hbl):
        if isinstance(n, ast.BinOp) and isinstance(n.op, ast.Div) and isinstance(n.right, ast.Constant) \
                and isinstance(n.left, ast.Attribute) and n.left.attr == "lease_seconds":
            div = n.right.value
    if div is None or float(div) != int(div) or div <= 1:
        raise Unsupported("_heartbeat_loop(): interval = lease_seconds / d not found")

    # CAS conflict codes handled as "not ours": all three sites must treat 412/PreconditionFailed as a refusal
    for fname in ("_try_acquire", "_try_takeover_expired", "_renew_once"):
        fn = find_function(cas, fname)
        tuples = [n for n in ast.walk(fn) if isinstance(n, ast.Tuple) and n.elts and all(isinstance(e, ast.Constant) and isinstance(e.value, str) for e in n.elts)]
        codes = set()
        for t in tuples:
            codes |= {e.value for e in t.elts}
        if not {"PreconditionFailed", "412"} <= codes:
            raise Unsupported(f"{fname}: PreconditionFailed/412 no longer classified as a refused conditional write")

    pins = {
        "FileLock.is_held": _pin(find_function(flc, "is_held")),
        "FileLock.acquire": _pin(find_function(flc, "acquire")),
        "FileLock._try_acquire_once": _pin(find_function(flc, "_try_acquire_once")),
        "FileLock.release": _pin(find_function(flc, "release")),
        "S3LockProviderBase.acquire": _pin(acq),
        "S3LockProviderBase.is_held": _pin(held),
        "S3LockProviderBase.release": _pin(find_function(base, "release")),
        "S3LockProviderBase._heartbeat_loop": _pin(hbl),
        "S3LockProvider._try_acquire": _pin(find_function(cas, "_try_acquire")),
        "S3LockProvider._try_takeover_expired": _pin(find_function(cas, "_try_takeover_expired")),
        "S3LockProvider._renew_once": _pin(find_function(cas, "_renew_once")),
    }
    for k, v in pins.items():
        want = PINS.get(k)
        if want is None:
            raise Unsupported(f"no golden pin recorded for {k} (current {v})")
        if want != v:
            raise Unsupported(f"{k}: source shape changed (pin {want}, now {v}); re-validate coq/Model against the new code")

    lines = [
        "(* GENERATED by translator/gen_lockconst.py from file_lock.py and lock_provider.py -- do not edit *)",
        "From Coq Require Import ZArith.",
        "Open Scope Z_scope.",
        f"Definition poll_ms : Z := {poll}.",
        f"Definition default_lease_ms : Z := {lease}.",
        f"Definition default_timeout_ms : Z := {tmo}.",
        f"Definition jitter_min_ms : Z := {jmin}.",
        f"Definition jitter_max_ms : Z := {jmax}.",
        f"Definition held_retry_sleep_ms : Z := {rsleep}.",
        f"Definition heartbeat_divisor : Z := {int(div)}.",
        "(* golden pins of the hand-modelled functions: " + ", ".join(f"{k}={v}" for k, v in pins.items()) + " *)",
        "",
    ]
    return "\n".join(lines)
