"""GenFilterConst.v / GenFilter.v -- the filter front end of filters.py, translated.

GenFilterConst.v (literal tables):
    op_table              the `mapping` dict of _parse_op            : list (string * fop)
    between_key           the string compared with op_str_lower      : string
    is_null_aliases       the tuple tested for IS_NULL               : list string
    is_not_null_aliases   the tuple tested for IS_NOT_NULL           : list string
  Everything else in _parse_op and parse_filter_dict (lower-casing of str keys, mapping.get, the
  ValueError for an unknown key, the order of the between / is_null / is_not_null / _parse_op tests,
  the 2-tuple test, the `condition is None` rejection, the three argument guards -- `between` takes a list / tuple,
  the flag of is_null / is_not_null `is True`, an in / not_in value set is no str / bytes / bytearray --, which
  FilterExpression is appended) is pinned
  by a golden AST; Model/Filter.v `parse` is the hand-written rendering of exactly that skeleton.

GenFilter.v (the compute expression):
    gen_condition PA op field arg : res cexpr
        for each FilterOp key of `op_handlers` in _build_condition, the handler's expression
        (lambdas, and the nested functions _in_condition / _not_in_condition statement by statement:
        the `[v for v in expr.value if v is not None]` comprehension, the `if not values:` branch,
        `&`, `~`, pc.is_in(field, value_set=pa.array(values)), .is_valid(), .is_null(), pc.scalar);
        an operator without handler is `Err EBuild` (the code raises ValueError).
    gen_combine combined condition : cexpr
        the right-hand side of `combined = combined & condition` in to_pyarrow_compute_expression;
    gen_fold : list cexpr -> option cexpr
        the loop of to_pyarrow_compute_expression (None for no expressions), skeleton pinned.

Fail closed: any other statement / expression shape raises Unsupported.
"""
from __future__ import annotations

import ast
import copy
import re
from typing import Dict, List

from core import Unsupported, coq_str, dump, find_function, generator, parse_module, strip_docstring

FOPS = ["EQ", "NE", "LT", "LE", "GT", "GE", "IN", "NOT_IN", "IS_NULL", "IS_NOT_NULL"]
CMPOPS = {ast.Eq: "CEq", ast.NotEq: "CNe", ast.Lt: "CLt", ast.LtE: "CLe", ast.Gt: "CGt", ast.GtE: "CGe"}


def _norm(s: str) -> str:
    return re.sub(r"\s+", "", s).replace(",)", ")")


def _expect(got_nodes, golden: str, what: str) -> None:
    got = dump(got_nodes)
    if _norm(got) != _norm(golden):
        raise Unsupported(f"{what}: source shape changed.\n expected {golden}\n got      {got}")


def _filterop(n: ast.AST) -> str:
    if isinstance(n, ast.Attribute) and isinstance(n.value, ast.Name) and n.value.id == "FilterOp" and n.attr in FOPS:
        return n.attr
    raise Unsupported(f"not a FilterOp member: {dump(n)}")


def _is_expr_value(n: ast.AST) -> bool:
    return isinstance(n, ast.Attribute) and n.attr == "value" and isinstance(n.value, ast.Name) and n.value.id == "expr"


# ------------------------------------------------------------------------------------------ constants
PARSE_OP_SKELETON = (
    "[Assign([Name('mapping', Store())], Constant('MAPPING')), "
    "Assign([Name('key', Store())], IfExp(Call(Name('isinstance', Load()), [Name('op_str', Load()), Name('str', Load())], []), "
    "Call(Attribute(Name('op_str', Load()), 'lower', Load()), [], []), Name('op_str', Load()))), "
    "Assign([Name('op', Store())], Call(Attribute(Name('mapping', Load()), 'get', Load()), [Name('key', Load())], [])), "
    "If(Compare(Name('op', Load()), [Is()], [Constant(None)]), [Raise(Call(Name('ValueError', Load()), [Constant('MSG')], []))], []), "
    "Return(Name('op', Load()))]"
)

PARSE_DICT_SKELETON = (
    "[Assign([Name('expressions', Store())], List([], Load())), "
    "For(Tuple([Name('column', Store()), Name('condition', Store())], Store()), Call(Attribute(Name('filter_dict', Load()), 'items', Load()), [], []), ["
    "If(BoolOp(And(), [Call(Name('isinstance', Load()), [Name('condition', Load()), Name('tuple', Load())], []), "
    "Compare(Call(Name('len', Load()), [Name('condition', Load())], []), [Eq()], [Constant(2)])]), ["
    "Assign([Tuple([Name('op_str', Store()), Name('value', Store())], Store())], Name('condition', Load())), "
    "Assign([Name('op_str_lower', Store())], IfExp(Call(Name('isinstance', Load()), [Name('op_str', Load()), Name('str', Load())], []), "
    "Call(Attribute(Name('op_str', Load()), 'lower', Load()), [], []), Name('op_str', Load()))), "
    "If(Compare(Name('op_str_lower', Load()), [Eq()], [Constant('BETWEEN')]), ["
    # a between argument that is neither a list nor a tuple (a str would be unpacked into its characters) is refused
    "If(UnaryOp(Not(), Call(Name('isinstance', Load()), [Name('value', Load()), Tuple([Name('list', Load()), Name('tuple', Load())], Load())], [])), "
    "[Raise(Call(Name('ValueError', Load()), [Constant('MSG')], []))], []), "
    "Assign([Tuple([Name('lo', Store()), Name('hi', Store())], Store())], Name('value', Load())), "
    "Expr(Call(Attribute(Name('expressions', Load()), 'append', Load()), [Call(Name('FilterExpression', Load()), [Name('column', Load()), Attribute(Name('FilterOp', Load()), 'GE', Load()), Name('lo', Load())], [])], [])), "
    "Expr(Call(Attribute(Name('expressions', Load()), 'append', Load()), [Call(Name('FilterExpression', Load()), [Name('column', Load()), Attribute(Name('FilterOp', Load()), 'LE', Load()), Name('hi', Load())], [])], []))], "
    "[If(Compare(Name('op_str_lower', Load()), [In()], [Constant('IS_NULL_ALIASES')]), ["
    # the flag of is_null / is_not_null must be True
    "If(Compare(Name('value', Load()), [IsNot()], [Constant(True)]), [Raise(Call(Name('ValueError', Load()), [Constant('MSG')], []))], []), "
    "Expr(Call(Attribute(Name('expressions', Load()), 'append', Load()), [Call(Name('FilterExpression', Load()), [Name('column', Load()), Attribute(Name('FilterOp', Load()), 'IS_NULL', Load()), Constant(None)], [])], []))], "
    "[If(Compare(Name('op_str_lower', Load()), [In()], [Constant('IS_NOT_NULL_ALIASES')]), ["
    "If(Compare(Name('value', Load()), [IsNot()], [Constant(True)]), [Raise(Call(Name('ValueError', Load()), [Constant('MSG')], []))], []), "
    "Expr(Call(Attribute(Name('expressions', Load()), 'append', Load()), [Call(Name('FilterExpression', Load()), [Name('column', Load()), Attribute(Name('FilterOp', Load()), 'IS_NOT_NULL', Load()), Constant(None)], [])], []))], "
    "[Assign([Name('op', Store())], Call(Name('_parse_op', Load()), [Name('op_str', Load())], [])), "
    # a str / bytes / bytearray as in / not_in value set (it would be iterated character by character) is refused
    "If(BoolOp(And(), [Compare(Name('op', Load()), [In()], [Tuple([Attribute(Name('FilterOp', Load()), 'IN', Load()), Attribute(Name('FilterOp', Load()), 'NOT_IN', Load())], Load())]), "
    "Call(Name('isinstance', Load()), [Name('value', Load()), Tuple([Name('str', Load()), Name('bytes', Load()), Name('bytearray', Load())], Load())], [])]), "
    "[Raise(Call(Name('ValueError', Load()), [Constant('MSG')], []))], []), "
    # an in / not_in value set is MATERIALISED once (a one-shot iterable would be empty for the second reader, file
    # pruning); a Mapping (iterating it yields its keys) is refused; list(scalar) raises TypeError
    "If(Compare(Name('op', Load()), [In()], [Tuple([Attribute(Name('FilterOp', Load()), 'IN', Load()), Attribute(Name('FilterOp', Load()), 'NOT_IN', Load())], Load())]), "
    "[If(Call(Name('isinstance', Load()), [Name('value', Load()), Name('Mapping', Load())], []), [Raise(Call(Name('ValueError', Load()), [Constant('MSG')], []))], []), "
    "Assign([Name('value', Store())], Call(Name('list', Load()), [Name('value', Load())], []))], []), "
    "Expr(Call(Attribute(Name('expressions', Load()), 'append', Load()), [Call(Name('FilterExpression', Load()), [Name('column', Load()), Name('op', Load()), Name('value', Load())], [])], []))])])])], "
    "[If(Compare(Name('condition', Load()), [Is()], [Constant(None)]), [Raise(Call(Name('ValueError', Load()), [Constant('MSG')], []))], "
    "[Expr(Call(Attribute(Name('expressions', Load()), 'append', Load()), [Call(Name('FilterExpression', Load()), [Name('column', Load()), Attribute(Name('FilterOp', Load()), 'EQ', Load()), Name('condition', Load())], [])], []))])])], []), "
    "Return(Name('expressions', Load()))]"
)


class _Blank(ast.NodeTransformer):
    """Replace exception messages (f-strings) by a fixed constant."""

    def visit_JoinedStr(self, node):  # noqa: N802
        return ast.Constant("MSG")


def _str_tuple(n: ast.AST, what: str) -> List[str]:
    if not isinstance(n, ast.Tuple) or not n.elts or not all(isinstance(e, ast.Constant) and isinstance(e.value, str) for e in n.elts):
        raise Unsupported(f"{what}: expected a tuple of string constants, got {dump(n)}")
    return [e.value for e in n.elts]


def _check_key(s: str, what: str) -> str:
    if s != s.lower():
        # the code compares these literals with a LOWER-CASED key: an upper-case literal can never match
        raise Unsupported(f"{what}: literal {s!r} is not lower-case")
    return coq_str(s)


@generator("GenFilterConst.v")
def gen_filter_const(src: str) -> str:
    mod = parse_module(src, "filters.py")
    # ---- _parse_op
    fn = find_function(mod, "_parse_op")
    if [a.arg for a in fn.args.args] != ["op_str"]:
        raise Unsupported("_parse_op signature changed")
    body = copy.deepcopy(strip_docstring(fn.body))
    if not body or not isinstance(body[0], ast.Assign) or not isinstance(body[0].value, ast.Dict):
        raise Unsupported("_parse_op: `mapping = {...}` not found")
    d = body[0].value
    table: Dict[str, str] = {}
    order: List[str] = []
    for k, v in zip(d.keys, d.values):
        if not isinstance(k, ast.Constant) or not isinstance(k.value, str):
            raise Unsupported(f"_parse_op mapping key is not a string constant: {dump(k)}")
        if k.value not in table:
            order.append(k.value)
        table[k.value] = _filterop(v)          # dict semantics: a later duplicate key wins
    body[0].value = ast.Constant("MAPPING")
    body = [_Blank().visit(s) for s in body]
    _expect(body, PARSE_OP_SKELETON, "_parse_op")
    # ---- parse_filter_dict
    fn = find_function(mod, "parse_filter_dict")
    if [a.arg for a in fn.args.args] != ["filter_dict"]:
        raise Unsupported("parse_filter_dict signature changed")
    body = copy.deepcopy(strip_docstring(fn.body))
    try:
        if_tuple = body[1].body[0]
        if_between = if_tuple.body[2]
        if_null = if_between.orelse[0]
        if_notnull = if_null.orelse[0]
        between = if_between.test.comparators[0]
        nulls = if_null.test.comparators[0]
        notnulls = if_notnull.test.comparators[0]
    except Exception:
        raise Unsupported("parse_filter_dict: between / is_null / is_not_null tests not found")
    if not isinstance(between, ast.Constant) or not isinstance(between.value, str):
        raise Unsupported(f"parse_filter_dict: between key is {dump(between)}")
    between_s = between.value
    null_s = _str_tuple(nulls, "is_null aliases")
    notnull_s = _str_tuple(notnulls, "is_not_null aliases")
    if_between.test.comparators[0] = ast.Constant("BETWEEN")
    if_null.test.comparators[0] = ast.Constant("IS_NULL_ALIASES")
    if_notnull.test.comparators[0] = ast.Constant("IS_NOT_NULL_ALIASES")
    body = [_Blank().visit(s) for s in body]
    _expect(body, PARSE_DICT_SKELETON, "parse_filter_dict")

    rows = ";\n   ".join(f"({_check_key(k, 'mapping key')}, {table[k]})" for k in order)
    return f"""(* GENERATED by translator/gen_filter.py from src/datashard/filters.py::_parse_op, parse_filter_dict -- do not edit *)
From Coq Require Import List String.
Require Import DS.Model.Value.
Import ListNotations.
Local Open Scope string_scope.

(* `mapping` of _parse_op (keys are compared with the lower-cased operator string) *)
Definition op_table : list (string * fop) :=
  [{rows}].

(* parse_filter_dict: op_str_lower == ... / op_str_lower in (...) *)
Definition between_key : string := {_check_key(between_s, 'between key')}.
Definition is_null_aliases : list string := [{"; ".join(_check_key(s, 'is_null alias') for s in null_s)}].
Definition is_not_null_aliases : list string := [{"; ".join(_check_key(s, 'is_not_null alias') for s in notnull_s)}].
"""


# ------------------------------------------------------------------------------------------ expressions
def _call_is(n: ast.AST, obj: str, attr: str) -> bool:
    return (isinstance(n, ast.Call) and isinstance(n.func, ast.Attribute) and n.func.attr == attr
            and isinstance(n.func.value, ast.Name) and n.func.value.id == obj)


def ex(n: ast.AST, lists: set) -> str:
    """An expression-building Python expression -> Gallina term of type `res cexpr`."""
    if isinstance(n, ast.Compare) and len(n.ops) == 1 and type(n.ops[0]) in CMPOPS:
        if isinstance(n.left, ast.Name) and n.left.id == "field" and _is_expr_value(n.comparators[0]):
            return f"(mk_cmp PA {CMPOPS[type(n.ops[0])]} field arg)"
        raise Unsupported(f"comparison operands: {dump(n)}")
    if isinstance(n, ast.BinOp) and isinstance(n.op, ast.BitAnd):
        return f"(r_and {ex(n.left, lists)} {ex(n.right, lists)})"
    if isinstance(n, ast.UnaryOp) and isinstance(n.op, ast.Invert):
        return f"(r_not {ex(n.operand, lists)})"
    if _call_is(n, "field", "is_valid") and not n.args and not n.keywords:
        return "(Ok (IsValid field))"
    if _call_is(n, "field", "is_null") and not n.args and not n.keywords:
        return "(Ok (IsNull field))"
    if _call_is(n, "pc", "scalar") and len(n.args) == 1 and not n.keywords:
        a = n.args[0]
        if isinstance(a, ast.Constant) and isinstance(a.value, bool):
            return f"(Ok (Scalar {'true' if a.value else 'false'}))"
        raise Unsupported(f"pc.scalar argument: {dump(a)}")
    if _call_is(n, "pc", "is_in"):
        if (len(n.args) == 1 and isinstance(n.args[0], ast.Name) and n.args[0].id == "field"
                and len(n.keywords) == 1 and n.keywords[0].arg == "value_set"):
            vs = n.keywords[0].value
            if (_call_is(vs, "pa", "array") and len(vs.args) == 1 and not vs.keywords
                    and isinstance(vs.args[0], ast.Name) and vs.args[0].id in lists):
                return f"(mk_is_in PA field {vs.args[0].id})"
        raise Unsupported(f"pc.is_in call shape: {dump(n)}")
    raise Unsupported(f"expression not supported: {dump(n)}")


def pure(n: ast.AST, names: set) -> str:
    """A combination of already-built expressions -> Gallina term of type `cexpr`."""
    if isinstance(n, ast.Name) and n.id in names:
        return n.id
    if isinstance(n, ast.BinOp) and isinstance(n.op, ast.BitAnd):
        return f"(And {pure(n.left, names)} {pure(n.right, names)})"
    if isinstance(n, ast.UnaryOp) and isinstance(n.op, ast.Invert):
        return f"(Not {pure(n.operand, names)})"
    raise Unsupported(f"combination not supported: {dump(n)}")


def body_term(stmts: List[ast.stmt], lists: set) -> str:
    if not stmts:
        raise Unsupported("handler falls off the end (returns None)")
    s, rest = stmts[0], stmts[1:]
    if isinstance(s, ast.Return):
        if s.value is None:
            raise Unsupported("bare return in handler")
        return ex(s.value, lists)
    if isinstance(s, ast.Assign) and len(s.targets) == 1 and isinstance(s.targets[0], ast.Name) and isinstance(s.value, ast.ListComp):
        name = s.targets[0].id
        if name in ("field", "arg", "PA", "op", "xs_"):
            raise Unsupported(f"assignment to reserved name {name}")
        lc = s.value
        if len(lc.generators) != 1:
            raise Unsupported("list comprehension with several clauses")
        g = lc.generators[0]
        if not (isinstance(g.target, ast.Name) and isinstance(lc.elt, ast.Name) and lc.elt.id == g.target.id
                and _is_expr_value(g.iter) and not g.is_async):
            raise Unsupported(f"list comprehension shape: {dump(lc)}")
        v = g.target.id
        if not g.ifs:
            keep = "xs_"
        elif (len(g.ifs) == 1 and isinstance(g.ifs[0], ast.Compare) and isinstance(g.ifs[0].left, ast.Name)
              and g.ifs[0].left.id == v and len(g.ifs[0].ops) == 1 and isinstance(g.ifs[0].ops[0], ast.IsNot)
              and isinstance(g.ifs[0].comparators[0], ast.Constant) and g.ifs[0].comparators[0].value is None):
            keep = "(not_none xs_)"
        else:
            raise Unsupported(f"list comprehension condition: {dump(g.ifs)}")
        return f"(bind (iter_arg arg) (fun xs_ => let {name} := {keep} in {body_term(rest, lists | {name})}))"
    if isinstance(s, ast.If):
        t = s.test
        if isinstance(t, ast.UnaryOp) and isinstance(t.op, ast.Not) and isinstance(t.operand, ast.Name) and t.operand.id in lists:
            return (f"(if is_empty_list {t.operand.id} then {body_term(s.body + rest, lists)} "
                    f"else {body_term(s.orelse + rest, lists)})")
        if isinstance(t, ast.Name) and t.id in lists:
            return (f"(if is_empty_list {t.id} then {body_term(s.orelse + rest, lists)} "
                    f"else {body_term(s.body + rest, lists)})")
        raise Unsupported(f"if-test not supported: {dump(t)}")
    raise Unsupported(f"statement not supported in handler: {dump(s)}")


BUILD_TAIL = (
    "[Assign([Name('handler', Store())], Call(Attribute(Name('op_handlers', Load()), 'get', Load()), [Attribute(Name('expr', Load()), 'op', Load())], [])), "
    "If(Compare(Name('handler', Load()), [Is()], [Constant(None)]), [Raise(Call(Name('ValueError', Load()), [Constant('MSG')], []))], []), "
    "Return(Call(Name('handler', Load()), [], []))]"
)

FOLD_SKELETON = (
    "[If(UnaryOp(Not(), Name('expressions', Load())), [Return(Constant(None))], []), "
    "AnnAssign(Name('combined', Store()), Subscript(Name('Optional', Load()), Attribute(Name('pc', Load()), 'Expression', Load()), Load()), Constant(None), 1), "
    "For(Name('expr', Store()), Name('expressions', Load()), ["
    "Assign([Name('field', Store())], Call(Attribute(Name('pc', Load()), 'field', Load()), [Attribute(Name('expr', Load()), 'column', Load())], [])), "
    "Assign([Name('condition', Store())], Call(Name('_build_condition', Load()), [Name('expr', Load()), Name('field', Load())], [])), "
    "If(Compare(Name('combined', Load()), [Is()], [Constant(None)]), [Assign([Name('combined', Store())], Name('condition', Load()))], "
    "[Assign([Name('combined', Store())], Constant('COMBINE'))])], []), "
    "Return(Name('combined', Load()))]"
)


@generator("GenFilter.v")
def gen_filter(src: str) -> str:
    mod = parse_module(src, "filters.py")
    fn = find_function(mod, "_build_condition")
    if [a.arg for a in fn.args.args] != ["expr", "field"]:
        raise Unsupported("_build_condition signature changed")
    body = copy.deepcopy(strip_docstring(fn.body))
    nested: Dict[str, ast.FunctionDef] = {}
    i = 0
    while i < len(body) and isinstance(body[i], ast.FunctionDef):
        f = body[i]
        a = f.args
        if a.args or a.vararg or a.kwarg or a.kwonlyargs or a.posonlyargs or f.decorator_list:
            raise Unsupported(f"nested handler {f.name} takes arguments / decorators")
        nested[f.name] = f
        i += 1
    if i >= len(body):
        raise Unsupported("_build_condition: op_handlers not found")
    hd = body[i]
    if isinstance(hd, ast.AnnAssign):
        target, value = hd.target, hd.value
    elif isinstance(hd, ast.Assign) and len(hd.targets) == 1:
        target, value = hd.targets[0], hd.value
    else:
        raise Unsupported(f"_build_condition: expected op_handlers assignment, got {dump(hd)}")
    if not (isinstance(target, ast.Name) and target.id == "op_handlers" and isinstance(value, ast.Dict)):
        raise Unsupported("_build_condition: op_handlers is not a dict literal")
    tail = [_Blank().visit(s) for s in body[i + 1:]]
    _expect(tail, BUILD_TAIL, "_build_condition (dispatch)")
    handlers: Dict[str, str] = {}
    for k, v in zip(value.keys, value.values):
        if k is None:
            raise Unsupported("dict unpacking in op_handlers")
        op = _filterop(k)
        if isinstance(v, ast.Lambda):
            a = v.args
            if a.args or a.vararg or a.kwarg or a.kwonlyargs or a.posonlyargs:
                raise Unsupported("handler lambda takes arguments")
            term = ex(v.body, set())
        elif isinstance(v, ast.Name) and v.id in nested:
            term = body_term(strip_docstring(nested[v.id].body), set())
        else:
            raise Unsupported(f"handler for {op} is neither a lambda nor a nested function: {dump(v)}")
        handlers[op] = term                    # dict semantics: later duplicate wins
    arms = "\n".join(f"  | {op} => {handlers[op]}" for op in FOPS if op in handlers)
    if len(handlers) < len(FOPS):
        arms += "\n  | _ => Err EBuild"
    # ---- to_pyarrow_compute_expression
    fn = find_function(mod, "to_pyarrow_compute_expression")
    if [a.arg for a in fn.args.args] != ["expressions"]:
        raise Unsupported("to_pyarrow_compute_expression signature changed")
    body = copy.deepcopy(strip_docstring(fn.body))
    try:
        asg = body[2].body[2].orelse[0]
        assert isinstance(asg, ast.Assign)
        rhs = asg.value
    except Exception:
        raise Unsupported("to_pyarrow_compute_expression: combine statement not found")
    combine = pure(rhs, {"combined", "condition"})
    asg.value = ast.Constant("COMBINE")
    _expect(body, FOLD_SKELETON, "to_pyarrow_compute_expression")
    return f"""(* GENERATED by translator/gen_filter.py from src/datashard/filters.py::_build_condition,
   to_pyarrow_compute_expression -- do not edit *)
From Coq Require Import ZArith List Bool.
Require Import DS.Model.Value DS.Model.FilterExpr.
Import ListNotations.

(* _build_condition(expr, field): op = expr.op, arg = expr.value, field = pc.field(expr.column);
   PA = does pyarrow accept this Python literal (pa.scalar / pa.array) *)
Definition gen_condition (PA : parg -> bool) (op : fop) (field : Z) (arg : parg) : res cexpr :=
  match op with
{arms}
  end.

(* to_pyarrow_compute_expression: `combined = <this>` for the second and later conditions *)
Definition gen_combine (combined condition : cexpr) : cexpr := {combine}.

(* the loop: None for no expressions, else the left fold of gen_combine over the conditions *)
Definition gen_fold (conds : list cexpr) : option cexpr :=
  match conds with
  | [] => None
  | c :: cs => Some (fold_left gen_combine cs c)
  end.
"""
