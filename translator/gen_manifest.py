"""GenManifest.v -- how column statistics travel through manifests, and what a deleting commit does to a manifest (C12).

    FileManager.create_manifest_file        (file_manager.py)
      gen_store_lower / gen_store_upper   the bounds of EVERY entry written (added and carried-over alike) as a function of the
                                          DataFile's bounds: the dict comprehension  {str(k): <codec>(v) for k, v in df.X.items()}
    FileManager.read_manifest_file
      gen_load_lower / gen_load_upper     the bounds of a DataFile read back:  {int(k): <codec>(v) for k, v in X.items()}
    Transaction._commit_file_ops            (transaction.py)
      gen_survives                        which entries of a manifest survive a delete (the comprehension's test)
      gen_rewrite_decision                keep the manifest / rewrite it from the survivors / drop it, from the if-chain over
                                          len(surviving_files) and len(data_files)

<codec> must be one of the functions Model/Bound.v models (self._encode_bound -> enc, self._decode_bound -> dec); the field-id
keys go str(k) -> int(k) (the identity on the model's Z keys).  Checked and fail-closed (Unsupported) rather than emitted, because
the model has no vocabulary for the alternative:
  * create_manifest_file writes ONE record per element of data_files (ADDED) and of existing_files (EXISTING) in one loop, with
    the same bound expressions for both, and stores df.file_path / df.checksum / df.record_count as they are;
  * read_manifest_file takes the manifest path only (no mode switches), decodes both bound maps and hands them, the stored path
    and checksum to DataFile(...);
  * the delete loop reads each manifest through read_manifest_file(manifest_path), compares normalised paths on both sides,
    rewrites through create_manifest_file([], ..., existing_files=surviving_files, ...), and runs BEFORE the append manifest
    is created; without deletes the existing manifests are kept as they are; Transaction.commit collects the appended files
    and the deleted paths of all queued operations.

A change to any emitted definition changes the terms Model/Manifest.v (store, load, commit_tx) and Proofs/ManifestProofs.v are
stated over, so `C12_history_*` are re-checked against what the code says now.
"""
from __future__ import annotations

import ast
from typing import Dict, List, Optional, Tuple

from core import Unsupported, dump, find_function, generator, parse_module, strip_docstring

CODEC = {"_encode_bound": "enc", "_decode_bound": "dec"}


def _u(n: ast.AST) -> str:
    return ast.unparse(n)


def _codec_call(n: ast.AST, var: str, where: str) -> str:
    """self.<codec>(var) -> the model's name of the codec."""
    if (isinstance(n, ast.Call) and isinstance(n.func, ast.Attribute) and _u(n.func.value) in ("self", "cls")
            and len(n.args) == 1 and not n.keywords and isinstance(n.args[0], ast.Name) and n.args[0].id == var):
        if n.func.attr in CODEC:
            return CODEC[n.func.attr]
        raise Unsupported(f"{where}: bound passed through {n.func.attr}(), which the bound-codec model does not describe")
    raise Unsupported(f"{where}: the bound value is not self.<codec>({var}): {_u(n)}")


def _bound_comp(n: ast.AST, key_fn: str, items_of: str, where: str) -> str:
    """{key_fn(k): self.<codec>(v) for k, v in <items_of>.items()} -> codec name."""
    if not (isinstance(n, ast.DictComp) and len(n.generators) == 1):
        raise Unsupported(f"{where}: not a dict comprehension: {_u(n)}")
    g = n.generators[0]
    if g.ifs or g.is_async or not (isinstance(g.target, ast.Tuple) and len(g.target.elts) == 2 and all(isinstance(e, ast.Name) for e in g.target.elts)):
        raise Unsupported(f"{where}: comprehension is not `for k, v in ...` without conditions: {_u(n)}")
    k, v = g.target.elts[0].id, g.target.elts[1].id
    if _u(g.iter) != f"{items_of}.items()":
        raise Unsupported(f"{where}: comprehension iterates {_u(g.iter)}, expected {items_of}.items()")
    if _u(n.key) != f"{key_fn}({k})":
        raise Unsupported(f"{where}: key is {_u(n.key)}, expected {key_fn}({k})")
    return _codec_call(n.value, v, where)


def _gen_store(fm: ast.Module) -> Dict[str, str]:
    fn = find_function(fm, "create_manifest_file", "FileManager")
    loops = [s for s in ast.walk(fn) if isinstance(s, ast.For)]
    want_iter = "[(f, ENTRY_STATUS_ADDED) for f in data_files] + [(f, ENTRY_STATUS_EXISTING) for f in existing_files]"
    loop = [l for l in loops if _u(l.iter) == want_iter and _u(l.target) == "(df, status)"]
    if len(loop) != 1:
        raise Unsupported(f"create_manifest_file: the entry loop is not `for df, status in {want_iter}`")
    loop = loop[0]
    recs = [s for s in loop.body if isinstance(s, ast.Assign) and len(s.targets) == 1 and _u(s.targets[0]) == "record"]
    if len(recs) != 1 or not isinstance(recs[0].value, ast.Dict):
        raise Unsupported("create_manifest_file: not exactly one `record = {...}` per entry")
    if not any(isinstance(s, ast.Expr) and _u(s.value) == "records.append(record)" for s in loop.body):
        raise Unsupported("create_manifest_file: the record is not appended to `records` for every entry")
    # nothing between the loop header and the record may rebind df / the bound expressions per status
    for s in ast.walk(loop):
        if isinstance(s, (ast.Assign, ast.AnnAssign, ast.AugAssign)):
            tg = s.targets if isinstance(s, ast.Assign) else [s.target]
            for t in tg:
                names = {x.id for x in ast.walk(t) if isinstance(x, ast.Name)}
                if names & {"df"}:
                    raise Unsupported(f"create_manifest_file: `df` is rebound inside the entry loop: {_u(s)}")
    rec = {k.value: v for k, v in zip(recs[0].value.keys, recs[0].value.values) if isinstance(k, ast.Constant)}
    if "data_file" not in rec or not isinstance(rec["data_file"], ast.Dict):
        raise Unsupported("create_manifest_file: record has no literal 'data_file' dict")
    dfd = {k.value: v for k, v in zip(rec["data_file"].keys, rec["data_file"].values) if isinstance(k, ast.Constant)}
    for key, expr in (("file_path", "df.file_path"), ("checksum", "df.checksum"), ("record_count", "df.record_count")):
        if key not in dfd or _u(dfd[key]) != expr:
            raise Unsupported(f"create_manifest_file: data_file[{key!r}] is not {expr}")
    out = {}
    for side in ("lower", "upper"):
        key = f"{side}_bounds"
        if key not in dfd:
            raise Unsupported(f"create_manifest_file: data_file has no {key!r}")
        e = dfd[key]
        if not (isinstance(e, ast.IfExp) and _u(e.test) == f"df.{key}" and _u(e.orelse) == "None"):
            raise Unsupported(f"create_manifest_file: {key} is not `<comprehension> if df.{key} else None`: {_u(e)}")
        out[side] = _bound_comp(e.body, "str", f"df.{key}", f"create_manifest_file/{key}")
    return out


def _gen_load(fm: ast.Module) -> Dict[str, str]:
    fn = find_function(fm, "read_manifest_file", "FileManager")
    a = fn.args
    if [x.arg for x in a.args] != ["self", "manifest_path"] or a.vararg or a.kwarg or a.kwonlyargs or a.defaults:
        raise Unsupported(f"read_manifest_file: signature is not (self, manifest_path): {_u(a)}")
    out = {}
    loops = [s for s in ast.walk(fn) if isinstance(s, ast.For) and _u(s.iter) == "reader"]
    if len(loops) != 1:
        raise Unsupported("read_manifest_file: not exactly one `for ... in reader` loop")
    body = loops[0].body
    for side in ("lower", "upper"):
        var = f"{side}_bounds"
        assigns = [s for s in ast.walk(loops[0]) if isinstance(s, ast.Assign) and any(_u(t) == var for t in s.targets)]
        if len(assigns) != 2:
            raise Unsupported(f"read_manifest_file: {var} is assigned {len(assigns)} times in the entry loop (expected: get, decode)")
        if _u(assigns[0].value) != f"df_record.get('{var}')" or assigns[0] not in body:
            raise Unsupported(f"read_manifest_file: {var} is not first df_record.get('{var}'): {_u(assigns[0])}")
        guard = [s for s in body if isinstance(s, ast.If) and _u(s.test) == var and not s.orelse and s.body == [assigns[1]]]
        if len(guard) != 1:
            raise Unsupported(f"read_manifest_file: the decoding of {var} is not `if {var}: {var} = {{...}}`")
        out[side] = _bound_comp(assigns[1].value, "int", var, f"read_manifest_file/{var}")
    ctor = [c for c in ast.walk(loops[0]) if isinstance(c, ast.Call) and _u(c.func) == "DataFile"]
    if len(ctor) != 1:
        raise Unsupported("read_manifest_file: not exactly one DataFile(...) per entry")
    kws = {k.arg: _u(k.value) for k in ctor[0].keywords}
    for k, v in (("file_path", "df_record['file_path']"), ("lower_bounds", "lower_bounds"), ("upper_bounds", "upper_bounds"),
                 ("checksum", "df_record.get('checksum')"), ("record_count", "df_record['record_count']")):
        if kws.get(k) != v:
            raise Unsupported(f"read_manifest_file: DataFile({k}=...) is {kws.get(k)!r}, expected {v}")
    return out


def _len_test(t: ast.AST) -> str:
    """len(surviving_files) == len(data_files) | len(surviving_files) > 0 (and the mirrored spellings) -> Gallina over nat."""
    names = {"surviving_files": "n_surviving", "data_files": "n_all"}

    def term(e: ast.AST) -> str:
        if isinstance(e, ast.Call) and _u(e.func) == "len" and len(e.args) == 1 and isinstance(e.args[0], ast.Name) and e.args[0].id in names:
            return names[e.args[0].id]
        if isinstance(e, ast.Constant) and isinstance(e.value, int) and not isinstance(e.value, bool) and 0 <= e.value <= 8:
            return str(e.value)
        raise Unsupported(f"_commit_file_ops: rewrite decision reads something else than the two lengths: {_u(e)}")
    if isinstance(t, ast.Name) and t.id == "surviving_files":
        return "(Nat.ltb 0 n_surviving)"
    if not (isinstance(t, ast.Compare) and len(t.ops) == 1):
        raise Unsupported(f"_commit_file_ops: rewrite decision test outside the subset: {_u(t)}")
    l, r = term(t.left), term(t.comparators[0])
    op = t.ops[0]
    if isinstance(op, ast.Eq):
        return f"(Nat.eqb {l} {r})"
    if isinstance(op, ast.NotEq):
        return f"(negb (Nat.eqb {l} {r}))"
    if isinstance(op, ast.Gt):
        return f"(Nat.ltb {r} {l})"
    if isinstance(op, ast.GtE):
        return f"(Nat.leb {r} {l})"
    if isinstance(op, ast.Lt):
        return f"(Nat.ltb {l} {r})"
    if isinstance(op, ast.LtE):
        return f"(Nat.leb {l} {r})"
    raise Unsupported(f"_commit_file_ops: comparison operator in the rewrite decision: {_u(t)}")


def _branch_action(body: List[ast.stmt]) -> str:
    """What a branch of the keep / rewrite / drop chain does with the manifest."""
    stmts = [s for s in body if not isinstance(s, ast.Pass)]
    if not stmts:
        return "RDrop"
    if len(stmts) == 1 and isinstance(stmts[0], ast.Expr) and _u(stmts[0].value) == "final_manifests.append(manifest)":
        return "RKeep"
    creates = [s for s in stmts if isinstance(s, ast.Assign) and isinstance(s.value, ast.Call) and _u(s.value.func) == "self.file_manager.create_manifest_file"]
    if len(creates) == 1 and len(creates[0].targets) == 1 and isinstance(creates[0].targets[0], ast.Name):
        var = creates[0].targets[0].id
        c = creates[0].value
        kws = {k.arg: _u(k.value) for k in c.keywords}
        if not (len(c.args) >= 1 and _u(c.args[0]) == "[]"):
            raise Unsupported(f"_commit_file_ops: the rewritten manifest lists added files: {_u(c)}")
        if kws.get("existing_files") != "surviving_files":
            raise Unsupported(f"_commit_file_ops: the rewritten manifest is not made of surviving_files: {_u(c)}")
        rest = [s for s in stmts if s is not creates[0]]
        appended = [s for s in rest if isinstance(s, ast.Expr) and _u(s.value) == f"final_manifests.append({var})"]
        other = [s for s in rest if s not in appended]
        if len(appended) != 1 or any(_u(s) != f"{var}.partition_spec_id = manifest.partition_spec_id" for s in other):
            raise Unsupported(f"_commit_file_ops: rewrite branch does more than create + append: {[_u(s) for s in rest]}")
        return "RRewrite"
    raise Unsupported(f"_commit_file_ops: branch of the rewrite decision not understood: {[_u(s) for s in stmts]}")


def _decision(node: ast.If) -> str:
    act = _branch_action(node.body)
    if len(node.orelse) == 1 and isinstance(node.orelse[0], ast.If):
        els = _decision(node.orelse[0])
    else:
        els = _branch_action(node.orelse)
    return f"(if {_len_test(node.test)} then {act} else {els})"


def _gen_commit_ops(tr: ast.Module) -> Dict[str, str]:
    fn = find_function(tr, "_commit_file_ops", "Transaction")
    body = strip_docstring(fn.body)
    idx_del = [i for i, s in enumerate(body) if isinstance(s, ast.If) and _u(s.test) == "deleted_paths"]
    idx_app = [i for i, s in enumerate(body) if isinstance(s, ast.If) and _u(s.test) == "append_files"]
    idx_list = [i for i, s in enumerate(body) if isinstance(s, ast.Assign) and isinstance(s.value, ast.Call)
                and _u(s.value.func) == "self.file_manager.create_manifest_list_file"]
    if len(idx_del) != 1 or len(idx_app) != 1 or len(idx_list) != 1 or not (idx_del[0] < idx_app[0] < idx_list[0]):
        raise Unsupported("_commit_file_ops: expected `if deleted_paths:` then `if append_files:` then create_manifest_list_file(...)")
    dele, app, lst = body[idx_del[0]], body[idx_app[0]], body[idx_list[0]]
    if _u(lst.value.args[0]) != "final_manifests":
        raise Unsupported("_commit_file_ops: the manifest list is not made of final_manifests")
    if [_u(s) for s in dele.orelse] != ["final_manifests = list(existing_manifests)"]:
        raise Unsupported(f"_commit_file_ops: without deletes the existing manifests are not kept as they are: {[_u(s) for s in dele.orelse]}")
    # ---- appends: one manifest of all appended files, after the deletes
    creates = [c for c in ast.walk(app) if isinstance(c, ast.Call) and _u(c.func) == "self.file_manager.create_manifest_file"]
    if len(creates) != 1 or _u(creates[0].args[0]) != "append_files" or any(k.arg == "existing_files" for k in creates[0].keywords) or app.orelse:
        raise Unsupported("_commit_file_ops: the append branch is not one create_manifest_file(append_files, ...) without carried-over files")
    asg = [s for s in app.body if isinstance(s, ast.Assign) and s.value is creates[0]]
    if len(asg) != 1 or not any(isinstance(s, ast.Expr) and _u(s.value) == f"final_manifests.append({_u(asg[0].targets[0])})" for s in app.body):
        raise Unsupported("_commit_file_ops: the append manifest is not appended to final_manifests")
    # ---- deletes
    if len(dele.body) != 2 or _u(dele.body[0]) != "deleted_normalised = {p.lstrip('/') for p in deleted_paths}":
        raise Unsupported(f"_commit_file_ops: delete branch is not [normalise paths, loop over manifests]: {[_u(s)[:60] for s in dele.body]}")
    loop = dele.body[1]
    if not (isinstance(loop, ast.For) and _u(loop.target) == "manifest" and _u(loop.iter) == "existing_manifests" and not loop.orelse):
        raise Unsupported("_commit_file_ops: the delete loop is not `for manifest in existing_manifests`")
    reads = [s for s in ast.walk(loop) if isinstance(s, ast.Assign) and any(_u(t) == "data_files" for t in s.targets)]
    if len(reads) != 1 or _u(reads[0].value) != "self.file_manager.read_manifest_file(manifest_path)":
        raise Unsupported(f"_commit_file_ops: data_files is not read by read_manifest_file(manifest_path) alone: {[_u(r) for r in reads]}")
    survs = [s for s in loop.body if isinstance(s, ast.Assign) and any(_u(t) == "surviving_files" for t in s.targets)]
    if len(survs) != 1 or _u(survs[0].value) != "[f for f in data_files if f.file_path.lstrip('/') not in deleted_normalised]":
        raise Unsupported(f"_commit_file_ops: surviving_files is not the comprehension over data_files by normalised path: {[_u(s) for s in survs]}")
    after = loop.body[loop.body.index(survs[0]) + 1:]
    if len(after) != 1 or not isinstance(after[0], ast.If):
        raise Unsupported("_commit_file_ops: the keep / rewrite / drop decision is not the single statement after surviving_files")
    for s in ast.walk(after[0]):
        if isinstance(s, (ast.Assign, ast.AugAssign)) and any(n in _u(s).split("=")[0] for n in ("surviving_files", "data_files", "deleted_normalised")):
            raise Unsupported(f"_commit_file_ops: the decision rebinds its inputs: {_u(s)}")
    decision = _decision(after[0])
    # ---- Transaction.commit collects the operations
    text = _u(find_function(tr, "commit", "Transaction"))
    for need in ("append_files.extend(operation['files'])", "deleted_paths.update(operation['file_paths'])",
                 "self._commit_file_ops(base_metadata, append_files, deleted_paths, mutator)"):
        if need not in text:
            raise Unsupported(f"Transaction.commit: missing `{need}`")
    return {"decision": decision}


@generator("GenManifest.v")
def gen_manifest(src: str) -> str:
    fm = parse_module(src, "file_manager.py")
    tr = parse_module(src, "transaction.py")
    st = _gen_store(fm)
    ld = _gen_load(fm)
    ops = _gen_commit_ops(tr)
    return f"""(* GENERATED by translator/gen_manifest.py from src/datashard/file_manager.py::create_manifest_file / read_manifest_file
   and src/datashard/transaction.py::_commit_file_ops -- do not edit *)
From Coq Require Import ZArith List Bool String Arith.
Require Import DS.Model.Value DS.Model.BoundPrim DS.Gen.GenBound DS.Model.Bound DS.Model.ManifestBase.
Import ListNotations.

(* create_manifest_file: the bounds of every entry written (ADDED and EXISTING), field id -> stored (tag, payload) *)
Definition gen_store_lower (bs : list (Z * value)) : list (Z * (string * jpayload)) :=
  map (fun kv => (fst kv, {st['lower']} (snd kv))) bs.
Definition gen_store_upper (bs : list (Z * value)) : list (Z * (string * jpayload)) :=
  map (fun kv => (fst kv, {st['upper']} (snd kv))) bs.

(* read_manifest_file: the bounds of the DataFile read back *)
Definition gen_load_lower (bs : list (Z * (string * jpayload))) : list (Z * value) :=
  map (fun kv => (fst kv, {ld['lower']} (snd kv))) bs.
Definition gen_load_upper (bs : list (Z * (string * jpayload))) : list (Z * value) :=
  map (fun kv => (fst kv, {ld['upper']} (snd kv))) bs.

(* _commit_file_ops: surviving_files = [f for f in data_files if f.file_path.lstrip("/") not in deleted_normalised] *)
Definition gen_survives (deleted : list Z) (path : Z) : bool := negb (existsb (Z.eqb path) deleted).

(* _commit_file_ops: what happens to a manifest of n_all entries of which n_surviving survive the delete *)
Definition gen_rewrite_decision (n_surviving n_all : nat) : rewrite_action :=
  {ops['decision']}.
"""
