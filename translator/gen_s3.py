"""GenS3.v -- the pure string kernels and literal tables of the S3 storage backend, translated.

From src/datashard/storage_backend.py
    gen_get_s3_key   prefix path      S3StorageBackend._get_s3_key            (whole body)
    gen_list_prefix  prefix path      S3StorageBackend.list_files: the statements computing `s3_prefix`
                                      (everything before the nested `list_op`), i.e. the Prefix= sent to S3
    gen_strip_prefix prefix key       S3StorageBackend.list_files: the if/else computing `rel_path` from `key`
    gen_init_prefix  prefix           S3StorageBackend.__init__: `self.prefix = <expr over prefix>`
    gen_full_prefix  env_prefix table_path   create_storage_backend: table_prefix / full_prefix if-chain
    gen_cas_conflict_codes            the tuple tested in write_file_cas
    gen_code_*                        the error-code literals compared in read_op / exists_op / size_op / mtime_op
From src/datashard/s3_consistency.py
    gen_permanent_codes               PERMANENT_S3_ERROR_CODES (sorted)
    gen_max_retries, gen_initial_delay, gen_max_delay, gen_backoff_factor   S3ConsistencyHandler.__init__ defaults
    and `with_s3_retry` / `default_handler` are checked to use exactly those defaults.

Everything else of the anchored code that the hand-written models (Model/Backend.v, Range.v, Retry.v)
describe is pinned by golden AST digests (PINS below): if such a function changes shape the translator
fails closed and the proofs are reported as no longer checking the code.

Accepted subset (anything else raises Unsupported):
  str expr : names bound in the environment, `self.prefix`, str constants, f-strings of str exprs,
             `a + b`, `.lstrip("/")`, `.rstrip("/")`, `.strip("/")`, `x[n:]`, `self._get_s3_key(e)`
  nat expr : int constants, `len(x)`, `a + b`
  bool expr: truthiness of a str expr, `.startswith(e)`, `.endswith(e)`, `not`, `and`, `or`
  stmts    : `x = e`, `x += e`, `if/elif/else`, `return e`
"""
from __future__ import annotations

import ast
import hashlib
from fractions import Fraction
from typing import Dict, List, Optional

from core import Unsupported, coq_str, dump, find_function, generator, parse_module, strip_docstring


def lit(s: str) -> str:
    return f"(lit {coq_str(s)})"


class Env:
    def __init__(self, names: Dict[str, str], self_attrs: Dict[str, str], allow_get_key: bool = False):
        self.names = dict(names)          # python local name -> Gallina name
        self.self_attrs = dict(self_attrs)  # self.<attr> -> Gallina name
        self.allow_get_key = allow_get_key


def _is_slash(args: List[ast.expr]) -> bool:
    return len(args) == 1 and isinstance(args[0], ast.Constant) and args[0].value == "/"


def sexpr(n: ast.AST, env: Env) -> str:
    """A str-typed expression."""
    if isinstance(n, ast.Name) and n.id in env.names:
        return env.names[n.id]
    if isinstance(n, ast.Attribute) and isinstance(n.value, ast.Name) and n.value.id == "self" and n.attr in env.self_attrs:
        return env.self_attrs[n.attr]
    if isinstance(n, ast.Constant) and isinstance(n.value, str):
        return lit(n.value)
    if isinstance(n, ast.JoinedStr):
        parts = []
        for v in n.values:
            if isinstance(v, ast.Constant) and isinstance(v.value, str):
                parts.append(lit(v.value))
            elif isinstance(v, ast.FormattedValue) and v.conversion == -1 and v.format_spec is None:
                parts.append(sexpr(v.value, env))
            else:
                raise Unsupported(f"f-string part not supported: {dump(v)}")
        if not parts:
            return lit("")
        return "(" + " ++ ".join(parts) + ")"
    if isinstance(n, ast.BinOp) and isinstance(n.op, ast.Add):
        return f"({sexpr(n.left, env)} ++ {sexpr(n.right, env)})"
    if isinstance(n, ast.Call) and isinstance(n.func, ast.Attribute) and not n.keywords:
        m = n.func.attr
        if m in ("lstrip", "rstrip", "strip") and _is_slash(n.args):
            return f"({m}_slash {sexpr(n.func.value, env)})"
        if (m == "_get_s3_key" and env.allow_get_key and isinstance(n.func.value, ast.Name) and n.func.value.id == "self"
                and len(n.args) == 1):
            return f"(gen_get_s3_key {env.self_attrs['prefix']} {sexpr(n.args[0], env)})"
    if isinstance(n, ast.Subscript) and isinstance(n.slice, ast.Slice) and n.slice.upper is None and n.slice.step is None \
            and n.slice.lower is not None:
        return f"(drop {nexpr(n.slice.lower, env)} {sexpr(n.value, env)})"
    raise Unsupported(f"string expression not supported: {dump(n)}")


def nexpr(n: ast.AST, env: Env) -> str:
    if isinstance(n, ast.Constant) and isinstance(n.value, int) and not isinstance(n.value, bool) and 0 <= n.value < 1000:
        return str(n.value)
    if isinstance(n, ast.Call) and isinstance(n.func, ast.Name) and n.func.id == "len" and len(n.args) == 1 and not n.keywords:
        return f"(List.length {sexpr(n.args[0], env)})"
    if isinstance(n, ast.BinOp) and isinstance(n.op, ast.Add):
        return f"({nexpr(n.left, env)} + {nexpr(n.right, env)})%nat"
    raise Unsupported(f"integer expression not supported: {dump(n)}")


def bexpr(n: ast.AST, env: Env) -> str:
    if isinstance(n, ast.BoolOp):
        op = "&&" if isinstance(n.op, ast.And) else "||"
        return "(" + f" {op} ".join(bexpr(v, env) for v in n.values) + ")"
    if isinstance(n, ast.UnaryOp) and isinstance(n.op, ast.Not):
        return f"(negb {bexpr(n.operand, env)})"
    if isinstance(n, ast.Call) and isinstance(n.func, ast.Attribute) and n.func.attr in ("startswith", "endswith") \
            and len(n.args) == 1 and not n.keywords:
        fn = "starts_with" if n.func.attr == "startswith" else "ends_with"
        return f"({fn} {sexpr(n.func.value, env)} {sexpr(n.args[0], env)})"
    # truthiness of a string
    return f"(nonempty {sexpr(n, env)})"


def stmts(body: List[ast.stmt], env: Env, result: Optional[str]) -> str:
    """Translate a statement list to a term. `result`: the variable whose final value is the answer when the
    list falls off the end (None: every path must `return`)."""
    if not body:
        if result is None:
            raise Unsupported("a path through the function does not return")
        if result not in env.names:
            raise Unsupported(f"result variable {result} not assigned on some path")
        return env.names[result]
    s, rest = body[0], body[1:]
    if isinstance(s, ast.Return) and s.value is not None:
        return sexpr(s.value, env)
    if isinstance(s, ast.Assign) and len(s.targets) == 1 and isinstance(s.targets[0], ast.Name):
        name = s.targets[0].id
        e = sexpr(s.value, env)
        env2 = Env(env.names, env.self_attrs, env.allow_get_key)
        fresh = f"{name}_{1 + sum(1 for v in env.names.values() if v.startswith(name + '_'))}"
        env2.names[name] = fresh
        return f"(let {fresh} := {e} in\n   {stmts(rest, env2, result)})"
    if isinstance(s, ast.AugAssign) and isinstance(s.op, ast.Add) and isinstance(s.target, ast.Name):
        eq = ast.Assign(targets=[ast.Name(id=s.target.id, ctx=ast.Store())],
                        value=ast.BinOp(left=ast.Name(id=s.target.id, ctx=ast.Load()), op=ast.Add(), right=s.value))
        return stmts([eq] + rest, env, result)
    if isinstance(s, ast.If):
        c = bexpr(s.test, env)
        return f"(if {c}\n   then {stmts(s.body + rest, env, result)}\n   else {stmts(s.orelse + rest, env, result)})"
    raise Unsupported(f"statement not supported: {dump(s)}")


def digest(node) -> str:
    return hashlib.sha256(dump(node).encode()).hexdigest()[:16]


# Golden AST digests of the code modelled by hand (computed on the repaired tree; see `--pins` below).
PINS = {
    # S3RangeFile (seek / readinto / readall / _get_range / __init__ / tell) and S3StorageBackend.open_seekable /
    # open_file / read_file_with_etag / write_file_cas are translated / pinned by translator/gen_range.py (Gen/GenRange.v)
    ("storage_backend.py", "S3StorageBackend", "exists"): "f37d50647af42d66",
    ("storage_backend.py", "S3StorageBackend", "read_file"): "6646c78ffeb314ca",
    ("storage_backend.py", "S3StorageBackend", "write_file"): "f30eb5c5c25229fe",
    ("storage_backend.py", "S3StorageBackend", "delete_file"): "0e86bb7fbb8da036",
    ("storage_backend.py", "S3StorageBackend", "get_size"): "cfac8d9aa0568390",
    ("storage_backend.py", "S3StorageBackend", "get_modified_time"): "449e7e050b52ae0f",
    ("s3_consistency.py", "S3ConsistencyHandler", "retry_with_backoff"): "b03f7762df6c4a38",
    ("s3_consistency.py", None, "is_permanent_s3_error"): "2eb67e15b8e93edb",
    ("s3_consistency.py", None, "with_s3_retry"): "c4b431e6f349bb3e",
}


def pin_digests(src: str) -> Dict[tuple, str]:
    mods: Dict[str, ast.Module] = {}
    out = {}
    for (fname, cls, fn) in PINS:
        mod = mods.setdefault(fname, parse_module(src, fname))
        f = find_function(mod, fn, cls)
        out[(fname, cls, fn)] = digest(strip_docstring(f.body))
    return out


def check_pins(src: str) -> None:
    got = pin_digests(src)
    bad = [f"{k[0]}::{(k[1] + '.') if k[1] else ''}{k[2]} (expected {PINS[k]}, got {v})" for k, v in got.items() if PINS[k] != v]
    if bad:
        raise Unsupported("hand-modelled code changed shape (golden AST digest): " + "; ".join(bad))


def codes_list(elts: List[ast.expr], what: str) -> str:
    vals = []
    for e in elts:
        if not (isinstance(e, ast.Constant) and isinstance(e.value, str)):
            raise Unsupported(f"{what}: non-string element {dump(e)}")
        vals.append(e.value)
    return "[" + "; ".join(lit(v) for v in vals) + "]"


def find_code_compare(fn: ast.FunctionDef, ops: tuple, what: str) -> str:
    """The string literal compared with e.response["Error"]["Code"] inside `fn` (exactly one)."""
    found = []
    for n in ast.walk(fn):
        if isinstance(n, ast.Compare) and len(n.ops) == 1 and isinstance(n.ops[0], ops) \
                and isinstance(n.comparators[0], ast.Constant) and isinstance(n.comparators[0].value, str) \
                and "'Code'" in dump(n.left):
            found.append(n.comparators[0].value)
    if len(found) != 1:
        raise Unsupported(f"{what}: expected exactly one error-code comparison, found {found}")
    return found[0]


def q_of_float(x) -> str:
    fr = Fraction(repr(x)) if isinstance(x, float) else Fraction(x)
    return f"({fr.numerator} # {fr.denominator})"


@generator("GenS3.v")
def gen_s3(src: str) -> str:
    sb = parse_module(src, "storage_backend.py")
    sc = parse_module(src, "s3_consistency.py")
    check_pins(src)

    # ---- _get_s3_key
    f = find_function(sb, "_get_s3_key", "S3StorageBackend")
    if [a.arg for a in f.args.args] != ["self", "path"]:
        raise Unsupported("_get_s3_key signature changed")
    get_key = stmts(strip_docstring(f.body), Env({"path": "path"}, {"prefix": "prefix"}), None)

    # ---- __init__: self.prefix = ...
    f = find_function(sb, "__init__", "S3StorageBackend")
    init_prefix = None
    for n in ast.walk(f):
        if isinstance(n, ast.Assign) and len(n.targets) == 1 and isinstance(n.targets[0], ast.Attribute) \
                and isinstance(n.targets[0].value, ast.Name) and n.targets[0].value.id == "self" and n.targets[0].attr == "prefix":
            if init_prefix is not None:
                raise Unsupported("S3StorageBackend.__init__ assigns self.prefix more than once")
            init_prefix = sexpr(n.value, Env({"prefix": "prefix"}, {}))
    if init_prefix is None:
        raise Unsupported("S3StorageBackend.__init__ does not assign self.prefix")
    cls_node = next(c for c in ast.walk(sb) if isinstance(c, ast.ClassDef) and c.name == "S3StorageBackend")
    n_assign = 0
    for n in ast.walk(cls_node):
        tg = n.targets if isinstance(n, ast.Assign) else [n.target] if isinstance(n, (ast.AugAssign, ast.AnnAssign)) else []
        n_assign += sum(1 for t_ in tg if isinstance(t_, ast.Attribute) and t_.attr == "prefix")
    if n_assign != 1:
        raise Unsupported("self.prefix is assigned outside S3StorageBackend.__init__")

    # ---- list_files: prefix computation + skeleton + strip
    f = find_function(sb, "list_files", "S3StorageBackend")
    body = strip_docstring(f.body)
    body = [s for s in body if not isinstance(s, ast.ImportFrom)]
    idx = next((i for i, s in enumerate(body) if isinstance(s, ast.FunctionDef)), None)
    if idx is None or body[idx].name != "list_op" or len(body) != idx + 2:
        raise Unsupported("list_files: expected <prefix statements>; def list_op; return with_s3_retry(...)")
    list_prefix = stmts(body[:idx], Env({"prefix": "path"}, {"prefix": "prefix"}, allow_get_key=True), "s3_prefix")
    ret = dump(body[idx + 1])
    if not ret.startswith("Return(Call(Name('with_s3_retry', Load()), [Name('list_op', Load())"):
        raise Unsupported(f"list_files: final statement changed: {ret}")
    lop = body[idx]
    # the loop skeleton with the rel_path if/else replaced by `pass`
    try:
        forpage = lop.body[2]
        forobj = forpage.body[1]
        strip_if = forobj.body[1]
        assert isinstance(strip_if, ast.If)
    except Exception:
        raise Unsupported("list_files.list_op: loop skeleton not found")
    forobj.body[1] = ast.Pass()
    skeleton = dump(lop.body)
    forobj.body[1] = strip_if
    expected = (
        "[Assign([Name('result', Store())], List([], Load())), "
        "Assign([Name('paginator', Store())], Call(Attribute(Attribute(Name('self', Load()), 's3', Load()), 'get_paginator', Load()), [Constant('list_objects_v2')], [])), "
        "For(Name('page', Store()), Call(Attribute(Name('paginator', Load()), 'paginate', Load()), [], "
        "[keyword('Bucket', Attribute(Name('self', Load()), 'bucket', Load())), keyword('Prefix', Name('s3_prefix', Load()))]), "
        "[If(Compare(Constant('Contents'), [NotIn()], [Name('page', Load())]), [Continue()], []), "
        "For(Name('obj', Store()), Subscript(Name('page', Load()), Constant('Contents'), Load()), "
        "[Assign([Name('key', Store())], Subscript(Name('obj', Load()), Constant('Key'), Load())), Pass(), "
        "Expr(Call(Attribute(Name('result', Load()), 'append', Load()), [Name('rel_path', Load())], []))], [])], []), "
        "Return(Name('result', Load()))]"
    )
    if skeleton != expected:
        raise Unsupported(f"list_files.list_op skeleton changed.\n expected {expected}\n got      {skeleton}")
    strip = stmts([strip_if], Env({"key": "key"}, {"prefix": "prefix"}), "rel_path")

    # ---- create_storage_backend: the prefix join
    f = find_function(sb, "create_storage_backend")
    chain = None
    for n in ast.walk(f):
        if isinstance(n, ast.If) and n.orelse:
            for i, s in enumerate(n.body):
                if isinstance(s, ast.Assign) and isinstance(s.targets[0], ast.Name) and s.targets[0].id == "table_prefix":
                    if not (i + 1 < len(n.body) and isinstance(n.body[i + 1], ast.If)):
                        raise Unsupported("create_storage_backend: if-chain after table_prefix not found")
                    chain = [s, n.body[i + 1]]
                    # full_prefix must reach the constructor unchanged
                    tail = dump(n.body[i + 2:])
                    if "keyword('prefix', Name('full_prefix', Load()))" not in tail or "Name('full_prefix', Store())" in tail:
                        raise Unsupported("create_storage_backend: full_prefix is not passed unchanged as prefix=")
    if chain is None:
        raise Unsupported("create_storage_backend: table_prefix assignment not found")
    full_prefix = stmts(chain, Env({"env_prefix": "env_prefix", "table_path": "table_path"}, {}), "full_prefix")

    # ---- code literals
    f = find_function(sb, "write_file_cas", "S3StorageBackend")
    cas = None
    for n in ast.walk(f):
        if isinstance(n, ast.Compare) and len(n.ops) == 1 and isinstance(n.ops[0], ast.In) and isinstance(n.comparators[0], ast.Tuple):
            if cas is not None:
                raise Unsupported("write_file_cas: more than one `in (...)` test")
            cas = codes_list(n.comparators[0].elts, "CAS conflict codes")
    if cas is None:
        raise Unsupported("write_file_cas: conflict-code tuple not found")
    code_read = find_code_compare(find_function(sb, "read_file", "S3StorageBackend"), (ast.Eq,), "read_file")
    code_exists = find_code_compare(find_function(sb, "exists", "S3StorageBackend"), (ast.NotEq,), "exists")
    code_size = find_code_compare(find_function(sb, "get_size", "S3StorageBackend"), (ast.Eq,), "get_size")
    code_mtime = find_code_compare(find_function(sb, "get_modified_time", "S3StorageBackend"), (ast.Eq,), "get_modified_time")

    # ---- s3_consistency
    perm = None
    for n in sc.body:
        if isinstance(n, ast.Assign) and len(n.targets) == 1 and isinstance(n.targets[0], ast.Name) and n.targets[0].id == "PERMANENT_S3_ERROR_CODES":
            v = n.value
            if not (isinstance(v, ast.Call) and isinstance(v.func, ast.Name) and v.func.id == "frozenset" and len(v.args) == 1
                    and isinstance(v.args[0], (ast.Set, ast.Tuple, ast.List))):
                raise Unsupported(f"PERMANENT_S3_ERROR_CODES shape: {dump(v)}")
            for e in v.args[0].elts:
                if not (isinstance(e, ast.Constant) and isinstance(e.value, str)):
                    raise Unsupported("PERMANENT_S3_ERROR_CODES: non-string element")
            perm = "[" + "; ".join(lit(x) for x in sorted(e.value for e in v.args[0].elts)) + "]"
    if perm is None:
        raise Unsupported("PERMANENT_S3_ERROR_CODES not found")
    f = find_function(sc, "__init__", "S3ConsistencyHandler")
    names = [a.arg for a in f.args.args]
    if names != ["self", "max_retries", "initial_delay", "max_delay", "backoff_factor", "retryable_exceptions"]:
        raise Unsupported(f"S3ConsistencyHandler.__init__ signature changed: {names}")
    defaults = f.args.defaults
    if len(defaults) != 5:
        raise Unsupported("S3ConsistencyHandler.__init__: expected 5 defaults")
    dv = []
    for d in defaults[:4]:
        if not (isinstance(d, ast.Constant) and isinstance(d.value, (int, float)) and not isinstance(d.value, bool)):
            raise Unsupported(f"S3ConsistencyHandler default not a number: {dump(d)}")
        dv.append(d.value)
    if not isinstance(dv[0], int) or dv[0] < 0 or dv[0] > 50:
        raise Unsupported(f"max_retries default {dv[0]!r} outside 0..50")
    if dump(defaults[4]) != "Name('RETRYABLE_EXCEPTIONS', Load())":
        raise Unsupported("retryable_exceptions default changed")
    # default_handler = S3ConsistencyHandler()  -- no overrides
    ok = False
    for n in sc.body:
        if isinstance(n, ast.Assign) and isinstance(n.targets[0], ast.Name) and n.targets[0].id == "default_handler":
            if dump(n.value) != "Call(Name('S3ConsistencyHandler', Load()), [], [])":
                raise Unsupported(f"default_handler is not S3ConsistencyHandler(): {dump(n.value)}")
            ok = True
    if not ok:
        raise Unsupported("default_handler not found")
    retryable = None
    for n in ast.walk(sc):
        tgt = n.targets[0] if isinstance(n, ast.Assign) else n.target if isinstance(n, ast.AnnAssign) else None
        if isinstance(tgt, ast.Name) and tgt.id == "RETRYABLE_EXCEPTIONS" and isinstance(n.value, ast.Tuple) and len(n.value.elts) == 4:
            retryable = [e.id for e in n.value.elts if isinstance(e, ast.Name)]
    if retryable != ["ClientError", "BotoCoreError", "IOError", "OSError"]:
        raise Unsupported(f"RETRYABLE_EXCEPTIONS changed: {retryable}")

    return f"""(* GENERATED by translator/gen_s3.py from src/datashard/storage_backend.py and s3_consistency.py -- do not edit *)
From Coq Require Import List Bool Ascii String Arith ZArith QArith.
Require Import DS.Model.Str.
Import ListNotations.
Open Scope list_scope.

(* S3StorageBackend._get_s3_key *)
Definition gen_get_s3_key (prefix path : str) : str :=
  {get_key}.

(* S3StorageBackend.__init__: self.prefix *)
Definition gen_init_prefix (prefix : str) : str :=
  {init_prefix}.

(* S3StorageBackend.list_files: the Prefix= sent to list_objects_v2 for list_files(path) *)
Definition gen_list_prefix (prefix path : str) : str :=
  {list_prefix}.

(* S3StorageBackend.list_files: table-relative path of a listed key *)
Definition gen_strip_prefix (prefix key : str) : str :=
  {strip}.

(* create_storage_backend: DATASHARD_S3_PREFIX joined with the table path *)
Definition gen_full_prefix (env_prefix table_path : str) : str :=
  {full_prefix}.

Definition gen_cas_conflict_codes : list str := {cas}.
Definition gen_code_read_notfound : str := {lit(code_read)}.
Definition gen_code_exists_notfound : str := {lit(code_exists)}.
Definition gen_code_size_notfound : str := {lit(code_size)}.
Definition gen_code_mtime_notfound : str := {lit(code_mtime)}.

(* s3_consistency.PERMANENT_S3_ERROR_CODES *)
Definition gen_permanent_codes : list str := {perm}.

(* S3ConsistencyHandler defaults (used unchanged by default_handler / with_s3_retry) *)
Definition gen_max_retries : nat := {dv[0]}.
Definition gen_initial_delay : Q := {q_of_float(dv[1])}.
Definition gen_max_delay : Q := {q_of_float(dv[2])}.
Definition gen_backoff_factor : Q := {q_of_float(dv[3])}.
"""


if __name__ == "__main__":
    import sys
    src = sys.argv[1]
    for k, v in pin_digests(src).items():
        print(f'    {k!r}: "{v}",')
