"""GenCommit.v -- the commit protocol's skeleton and decision kernels, read off the source (C01, C04, C08).

    MetadataManager.commit                 (metadata_manager.py)
      gen_commit_path_cas / _plain   the protocol actions (coq/Model/CommitBase.v `paction`) in program order on the
                                     normal path, for storage with / without conditional writes (`if self.storage.supports_cas`
                                     is the only branch that is resolved; an action under any other `if` is `AMaybe`)
      gen_stamp_eqb                  the OCC validation: the conjunction of the `current.<f> != base_metadata.<f>` tests that
                                     raise ConcurrentModificationException (f in current_snapshot_id, last_updated_ms)
      gen_new_lu                     the stamp written into the new version, as a function of the clock reading and the
                                     validated version's stamp  (`now_ms = max(now_ms, current.last_updated_ms + 1)`)
      gen_discard_on                 which exception classes make the fence+flip section remove the unpublished metadata file
    MetadataManager._write_hint_at_commit_point
      gen_flip_exn                   classification of a failing commit-point write by (supports_cas, atomic_write_failures, error)
    Transaction.commit                     (transaction.py)
      gen_max_retries                the attempt bound of the retry loop
      gen_tx_on                      what each except-arm does, by exception class and "was this the last attempt"

Checked and fail-closed (Unsupported) rather than emitted, because the model has no vocabulary for the alternative:
  * commit() is  `with self._lock: acquire(); try: ... finally: _release_lock_safely()`  (release in the finally of the
    section the acquire opens);
  * the ETag handed to the commit-point write is assigned ONLY by the read_file_with_etag() whose bytes name the version that
    is validated (hint_bytes -> _parse_hint_content -> parsed -> previous_metadata_file -> _read_metadata_file -> current);
  * the file named by the flip is the file _write_metadata_file() just wrote;
  * the conditional write passes that ETag on; every call on self.storage / self.lock_provider inside commit() is known.

A change to any emitted definition changes the Gallina term that coq/Model/Commit.v (stamp_eqb, new_meta) and
Proofs/CommitGenProofs.v are stated over, so the serializability proofs are re-checked against what the code says now.
"""
from __future__ import annotations

import ast
from typing import Dict, List, Optional, Tuple

from core import Unsupported, dump, find_function, generator, parse_module, strip_docstring


def _cn(c: ast.AST) -> str:
    if not isinstance(c, ast.Call):
        return ""
    parts = []
    f = c.func
    while isinstance(f, ast.Attribute):
        parts.append(f.attr)
        f = f.value
    parts.append(f.id if isinstance(f, ast.Name) else ("(" + _cn(f) + ")" if isinstance(f, ast.Call) else "?"))
    return ".".join(reversed(parts))


def _u(n: ast.AST) -> str:
    return ast.unparse(n)


# calls inside MetadataManager.commit: protocol action, or known and irrelevant to the skeleton
ACTION_OF = {
    "self.lock_provider.acquire": "ALock",
    "self.storage.read_file_with_etag": "AReadPtrEtag",
    "self.refresh": "ARefresh",
    "self._write_metadata_file": "AWriteMeta",
    "self.lock_provider.is_held": "AFence",
    "self._write_hint_at_commit_point": "AFlip",
    "self._release_lock_safely": "ARelease",
}
KNOWN_QUIET = {
    "self._parse_hint_content", "self.storage.exists", "self._read_metadata_file", "self._current_version_info",
    "self._append_metadata_log", "self._new_metadata_filename", "self._discard_unpublished_metadata",
    "int", "max", "min", "datetime.now", "(datetime.now).timestamp", "ConcurrentModificationException", "ValueError",
}
STAMP_FIELDS = {"current_snapshot_id": "c", "last_updated_ms": "lu"}


def _is_cfg_test(t: ast.AST) -> bool:
    return _u(t) == "self.storage.supports_cas"


def _validate_field(s: ast.stmt) -> Optional[Tuple[str, str]]:
    """`if current and current.F != base_metadata.F: raise X(...)` -> (F, X)."""
    if not (isinstance(s, ast.If) and not s.orelse and len(s.body) == 1 and isinstance(s.body[0], ast.Raise)):
        return None
    t = s.test
    if not (isinstance(t, ast.BoolOp) and isinstance(t.op, ast.And) and len(t.values) == 2 and _u(t.values[0]) == "current"):
        return None
    c = t.values[1]
    if not (isinstance(c, ast.Compare) and len(c.ops) == 1 and isinstance(c.ops[0], ast.NotEq)):
        return None
    l, r = c.left, c.comparators[0]
    if not (isinstance(l, ast.Attribute) and _u(l.value) == "current" and isinstance(r, ast.Attribute)
            and _u(r.value) == "base_metadata" and l.attr == r.attr):
        return None
    exc = s.body[0].exc
    return l.attr, (_cn(exc) if isinstance(exc, ast.Call) else _u(exc))


class _Walk:
    """Program-order walk of commit()'s protected section for one storage configuration."""

    def __init__(self, cas: bool):
        self.cas = cas
        self.actions: List[str] = []
        self.validated: List[str] = []
        self.stamp_seen = False
        self.pos: Dict[str, int] = {}

    def emit(self, a: str, cond: int) -> None:
        self.pos.setdefault(a, len(self.actions))
        self.actions.append(f"AMaybe {a}" if cond > 0 else a)

    def calls(self, e: ast.AST, cond: int) -> None:
        for ch in ast.iter_child_nodes(e):
            self.calls(ch, cond)
        if isinstance(e, ast.Call):
            nm = _cn(e)
            if nm in ACTION_OF:
                self.emit(ACTION_OF[nm], cond)
            elif nm in KNOWN_QUIET:
                pass
            elif nm.startswith(("self.storage.", "self.lock_provider.", "self.")):
                raise Unsupported(f"MetadataManager.commit: call outside the known protocol vocabulary: {nm}")
            elif nm.startswith("logger."):
                pass
            else:
                raise Unsupported(f"MetadataManager.commit: unknown call {nm}")

    def body(self, stmts: List[ast.stmt], cond: int) -> None:
        for s in stmts:
            vf = _validate_field(s)
            if vf is not None:
                f, exc = vf
                if exc == "ConcurrentModificationException":
                    if f not in STAMP_FIELDS:
                        raise Unsupported(f"MetadataManager.commit validates an unknown field against the base: {f}")
                    if not self.validated:
                        self.emit("AValidate", cond)
                    self.validated.append(f)
                elif not (f == "table_uuid" and exc == "ValueError"):
                    raise Unsupported(f"MetadataManager.commit: comparison of {f} raising {exc}")
                continue
            if isinstance(s, ast.If):
                if _is_cfg_test(s.test):
                    self.body(s.body if self.cas else s.orelse, cond)
                else:
                    self.calls(s.test, cond)
                    self.body(s.body, cond + 1)
                    self.body(s.orelse, cond + 1)
            elif isinstance(s, ast.Try):
                self.body(s.body, cond)
                self.body(s.orelse, cond)
                self.body(s.finalbody, cond)
            elif isinstance(s, ast.With):
                for it in s.items:
                    self.calls(it.context_expr, cond)
                self.body(s.body, cond)
            elif isinstance(s, ast.Assign):
                if len(s.targets) == 1 and _u(s.targets[0]) == "new_metadata.last_updated_ms":
                    if _u(s.value) != "now_ms":
                        raise Unsupported(f"MetadataManager.commit: the stamp is not `now_ms`: {_u(s)}")
                    self.emit("AStamp", cond)
                    self.stamp_seen = True
                self.calls(s.value, cond)
            elif isinstance(s, (ast.AnnAssign, ast.AugAssign, ast.Expr, ast.Return, ast.Raise)):
                for ch in ast.iter_child_nodes(s):
                    self.calls(ch, cond)
            elif isinstance(s, (ast.Pass, ast.ImportFrom, ast.Import)):
                pass
            else:
                raise Unsupported(f"MetadataManager.commit: statement kind {type(s).__name__}")


def _arith(e: ast.AST) -> str:
    """now_ms / current.last_updated_ms / int constants / + - / max min  ->  Gallina over Z."""
    if isinstance(e, ast.Name) and e.id == "now_ms":
        return "now"
    if isinstance(e, ast.Attribute) and _u(e) == "current.last_updated_ms":
        return "cur_lu"
    if isinstance(e, ast.Constant) and isinstance(e.value, int) and not isinstance(e.value, bool):
        return f"({e.value})"
    if isinstance(e, ast.BinOp) and isinstance(e.op, (ast.Add, ast.Sub)):
        return f"({_arith(e.left)} {'+' if isinstance(e.op, ast.Add) else '-'} {_arith(e.right)})"
    if isinstance(e, ast.Call) and isinstance(e.func, ast.Name) and e.func.id in ("max", "min") and len(e.args) == 2 and not e.keywords:
        return f"(Z.{e.func.id} {_arith(e.args[0])} {_arith(e.args[1])})"
    raise Unsupported(f"stamp expression outside the arithmetic subset: {_u(e)}")


def _assignments(fn: ast.FunctionDef, name: str) -> List[ast.stmt]:
    out = []
    for n in ast.walk(fn):
        if isinstance(n, ast.Assign):
            for t in n.targets:
                names = [x.id for x in ast.walk(t) if isinstance(x, ast.Name)]
                if name in names:
                    out.append(n)
        elif isinstance(n, (ast.AnnAssign, ast.AugAssign)) and isinstance(n.target, ast.Name) and n.target.id == name:
            out.append(n)
        elif isinstance(n, (ast.For, ast.comprehension)) and name in [x.id for x in ast.walk(n.target) if isinstance(x, ast.Name)]:
            out.append(n)                                                      # loop variables count as assignments
        elif isinstance(n, ast.NamedExpr) and n.target.id == name:
            out.append(n)
    return sorted(out, key=lambda s: (s.lineno, s.col_offset))


def _handler_classes(h: ast.ExceptHandler) -> List[str]:
    if h.type is None:
        return ["BaseException"]
    if isinstance(h.type, ast.Tuple):
        return [_u(x) for x in h.type.elts]
    return [_u(h.type)]


# which handler type names catch which class
CATCHES = {
    "XConflict": {"ConcurrentModificationException", "Exception", "BaseException"},
    "XAmbiguous": {"AmbiguousCommitError", "Exception", "BaseException"},
    "XOther": {"Exception", "BaseException"},
    "XInterrupt": {"BaseException", "KeyboardInterrupt", "SystemExit"},
}
CLASSES = ["XConflict", "XAmbiguous", "XOther", "XInterrupt"]


def _first_handler(handlers: List[ast.ExceptHandler], cls: str, where: str) -> Optional[ast.ExceptHandler]:
    for h in handlers:
        names = _handler_classes(h)
        for n in names:
            if n not in {"ConcurrentModificationException", "AmbiguousCommitError", "Exception", "BaseException",
                         "KeyboardInterrupt", "SystemExit", "CASConflictError", "FileNotFoundError"}:
                raise Unsupported(f"{where}: handler for an exception type outside the known classes: {n}")
        if any(n in CATCHES[cls] for n in names):
            return h
    return None


def _body_calls(stmts: List[ast.stmt]) -> List[ast.Call]:
    out = []
    for s in stmts:
        for n in ast.walk(s):
            if isinstance(n, ast.Call):
                out.append(n)
    return out


def _gen_commit(mm: ast.Module) -> Dict[str, str]:
    fn = find_function(mm, "commit", "MetadataManager")
    body = strip_docstring(fn.body)
    if not (len(body) == 1 and isinstance(body[0], ast.With) and len(body[0].items) == 1 and _u(body[0].items[0].context_expr) == "self._lock"):
        raise Unsupported("MetadataManager.commit is not `with self._lock:` around everything")
    inner = body[0].body
    if not (len(inner) == 2 and isinstance(inner[0], ast.Expr) and _cn(inner[0].value) == "self.lock_provider.acquire"
            and isinstance(inner[1], ast.Try) and not inner[1].handlers and not inner[1].orelse
            and len(inner[1].finalbody) == 1 and isinstance(inner[1].finalbody[0], ast.Expr)
            and _cn(inner[1].finalbody[0].value) == "self._release_lock_safely"):
        raise Unsupported("MetadataManager.commit is not `acquire(); try: ... finally: self._release_lock_safely()`")
    section = inner[1]

    paths = {}
    walks = {}
    for cas in (True, False):
        w = _Walk(cas)
        w.emit("ALock", 0)
        w.body(section.body, 0)
        w.emit("ARelease", 0)
        if not w.stamp_seen:
            raise Unsupported("MetadataManager.commit no longer assigns new_metadata.last_updated_ms")
        paths[cas] = w.actions
        walks[cas] = w
    if walks[True].validated != walks[False].validated:
        raise Unsupported("MetadataManager.commit validates different fields on CAS and non-CAS storage")
    validated = walks[True].validated

    # ---- the stamp expression: assignments to now_ms in program order; the last conditional one is the rule
    assigns = _assignments(fn, "now_ms")
    if not assigns or not (isinstance(assigns[0], ast.Assign) and _u(assigns[0].value) == "int(datetime.now().timestamp() * 1000)"):
        raise Unsupported(f"now_ms is not first read from the clock: {[_u(a) for a in assigns][:1]}")
    expr = "now"
    for a in assigns[1:]:
        if not isinstance(a, ast.Assign) or len(a.targets) != 1:
            raise Unsupported(f"assignment to now_ms outside the subset: {_u(a)}")
        expr = _arith(a.value).replace("now", f"({expr})") if expr != "now" else _arith(a.value)
    # the guard of the re-assignment must be `current is not None` (the model's validated version always exists)
    for n in ast.walk(fn):
        if isinstance(n, ast.If) and any(a in n.body for a in assigns[1:]) and _u(n.test) != "current is not None":
            raise Unsupported(f"now_ms re-assigned under an unexpected guard: {_u(n.test)}")

    # ---- the ETag handed to the commit point
    flips = [c for c in ast.walk(fn) if isinstance(c, ast.Call) and _cn(c) == "self._write_hint_at_commit_point"]
    if len(flips) != 1 or len(flips[0].args) != 2 or flips[0].keywords or not all(isinstance(a, ast.Name) for a in flips[0].args):
        raise Unsupported("MetadataManager.commit: not exactly one _write_hint_at_commit_point(<name>, <name>) call")
    file_var, etag_var = flips[0].args[0].id, flips[0].args[1].id
    reads = 0
    for a in _assignments(fn, etag_var):
        src = _u(a)
        if isinstance(a, ast.AnnAssign) and a.value is not None and _u(a.value) == "None":
            continue
        if isinstance(a, ast.Assign) and _u(a.value) == "None" and len(a.targets) == 1 and isinstance(a.targets[0], ast.Name):
            continue
        if (isinstance(a, ast.Assign) and _cn(a.value) == "self.storage.read_file_with_etag" and len(a.targets) == 1
                and isinstance(a.targets[0], ast.Tuple) and len(a.targets[0].elts) == 2
                and _u(a.targets[0].elts[1]) == etag_var and _u(a.value.args[0]) == "self.HINT_PATH"):
            reads += 1
            bytes_var = _u(a.targets[0].elts[0])
            continue
        raise Unsupported(f"the ETag passed to the commit point is also assigned by: {src}")
    if reads != 1:
        raise Unsupported(f"the ETag passed to the commit point comes from {reads} pointer reads (expected exactly one)")
    text = _u(fn)
    chain = [f"parsed = self._parse_hint_content({bytes_var})",
             "(filesystem_version, previous_metadata_file) = parsed",
             "current = self._read_metadata_file(f'{self.metadata_path}/{previous_metadata_file}')"]
    text_n = text.replace("filesystem_version, previous_metadata_file = parsed", "(filesystem_version, previous_metadata_file) = parsed")
    for stmt in chain:
        if stmt not in text_n:
            raise Unsupported(f"the validated version is no longer derived from the ETag read's bytes: missing `{stmt}`")
    # on the CAS path, every other assignment to `current` is the fallback `current = self.refresh()` under `if current is None`
    for a in _assignments(fn, "current"):
        s = _u(a)
        if s not in ("current: Optional[TableMetadata] = None", "current = self.refresh()",
                     "current = self._read_metadata_file(f'{self.metadata_path}/{previous_metadata_file}')"):
            raise Unsupported(f"`current` (the validated version) is also assigned by: {s}")
    # ---- the flip names the file that was written
    need = [f"metadata_path = f'{{self.metadata_path}}/{{{file_var}}}'", "self._write_metadata_file(metadata_path, new_metadata)",
            f"{file_var} = self._new_metadata_filename(next_version)"]
    for stmt in need:
        if stmt not in text:
            raise Unsupported(f"the file named by the commit point is not the file just written: missing `{stmt}`")
    if len(_assignments(fn, file_var)) != 1 or len(_assignments(fn, "metadata_path")) != 1:
        raise Unsupported("metadata_file / metadata_path assigned more than once in commit()")

    # ---- handlers of the fence + flip section
    tries = [t for t in ast.walk(section) if isinstance(t, ast.Try) and any(c is flips[0] for c in _body_calls(t.body))]
    inner_try = min(tries, key=lambda t: len(_u(t)))
    if not any(_cn(c) == "self.lock_provider.is_held" for c in _body_calls(inner_try.body)):
        raise Unsupported("the fence (is_held) and the commit-point write are no longer in one try section")
    discard: Dict[str, bool] = {}
    for cls in CLASSES:
        h = _first_handler(inner_try.handlers, cls, "MetadataManager.commit fence/flip section")
        if h is None:
            discard[cls] = False
            continue
        names = [_cn(c) for c in _body_calls(h.body)]
        if not (h.body and isinstance(h.body[-1], ast.Raise) and h.body[-1].exc is None):
            raise Unsupported(f"fence/flip handler for {cls} does not end in a bare `raise`")
        for nm in names:
            if nm not in ("self._discard_unpublished_metadata",) and not nm.startswith("logger."):
                raise Unsupported(f"fence/flip handler for {cls} calls {nm}")
        discard[cls] = "self._discard_unpublished_metadata" in names
        if discard[cls]:
            c = [c for c in _body_calls(h.body) if _cn(c) == "self._discard_unpublished_metadata"][0]
            if _u(c.args[0]) != "metadata_path":
                raise Unsupported("the discarded file is not the metadata file this commit wrote")

    return {"paths": paths, "validated": validated, "new_lu": expr, "discard": discard}


def _raise_class(stmts: List[ast.stmt], caught: str, where: str) -> Dict[bool, str]:
    """Handler body -> class raised, possibly depending on self.storage.atomic_write_failures (key: that flag)."""
    def one(ss: List[ast.stmt]) -> Optional[str]:
        for s in ss:
            if isinstance(s, ast.Raise):
                if s.exc is None:
                    return caught
                nm = _cn(s.exc) if isinstance(s.exc, ast.Call) else _u(s.exc)
                if nm == "ConcurrentModificationException":
                    return "XConflict"
                if nm == "AmbiguousCommitError":
                    return "XAmbiguous"
                raise Unsupported(f"{where}: raises {nm}")
            if isinstance(s, ast.Expr) and _cn(s.value).startswith("logger."):
                continue
            if isinstance(s, ast.If):
                return None
            raise Unsupported(f"{where}: statement in a handler: {_u(s)[:80]}")
        raise Unsupported(f"{where}: handler does not raise (the failure would be swallowed)")
    r = one(stmts)
    if r is not None:
        return {True: r, False: r}
    # `if self.storage.atomic_write_failures: <raise>` followed by the other outcome
    out: Dict[bool, str] = {}
    for k, s in enumerate(stmts):
        if isinstance(s, ast.If):
            if _u(s.test) != "self.storage.atomic_write_failures" or s.orelse:
                raise Unsupported(f"{where}: handler branches on {_u(s.test)}")
            out[True] = one(s.body) or ""
            out[False] = one(stmts[k + 1:]) or ""
            if not out[True] or not out[False]:
                raise Unsupported(f"{where}: nested branching in a handler")
            return out
    raise Unsupported(f"{where}: handler shape")


_READBACK_TEST = "self._hint_write_landed(metadata_file)"
# _hint_write_landed, modelled by hand in Model/FlipFault.v (XReadBack): pinned statement by statement
_READBACK_GOLDEN = [
    "try:\n    parsed = self._parse_hint_content(self.storage.read_file(self.HINT_PATH))\nexcept FileNotFoundError:\n    return False\n"
    "except Exception as e:\n    raise AmbiguousCommitError(f'Version hint write was refused and could not be read back: {e}') from e",
    "return parsed is not None and parsed[1] == metadata_file",
]


def _strip_readback(stmts: List[ast.stmt]) -> Tuple[List[ast.stmt], bool]:
    """The arm that handles the store's REFUSAL of the conditional write may start with
    `if self._hint_write_landed(metadata_file): return` (the write is read back before the refusal is called a conflict)."""
    if stmts and isinstance(stmts[0], ast.If) and _u(stmts[0].test) == _READBACK_TEST:
        if stmts[0].orelse or [_u(x) for x in stmts[0].body] != ["return"]:
            raise Unsupported("_write_hint_at_commit_point: the read-back of a refused write does not simply `return` when the write landed")
        return list(stmts[1:]), True
    return list(stmts), False


def _gen_readback(mm: ast.Module) -> bool:
    """Does _write_hint_at_commit_point read the pointer back when the store refuses the conditional write?  If so the helper
    is pinned: landed <=> the pointer's content is exactly OUR metadata file name."""
    fn = find_function(mm, "_write_hint_at_commit_point", "MetadataManager")
    found = False
    for t in [n for n in ast.walk(fn) if isinstance(n, ast.Try)]:
        for h in t.handlers:
            _rest, rb = _strip_readback(h.body)
            if rb:
                if "CASConflictError" not in _handler_classes(h):
                    raise Unsupported("_write_hint_at_commit_point: the pointer is read back in an arm that does not handle the store's refusal")
                found = True
    calls = [c for c in ast.walk(mm) if isinstance(c, ast.Call) and _cn(c) == "self._hint_write_landed"]
    if len(calls) != (1 if found else 0):
        raise Unsupported(f"_hint_write_landed is called {len(calls)} time(s) (expected: only by the refusal arm of _write_hint_at_commit_point)")
    if found:
        helper = find_function(mm, "_hint_write_landed", "MetadataManager")
        if [a.arg for a in helper.args.args] != ["self", "metadata_file"]:
            raise Unsupported("_hint_write_landed parameters changed")
        got = [_u(x) for x in strip_docstring(helper.body)]
        if got != _READBACK_GOLDEN:
            raise Unsupported(f"_hint_write_landed changed (golden AST): {got}")
    return found


def _gen_flip(mm: ast.Module) -> Dict[Tuple[bool, bool, str], str]:
    fn = find_function(mm, "_write_hint_at_commit_point", "MetadataManager")
    params = [a.arg for a in fn.args.args]
    if params != ["self", "metadata_file", "hint_etag"]:
        raise Unsupported(f"_write_hint_at_commit_point parameters changed: {params}")
    body = [s for s in strip_docstring(fn.body) if not isinstance(s, (ast.ImportFrom, ast.Import))]
    if not (len(body) == 3 and isinstance(body[0], ast.Assign) and _u(body[0]) == "content = metadata_file.encode('utf-8')"
            and isinstance(body[1], ast.If) and _is_cfg_test(body[1].test) and not body[1].orelse
            and len(body[1].body) == 1 and isinstance(body[1].body[0], ast.Try) and isinstance(body[2], ast.Try)):
        raise Unsupported("_write_hint_at_commit_point: shape changed (content; if supports_cas: try ...; try ...)")
    out: Dict[Tuple[bool, bool, str], str] = {}
    t_cas, t_plain = body[1].body[0], body[2]
    if [_u(s) for s in t_cas.body] != ["self.storage.write_file_cas(self.HINT_PATH, content, hint_etag)", "return"] or t_cas.orelse or t_cas.finalbody:
        raise Unsupported(f"_write_hint_at_commit_point: conditional-write section changed: {[_u(s) for s in t_cas.body]}")
    if [_u(s) for s in t_plain.body] != ["self.storage.write_file(self.HINT_PATH, content)"] or t_plain.orelse or t_plain.finalbody:
        raise Unsupported(f"_write_hint_at_commit_point: plain-write section changed: {[_u(s) for s in t_plain.body]}")
    for cas, tr in ((True, t_cas), (False, t_plain)):
        for err in ("FEPrecondition", "FEError"):
            if not cas and err == "FEPrecondition":
                continue
            h = None
            for cand in tr.handlers:
                names = _handler_classes(cand)
                if names == ["DirectorySyncError"] and not cas:
                    # storage_backend.DirectorySyncError (C16): the local write WAS renamed into place, only the directory
                    # fsync failed.  Not one of the model's failure classes (FEError on an atomic store = the write did
                    # not happen); accepted only when it is turned into the AMBIGUOUS class, under which commit() keeps
                    # the metadata file and Transaction.commit keeps every written file (gen_discard_on / gen_tx_on).
                    if _raise_class(cand.body, "XOther", "_write_hint_at_commit_point") != {True: "XAmbiguous", False: "XAmbiguous"}:
                        raise Unsupported("_write_hint_at_commit_point: a DirectorySyncError (pointer renamed, directory fsync failed) "
                                          "is not reported as AmbiguousCommitError")
                    continue
                if (err == "FEPrecondition" and "CASConflictError" in names) or any(n in ("Exception", "BaseException") for n in names):
                    h = cand
                    break
                if any(n not in ("CASConflictError", "Exception", "BaseException") for n in names):
                    raise Unsupported(f"_write_hint_at_commit_point: handler for {names}")
            if h is None:
                raise Unsupported(f"_write_hint_at_commit_point: no handler classifies {err} on cas={cas}")
            hbody, _rb = _strip_readback(h.body) if (cas and err == "FEPrecondition") else (h.body, False)
            rc = _raise_class(hbody, "XOther", "_write_hint_at_commit_point")
            for atomic in (True, False):
                out[(cas, atomic, err)] = rc[atomic]
    return out


def _gen_tx(tx: ast.Module) -> Dict[str, object]:
    fn = find_function(tx, "commit", "Transaction")
    mr = [a for a in _assignments(fn, "max_retries")]
    if not (len(mr) == 1 and isinstance(mr[0], ast.Assign) and isinstance(mr[0].value, ast.Constant) and isinstance(mr[0].value.value, int)
            and 1 <= mr[0].value.value <= 1000):
        raise Unsupported("Transaction.commit: max_retries is not one small integer constant")
    max_retries = mr[0].value.value
    loops = [n for n in ast.walk(fn) if isinstance(n, ast.While)]
    if not (len(loops) == 1 and _u(loops[0].test) == "retry_count < max_retries" and len(loops[0].body) == 1 and isinstance(loops[0].body[0], ast.Try)):
        raise Unsupported("Transaction.commit: retry loop shape changed")
    tr = loops[0].body[0]
    rb = find_function(tx, "_rollback", "Transaction")
    if not (len(rb.args.args) == 2 and rb.args.args[1].arg == "delete_files" and len(rb.args.defaults) == 1 and _u(rb.args.defaults[0]) == "True"):
        raise Unsupported("Transaction._rollback(delete_files=True) signature changed")

    def action(stmts: List[ast.stmt], where: str) -> str:
        """A straight-line arm: optional _rollback(...) then raise / continue."""
        act = None
        for s in stmts:
            if isinstance(s, ast.Expr) and _cn(s.value) == "self._rollback":
                c = s.value
                if c.args:
                    raise Unsupported(f"{where}: positional argument to _rollback")
                kw = {k.arg: _u(k.value) for k in c.keywords}
                if kw == {}:
                    act = "TxRollbackDelete"
                elif kw == {"delete_files": "False"}:
                    act = "TxRollbackKeep"
                elif kw == {"delete_files": "True"}:
                    act = "TxRollbackDelete"
                else:
                    raise Unsupported(f"{where}: _rollback({kw})")
            elif isinstance(s, ast.Raise):
                if act is None:
                    raise Unsupported(f"{where}: raises without running _rollback")
                return act
            elif isinstance(s, ast.Continue):
                if act is not None:
                    raise Unsupported(f"{where}: rollback followed by continue")
                return "TxRetry"
            elif isinstance(s, (ast.Assign, ast.AugAssign)) or (isinstance(s, ast.Expr) and _cn(s.value) in ("time.sleep",) or isinstance(s, ast.Expr) and _cn(s.value).startswith("logger.")):
                continue
            else:
                raise Unsupported(f"{where}: statement {_u(s)[:80]}")
        raise Unsupported(f"{where}: arm falls through")

    table: Dict[Tuple[str, bool], str] = {}
    for cls in CLASSES:
        h = _first_handler(tr.handlers, cls, "Transaction.commit")
        for last in (True, False):
            if h is None:
                table[(cls, last)] = "TxPropagate"
                continue
            # the conflict arm: `retry_count += 1; if retry_count >= max_retries: <final> else: <retry>`
            branch = [s for s in h.body if isinstance(s, ast.If)]
            if branch:
                if not (len(branch) == 1 and _u(branch[0].test) == "retry_count >= max_retries" and isinstance(h.body[0], ast.AugAssign)
                        and _u(h.body[0]) == "retry_count += 1" and h.body[-1] is branch[0]):
                    raise Unsupported(f"Transaction.commit: {cls} arm shape changed")
                table[(cls, last)] = action(branch[0].body if last else branch[0].orelse, f"Transaction.commit {cls} arm")
            else:
                table[(cls, last)] = action(h.body, f"Transaction.commit {cls} arm")
    # after the loop: rollback + conflict
    return {"max_retries": max_retries, "table": table}


IN_EFFECT_BODY = [
    "try:\n    current = self.refresh()\nexcept Exception:\n    return True",
    "return current is None or current.table_uuid == metadata.table_uuid",
]


def _pin_in_effect(mm: ast.Module) -> None:
    """MetadataManager._is_table_in_effect(metadata): the table that refresh() resolves NOW has the uuid of `metadata`
    (nothing resolvable, or a resolution that fails, counts as 'in effect': the file is kept).  Model/Create.v `in_effect`."""
    fn = find_function(mm, "_is_table_in_effect", "MetadataManager")
    if [a.arg for a in fn.args.args] != ["self", "metadata"]:
        raise Unsupported("_is_table_in_effect: signature changed")
    body = [_u(x) for x in strip_docstring(fn.body)]
    if body != IN_EFFECT_BODY:
        raise Unsupported(f"_is_table_in_effect: body changed: {body}")


def _gen_create(mm: ast.Module) -> Dict[str, object]:
    """initialize_table: skeleton per storage configuration + what a failing pointer creation does."""
    fn = find_function(mm, "initialize_table", "MetadataManager")
    body = strip_docstring(fn.body)
    if not (len(body) == 1 and isinstance(body[0], ast.With) and _u(body[0].items[0].context_expr) == "self._lock"):
        raise Unsupported("initialize_table is not `with self._lock:` around everything")
    inner = body[0].body
    if not (len(inner) == 2 and isinstance(inner[0], ast.Expr) and _cn(inner[0].value) == "self.lock_provider.acquire"
            and isinstance(inner[1], ast.Try) and not inner[1].handlers and not inner[1].orelse
            and len(inner[1].finalbody) == 1 and _cn(getattr(inner[1].finalbody[0], "value", None)) == "self._release_lock_safely"):
        raise Unsupported("initialize_table is not `acquire(); try: ... finally: self._release_lock_safely()`")
    sec = inner[1].body
    # first statement: the existence guard
    g = sec[0]
    if not (isinstance(g, ast.If) and _u(g.test) == "self._current_version_info() is not None" and not g.orelse
            and len(g.body) == 1 and isinstance(g.body[0], ast.Raise) and _cn(g.body[0].exc) == "TableExistsError"):
        raise Unsupported("initialize_table: the section does not start with the `already initialized -> TableExistsError` guard")
    paths: Dict[bool, List[str]] = {}
    fails: Dict[Tuple[bool, bool, str], str] = {}
    text = [_u(s) for s in sec]
    need = ["metadata_file = self._new_metadata_filename(0)", "metadata_path = f'{self.metadata_path}/{metadata_file}'",
            "self._write_metadata_file(metadata_path, metadata)"]
    pos = [text.index(n) if n in text else -1 for n in need]
    if -1 in pos or pos != sorted(pos):
        raise Unsupported(f"initialize_table: v0 is not written as <fresh name> under the metadata path: {pos}")
    cfg = [s for s in sec if isinstance(s, ast.If) and _is_cfg_test(s.test)]
    if len(cfg) != 1 or sec.index(cfg[0]) < pos[-1]:
        raise Unsupported("initialize_table: the pointer creation (if self.storage.supports_cas ...) does not follow the v0 write")
    known = {"self._current_version_info", "self._new_metadata_filename", "self._write_metadata_file", "self.storage.write_file_cas",
             "self.storage.write_file", "self._discard_unpublished_metadata", "int", "datetime.now", "(datetime.now).timestamp",
             "TableExistsError", "metadata_file.encode", "self._is_table_in_effect"}
    for s in sec:
        for c in ast.walk(s):
            if isinstance(c, ast.Call) and _cn(c) not in known and not _cn(c).startswith("logger."):
                raise Unsupported(f"initialize_table: call outside the known vocabulary: {_cn(c)}")
    for cas in (True, False):
        br = cfg[0].body if cas else cfg[0].orelse
        trs = [s for s in br if isinstance(s, ast.Try)]
        if len(trs) != 1 or any(not isinstance(s, (ast.Try, ast.ImportFrom)) for s in br):
            raise Unsupported(f"initialize_table: pointer-creation branch (cas={cas}) changed shape")
        tr = trs[0]
        want = ("self.storage.write_file_cas(self.HINT_PATH, metadata_file.encode('utf-8'), etag=None)" if cas
                else "self.storage.write_file(self.HINT_PATH, metadata_file.encode('utf-8'))")
        if [_u(x) for x in tr.body] != [want] or tr.orelse or tr.finalbody:
            raise Unsupported(f"initialize_table: pointer write (cas={cas}) is not `{want}`: {[_u(x) for x in tr.body]}")
        paths[cas] = ["ALock", "ACheckAbsent", "AStamp", "AWriteMeta", "APtrCreate", "ARelease"]
        if "metadata.last_updated_ms = int(datetime.now().timestamp() * 1000)" not in text or text.index("metadata.last_updated_ms = int(datetime.now().timestamp() * 1000)") > pos[-1]:
            raise Unsupported("initialize_table: v0 is not stamped before it is written")
        for err in ("FEPrecondition", "FEError"):
            for atomic in (True, False):
                h = None
                for cand in tr.handlers:
                    names = _handler_classes(cand)
                    if (err == "FEPrecondition" and cas and "CASConflictError" in names) or any(n in ("Exception", "BaseException") for n in names):
                        h = cand
                        break
                if not cas and err == "FEPrecondition":
                    continue
                if h is None:
                    fails[(cas, atomic, err)] = "CFKeepRaise"      # no handler: the error propagates, v0 stays
                    continue
                # handler body: raise TableExistsError(...) | [if atomic: discard] raise
                raised = [x for x in h.body if isinstance(x, ast.Raise)]
                if len(raised) != 1 or h.body[-1] is not raised[0]:
                    raise Unsupported("initialize_table: pointer-creation handler does not end in one raise")
                if raised[0].exc is not None:
                    if _cn(raised[0].exc) != "TableExistsError" or len(h.body) > 2:
                        raise Unsupported(f"initialize_table: handler raises {_u(raised[0].exc)[:60]}")
                    if len(h.body) == 2:
                        # `if not self._is_table_in_effect(metadata): self._discard_unpublished_metadata(metadata_path)` before the
                        # raise: the loser's v0 is removed when the table now in effect is verifiably another one
                        g0 = h.body[0]
                        if not (isinstance(g0, ast.If) and not g0.orelse and _u(g0.test) == "not self._is_table_in_effect(metadata)"
                                and [_u(y) for y in g0.body] == ["self._discard_unpublished_metadata(metadata_path)"]):
                            raise Unsupported(f"initialize_table: statement before the TableExistsError raise: {_u(g0)[:80]}")
                        _pin_in_effect(mm)
                        fails[(cas, atomic, err)] = "CFTableExistsDiscardForeign"
                        continue
                    fails[(cas, atomic, err)] = "CFTableExists"
                    continue
                disc = False
                for x in h.body[:-1]:
                    if isinstance(x, ast.If) and _u(x.test) == "self.storage.atomic_write_failures" and not x.orelse \
                            and [_u(y) for y in x.body] == ["self._discard_unpublished_metadata(metadata_path)"]:
                        disc = disc or atomic
                    elif isinstance(x, ast.Expr) and _u(x) == "self._discard_unpublished_metadata(metadata_path)":
                        disc = True
                    else:
                        raise Unsupported(f"initialize_table: statement in the pointer-creation handler: {_u(x)[:80]}")
                fails[(cas, atomic, err)] = "CFDiscardRaise" if disc else "CFKeepRaise"
    return {"paths": paths, "fails": fails}


def _b(x: bool) -> str:
    return "true" if x else "false"


@generator("GenCommit.v")
def gen(src: str) -> str:
    mm = parse_module(src, "metadata_manager.py")
    tx = parse_module(src, "transaction.py")
    c = _gen_commit(mm)
    f = _gen_flip(mm)
    rb = _gen_readback(mm)
    t = _gen_tx(tx)
    cr = _gen_create(mm)
    conj = " && ".join(f"(cur_{STAMP_FIELDS[x]} =? base_{STAMP_FIELDS[x]})" for x in c["validated"]) or "true"
    out = [
        "(* GENERATED by translator/gen_commit.py from metadata_manager.py / transaction.py -- do not edit. *)",
        "From Coq Require Import ZArith List Bool.",
        "Require Import DS.Model.CommitBase.",
        "Import ListNotations.",
        "Open Scope Z_scope.",
        "",
        "(* MetadataManager.commit: protocol actions in program order (normal path), conditional-write storage *)",
        f"Definition gen_commit_path_cas : list paction :=\n  [{'; '.join(c['paths'][True])}].",
        "(* ... and storage without conditional writes *)",
        f"Definition gen_commit_path_plain : list paction :=\n  [{'; '.join(c['paths'][False])}].",
        "",
        f"(* the OCC validation: fields of `current` compared with the caller's base, raising the retryable conflict: {', '.join(c['validated'])} *)",
        f"Definition gen_stamp_eqb (cur_c cur_lu base_c base_lu : Z) : bool :=\n  {conj}.",
        "",
        "(* the stamp of the new version from the clock reading and the VALIDATED version's stamp *)",
        f"Definition gen_new_lu (now cur_lu : Z) : Z :=\n  {c['new_lu']}.",
        "",
        "(* fence + commit-point section: is the unpublished metadata file removed when this class escapes? *)",
        "Definition gen_discard_on (e : exn_class) : bool :=\n  match e with " + " ".join(f"| {k} => {_b(v)}" for k, v in c["discard"].items()) + " end.",
        "",
        "(* _write_hint_at_commit_point: class raised when the write fails *)",
        "Definition gen_flip_exn (cas atomic_write_failures : bool) (err : flip_err) : exn_class :=\n"
        "  match cas, atomic_write_failures, err with\n" +
        "\n".join(f"  | {_b(k[0])}, {_b(k[1])}, {k[2]} => {v}" for k, v in sorted(f.items(), key=lambda kv: (not kv[0][0], not kv[0][1], kv[0][2]))) +
        "\n  | false, _, FEPrecondition => XOther    (* no conditional write is issued: the store cannot refuse one *)\n  end.",
        "",
        "(* _write_hint_at_commit_point: is the pointer read back when the store REFUSES the conditional write, before the refusal is",
        "   called a conflict?  (a re-sent request is refused because its first copy landed)  _hint_write_landed: our write landed iff the",
        "   pointer's content is exactly our metadata file name (names_ours) *)",
        f"Definition gen_refused_reads_back : bool := {_b(rb)}.",
        "Definition gen_write_landed (names_ours : bool) : bool := " + ("names_ours." if rb else "false."),
        "",
        "(* Transaction.commit *)",
        f"Definition gen_max_retries : nat := {t['max_retries']}%nat.",
        "Definition gen_tx_on (e : exn_class) (last_attempt : bool) : tx_action :=\n  match e, last_attempt with\n" +
        "\n".join(f"  | {k[0]}, {_b(k[1])} => {v}" for k, v in t["table"].items()) + "\n  end.",
        "",
        "(* MetadataManager.initialize_table: protocol actions in program order, conditional-write / plain storage *)",
        f"Definition gen_create_path_cas : list paction :=\n  [{'; '.join(cr['paths'][True])}].",
        f"Definition gen_create_path_plain : list paction :=\n  [{'; '.join(cr['paths'][False])}].",
        "(* ... and what a failing creation of the version pointer does *)",
        "Definition gen_create_fail (cas atomic_write_failures : bool) (err : flip_err) : create_fail :=\n"
        "  match cas, atomic_write_failures, err with\n" +
        "\n".join(f"  | {_b(k[0])}, {_b(k[1])}, {k[2]} => {v}" for k, v in sorted(cr["fails"].items(), key=lambda kv: (not kv[0][0], not kv[0][1], kv[0][2]))) +
        "\n  | false, _, FEPrecondition => CFKeepRaise    (* no conditional write is issued *)\n  end.",
        "",
    ]
    return "\n".join(out)


if __name__ == "__main__":
    import sys
    print(gen(sys.argv[1]))
