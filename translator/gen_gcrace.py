"""GenGCRace.v -- the collector's age / protection decision kernels, read off garbage_collector.py (C06).

    GarbageCollector._load_inflight_protection
      gen_marker_cutoff now timeout      `cutoff = time.time() * 1000 - inflight_timeout_ms`   (milliseconds)
      gen_marker_age_ok cutoff stat      the ONLY two assignments of `age_ok`: the comparison of the marker's modification
                                         time (ms) with the cutoff inside the `try`, and the handler's constant when the
                                         marker cannot be stat'ed (stat = None)
      gen_marker_action age_ok           `if age_ok: protected.update(targets) else: <delete the marker>`  -> MProtect / MSweep
      gen_sweep_failure_protects         the handler of the failed marker deletion keeps the protection
    GarbageCollector._gc_prefix
      gen_sweep_cutoff now grace         `cutoff_time = time.time() * 1000 - grace_period_ms`
      gen_delete_guard covered mt cutoff the two tests every `delete_file` of the sweep sits under:
                                         `norm_path not in reachable_set`  and  `get_modified_time(..) * 1000 < cutoff_time`
    GarbageCollector.collect
      gen_collect_marker_arg_ok / gen_collect_sweeps_ok   checked, fail-closed: the marker load receives collect's own
                                         `inflight_timeout_ms` and nothing else; every sweep receives `<reachable> | protected_files`
                                         and collect's own `grace_period_ms`

Fail-closed (Unsupported) rather than emitted, because coq/Model/GCRace.v has no vocabulary for the alternative: another
parameter of the marker load (e.g. the grace period), a further assignment of `age_ok` or of `cutoff`, a further storage call
or helper call in the marker loop (e.g. a look at the marker's target), a deletion outside the two guards of the sweep, a
sweep that is handed another period than the caller's grace period or a set without the in-flight protection.

A change to an emitted definition changes the Gallina term Model/GCRace.v (GMarks, GSweep, GList, GDel) and
Proofs/GCRaceProofs.v are stated over, so C06's invariant proof is re-checked against what the code says now.
"""
from __future__ import annotations

import ast
from typing import Dict, List, Optional

from core import Unsupported, find_function, generator, parse_module, strip_docstring


def _u(n: ast.AST) -> str:
    return ast.unparse(n)


def _cn(c: ast.AST) -> str:
    if not isinstance(c, ast.Call):
        return ""
    parts: List[str] = []
    f = c.func
    while isinstance(f, ast.Attribute):
        parts.append(f.attr)
        f = f.value
    parts.append(f.id if isinstance(f, ast.Name) else "?")
    return ".".join(reversed(parts))


NOW_MS = "time.time() * 1000"
CMP = {ast.GtE: ("{r} <=? {l}"), ast.Gt: ("{r} <? {l}"), ast.LtE: ("{l} <=? {r}"), ast.Lt: ("{l} <? {r}")}


def _zexpr(e: ast.AST, env: Dict[str, str], where: str) -> str:
    """Integer (millisecond) expression over the names of env; `time.time() * 1000` is the clock reading."""
    if _u(e) == NOW_MS:
        return env["<now>"]
    if isinstance(e, ast.Name) and e.id in env:
        return env[e.id]
    if isinstance(e, ast.Constant) and isinstance(e.value, int) and not isinstance(e.value, bool) and abs(e.value) < 10**12:
        return f"({e.value})"
    if isinstance(e, ast.BinOp) and isinstance(e.op, (ast.Sub, ast.Add)):
        op = "-" if isinstance(e.op, ast.Sub) else "+"
        return f"({_zexpr(e.left, env, where)} {op} {_zexpr(e.right, env, where)})"
    raise Unsupported(f"{where}: expression outside the millisecond arithmetic the model knows: {_u(e)}")


def _params(fn: ast.FunctionDef, expect: List[str], where: str) -> None:
    got = [a.arg for a in fn.args.args]
    if got != expect or fn.args.vararg or fn.args.kwarg or fn.args.kwonlyargs:
        raise Unsupported(f"{where}: parameters changed: {got} (the model knows {expect})")


def _stores(fn: ast.AST, name: str) -> List[ast.stmt]:
    out = []
    for n in ast.walk(fn):
        if isinstance(n, (ast.Assign, ast.AnnAssign, ast.AugAssign)):
            tg = n.targets if isinstance(n, ast.Assign) else [n.target]
            for t in tg:
                for x in ast.walk(t):
                    if isinstance(x, ast.Name) and x.id == name:
                        out.append(n)
        elif isinstance(n, (ast.For, ast.comprehension)):
            for x in ast.walk(n.target):
                if isinstance(x, ast.Name) and x.id == name:
                    raise Unsupported(f"`{name}` is a loop variable")
        elif isinstance(n, (ast.With, ast.NamedExpr, ast.ExceptHandler)):
            if (isinstance(n, ast.NamedExpr) and _u(n.target) == name) or (isinstance(n, ast.ExceptHandler) and n.name == name):
                raise Unsupported(f"`{name}` bound by {type(n).__name__}")
    return out


def _calls(fn: ast.AST) -> List[str]:
    return [_cn(n) for n in ast.walk(fn) if isinstance(n, ast.Call)]


def _only_logging(stmts: List[ast.stmt]) -> bool:
    return all(isinstance(s, ast.Expr) and _cn(s.value).startswith("logger.") for s in stmts)


def _gen_markers(gc: ast.Module) -> Dict[str, str]:
    where = "_load_inflight_protection"
    fn = find_function(gc, where, "GarbageCollector")
    _params(fn, ["self", "inflight_timeout_ms"], where)
    # every call of the function is known: a further look at storage (or a helper) could feed the decision
    known = {"set", "time.time", "self.storage.list_files", "GarbageCollectionAborted", "self._normalize_path",
             "self.storage.get_modified_time", "norm_marker.rsplit", "basename.endswith", "self._marker_targets",
             "protected.update", "self.storage.delete_file"}
    for c in _calls(fn):
        if c not in known and not c.startswith("logger."):
            raise Unsupported(f"{where}: call outside the known vocabulary: {c}")
    cut = _stores(fn, "cutoff")
    if not (len(cut) == 1 and isinstance(cut[0], ast.Assign) and cut[0] in fn.body):
        raise Unsupported(f"{where}: `cutoff` is not assigned exactly once at the top level of the function")
    cutoff = _zexpr(cut[0].value, {"<now>": "now", "inflight_timeout_ms": "timeout"}, where + " cutoff")
    loops = [s for s in fn.body if isinstance(s, ast.For)]
    if not (len(loops) == 1 and _u(loops[0].iter) == "markers" and not loops[0].orelse
            and sum(1 for n in ast.walk(fn) if isinstance(n, (ast.For, ast.While))) == 1):
        raise Unsupported(f"{where}: expected exactly one loop, over `markers`")
    if fn.body.index(cut[0]) > fn.body.index(loops[0]):
        raise Unsupported(f"{where}: cutoff computed after the marker loop")
    loop = loops[0]
    # age_ok: exactly the try / except pair
    st = _stores(fn, "age_ok")
    tries = [s for s in loop.body if isinstance(s, ast.Try) and any(x in ast.walk(s) for x in st)]
    if not (len(st) == 2 and len(tries) == 1):
        raise Unsupported(f"{where}: `age_ok` is assigned {len(st)} time(s) (the model knows the stat try/except pair only)")
    tr = tries[0]
    if not (len(tr.body) == 1 and tr.body[0] is st[0] and isinstance(st[0], ast.Assign) and len(tr.handlers) == 1 and not tr.orelse
            and not tr.finalbody and len(tr.handlers[0].body) == 1 and tr.handlers[0].body[0] is st[1] and isinstance(st[1], ast.Assign)
            and _u(tr.handlers[0].type) in ("Exception", "BaseException")):
        raise Unsupported(f"{where}: shape of the marker stat try/except changed")
    cmp_ = st[0].value
    if not (isinstance(cmp_, ast.Compare) and len(cmp_.ops) == 1 and type(cmp_.ops[0]) in CMP
            and _u(cmp_.left) == "self.storage.get_modified_time(norm_marker) * 1000"):
        raise Unsupported(f"{where}: age test is not `get_modified_time(norm_marker) * 1000 <cmp> ...`: {_u(cmp_)}")
    rhs = _zexpr(cmp_.comparators[0], {"<now>": "<clock read inside the loop>", "cutoff": "cutoff"}, where + " age test")
    if "<clock" in rhs:
        raise Unsupported(f"{where}: the age test reads the clock again")
    age_some = CMP[type(cmp_.ops[0])].format(l="mt", r=rhs)
    hv = st[1].value
    if not (isinstance(hv, ast.Constant) and isinstance(hv.value, bool)):
        raise Unsupported(f"{where}: handler of the failed stat does not assign a boolean constant")
    age_none = "true" if hv.value else "false"
    # the decision
    ifs = [s for s in loop.body if isinstance(s, ast.If) and any(isinstance(x, ast.Name) and x.id == "age_ok" for x in ast.walk(s.test))]
    uses = [x for x in ast.walk(fn) if isinstance(x, ast.Name) and x.id == "age_ok" and isinstance(x.ctx, ast.Load)]
    if not (len(ifs) == 1 and len(uses) == 1 and _u(ifs[0].test) == "age_ok" and loop.body.index(ifs[0]) > loop.body.index(tr)):
        raise Unsupported(f"{where}: `age_ok` must be used exactly once, as the test `if age_ok:` after the stat")
    dec = ifs[0]
    if [_u(s) for s in dec.body] != ["protected.update(targets)"]:
        raise Unsupported(f"{where}: the age_ok arm is not `protected.update(targets)`: {[_u(s) for s in dec.body]}")
    rest = [s for s in dec.orelse if not _only_logging([s])]
    if not (len(rest) == 1 and isinstance(rest[0], ast.Try) and [_u(s) for s in rest[0].body] == ["self.storage.delete_file(norm_marker)"]
            and len(rest[0].handlers) == 1 and not rest[0].orelse and not rest[0].finalbody):
        raise Unsupported(f"{where}: the abandoned-marker arm is not `try: self.storage.delete_file(norm_marker) except ...`")
    hb = [s for s in rest[0].handlers[0].body if not _only_logging([s])]
    if [_u(s) for s in hb] == ["protected.update(targets)"]:
        fail_protects = "true"
    elif not hb:
        fail_protects = "false"
    else:
        raise Unsupported(f"{where}: handler of the failed marker deletion: {[_u(s) for s in hb]}")
    # protection is only ever extended, and only in the two places above
    upd = [n for n in ast.walk(fn) if isinstance(n, ast.Call) and _cn(n) == "protected.update"]
    if len(upd) != 1 + (1 if fail_protects == "true" else 0) or len([c for c in _calls(fn) if c == "self.storage.delete_file"]) != 1:
        raise Unsupported(f"{where}: protected.update / delete_file occur outside the decision")
    if len(_stores(fn, "protected")) != 1 or len(_stores(fn, "targets")) != 1:
        raise Unsupported(f"{where}: `protected` / `targets` re-assigned")
    # statements of the loop: nothing but the known ones
    if len(loop.body) != 6:
        raise Unsupported(f"{where}: the marker loop has {len(loop.body)} statements (the model knows 6)")
    return {"cutoff": cutoff, "age_some": age_some, "age_none": age_none, "fail_protects": fail_protects}


def _gen_sweep(gc: ast.Module) -> Dict[str, str]:
    where = "_gc_prefix"
    fn = find_function(gc, where, "GarbageCollector")
    _params(fn, ["self", "prefix", "reachable_set", "grace_period_ms"], where)
    cut = _stores(fn, "cutoff_time")
    if not (len(cut) == 1 and isinstance(cut[0], ast.Assign) and cut[0] in fn.body):
        raise Unsupported(f"{where}: `cutoff_time` is not assigned exactly once at the top level")
    cutoff = _zexpr(cut[0].value, {"<now>": "now", "grace_period_ms": "grace"}, where + " cutoff_time")
    if _stores(fn, "reachable_set"):
        raise Unsupported(f"{where}: reachable_set re-assigned")
    dels = [n for n in ast.walk(fn) if isinstance(n, ast.Call) and _cn(n).endswith("delete_file")]
    if not (len(dels) == 1 and _u(dels[0]) == "self.storage.delete_file(file_rel_path)"):
        raise Unsupported(f"{where}: expected exactly one deletion, `self.storage.delete_file(file_rel_path)`")
    # the chain of tests above the deletion
    guards: List[ast.AST] = []

    def find(stmts: List[ast.stmt], acc: List[ast.AST]) -> Optional[List[ast.AST]]:
        for s in stmts:
            if any(n is dels[0] for n in ast.walk(s)):
                if isinstance(s, ast.If):
                    if any(n is dels[0] for n in ast.walk(s.test)):
                        raise Unsupported(f"{where}: deletion inside a test")
                    if any(n is dels[0] for b in s.orelse for n in ast.walk(b)):
                        raise Unsupported(f"{where}: deletion in an else arm")
                    return find(s.body, acc + [s.test])
                if isinstance(s, ast.For):
                    if s.orelse or _u(s.iter) != "all_files" or _u(s.target) != "file_rel_path":
                        raise Unsupported(f"{where}: loop over the listing changed")
                    return find(s.body, acc)
                if isinstance(s, ast.Try):
                    if not any(n is dels[0] for b in s.body for n in ast.walk(b)):
                        raise Unsupported(f"{where}: deletion in a handler")
                    return find(s.body, acc)
                if isinstance(s, ast.Expr) and s.value is dels[0]:
                    return acc
                raise Unsupported(f"{where}: deletion under {type(s).__name__}")
        return None
    g = find(fn.body, guards)
    if g is None or len(g) != 2:
        raise Unsupported(f"{where}: the deletion sits under {0 if g is None else len(g)} test(s) (the model knows: not covered, older than the cutoff)")
    if _u(g[0]) != "norm_path not in reachable_set":
        raise Unsupported(f"{where}: first guard of the deletion is not `norm_path not in reachable_set`: {_u(g[0])}")
    t = g[1]
    if not (isinstance(t, ast.Compare) and len(t.ops) == 1 and type(t.ops[0]) in CMP
            and _u(t.left) == "self.storage.get_modified_time(file_rel_path) * 1000"):
        raise Unsupported(f"{where}: age guard is not `get_modified_time(file_rel_path) * 1000 <cmp> ...`: {_u(t)}")
    rhs = _zexpr(t.comparators[0], {"<now>": "<clock>", "cutoff_time": "cutoff"}, where + " age guard")
    if "<clock" in rhs:
        raise Unsupported(f"{where}: the age guard reads the clock again")
    np_ = _stores(fn, "norm_path")
    if not (len(np_) == 1 and _u(np_[0].value) == "self._normalize_path(file_rel_path)"):
        raise Unsupported(f"{where}: norm_path is not `self._normalize_path(file_rel_path)`")
    return {"cutoff": cutoff, "old": CMP[type(t.ops[0])].format(l="mt", r=rhs)}


def _check_collect(gc: ast.Module) -> None:
    where = "collect"
    fn = find_function(gc, where, "GarbageCollector")
    _params(fn, ["self", "grace_period_ms", "inflight_timeout_ms"], where)
    for p in ("grace_period_ms", "inflight_timeout_ms", "protected_files"):
        n = len(_stores(fn, p))
        if n != (1 if p == "protected_files" else 0):
            raise Unsupported(f"{where}: `{p}` assigned {n} time(s)")
    lp = [n for n in ast.walk(fn) if isinstance(n, ast.Call) and _cn(n) == "self._load_inflight_protection"]
    if not (len(lp) == 1 and [_u(a) for a in lp[0].args] == ["inflight_timeout_ms"] and not lp[0].keywords):
        raise Unsupported(f"{where}: the marker load is not called once as _load_inflight_protection(inflight_timeout_ms)")
    pf = _stores(fn, "protected_files")[0]
    if not (isinstance(pf, ast.Assign) and pf.value is lp[0] and pf in fn.body):
        raise Unsupported(f"{where}: protected_files is not the result of the marker load")
    sweeps = [n for n in ast.walk(fn) if isinstance(n, ast.Call) and _cn(n) == "self._gc_prefix"]
    if len(sweeps) != 2:
        raise Unsupported(f"{where}: {len(sweeps)} sweeps (the model knows data/ and metadata/manifests)")
    for s in sweeps:
        if s.keywords or len(s.args) != 3:
            raise Unsupported(f"{where}: sweep call shape: {_u(s)}")
        if _u(s.args[2]) != "grace_period_ms":
            raise Unsupported(f"{where}: a sweep is handed `{_u(s.args[2])}` instead of the caller's grace period")
        a = s.args[1]
        if not (isinstance(a, ast.BinOp) and isinstance(a.op, ast.BitOr) and "protected_files" in (_u(a.left), _u(a.right))):
            raise Unsupported(f"{where}: a sweep's covered set is not `<reachable> | protected_files`: {_u(a)}")
    if any(_cn(n).endswith("delete_file") for n in ast.walk(fn) if isinstance(n, ast.Call)):
        raise Unsupported(f"{where}: deletes directly")


@generator("GenGCRace.v")
def gen(src: str) -> str:
    gc = parse_module(src, "garbage_collector.py")
    m = _gen_markers(gc)
    s = _gen_sweep(gc)
    _check_collect(gc)
    out = [
        "(* GENERATED by translator/gen_gcrace.py from garbage_collector.py -- do not edit. *)",
        "From Coq Require Import ZArith Bool.",
        "Require Import DS.Model.GCRaceBase.",
        "Open Scope Z_scope.",
        "",
        "(* _load_inflight_protection: `cutoff` (ms) from the clock reading and the abandonment timeout *)",
        f"Definition gen_marker_cutoff (now timeout : Z) : Z :=\n  {m['cutoff']}.",
        "(* ... `age_ok` from the marker's modification time in ms (None: the marker could not be stat'ed) *)",
        f"Definition gen_marker_age_ok (cutoff : Z) (stat : option Z) : bool :=\n  match stat with Some mt => {m['age_some']} | None => {m['age_none']} end.",
        "(* ... what is done with the marker *)",
        "Definition gen_marker_action (age_ok : bool) : marker_action :=\n  if age_ok then MProtect else MSweep.",
        "(* ... a marker whose deletion fails keeps protecting its file *)",
        f"Definition gen_sweep_failure_protects : bool := {m['fail_protects']}.",
        "",
        "(* _gc_prefix: `cutoff_time` (ms) from the clock reading and the grace period it is handed *)",
        f"Definition gen_sweep_cutoff (now grace : Z) : Z :=\n  {s['cutoff']}.",
        "(* ... the tests the one deletion sits under: not in the covered set (reachable | protected), older than the cutoff *)",
        f"Definition gen_delete_guard (covered : bool) (mt cutoff : Z) : bool :=\n  negb covered && ({s['old']}).",
        "",
        "(* collect: the marker load gets the caller's abandonment timeout; both sweeps get `<reachable> | protected_files`",
        "   and the caller's grace period (checked by the translator, which fails closed otherwise) *)",
        "Definition gen_collect_marker_arg_ok : bool := true.",
        "Definition gen_collect_sweeps_ok : bool := true.",
        "",
    ]
    return "\n".join(out)


if __name__ == "__main__":
    import sys
    print(gen(sys.argv[1]))
