"""GenDoc.v -- what the readers of the metadata-plane DOCUMENTS demand of them, read off the source (C07).

A garbage collection deletes what the documents it read do not name, so the question "which damaged documents does the
reader REFUSE" is part of the collector's logic.  This generator reads the reader code and emits, as terms of
coq/Model/Doc.v `shape`, what that code does with the decoded document:

    gen_metadata_shape          MetadataManager._dict_to_metadata          (metadata_manager.py)   the table metadata JSON
    gen_list_record_shape       FileManager.read_manifest_list_file        (file_manager.py)       one Avro record of a manifest list
    gen_list_json_shape         -- its JSON fallback --                                            a legacy JSON manifest list
    gen_manifest_record_shape   FileManager.read_manifest_file                                     one Avro record of a manifest
    gen_manifest_json_shape     -- its JSON fallback --                                            a legacy JSON manifest
  and where the paths a collection follows come from:
    gen_snapshots_key / gen_manifest_list_key     TableMetadata(snapshots=[Snapshot(manifest_list=D[..][..]) for ..])
    gen_current_snapshot_key / gen_snapshot_id_key   TableMetadata(current_snapshot_id=D[..]) / Snapshot(snapshot_id=item[..])
    gen_list_path_key                             ManifestFile(manifest_path=record[..])
    gen_manifest_file_key / gen_manifest_path_key DataFile(file_path=record[..][..])

Python subset (anything else: Unsupported, fail closed -- the model has no vocabulary for it):
    V["k"]                         required key (KeyError / TypeError when missing / V is not a dict)
    V.get("k") / V.get("k", lit)   optional key (lit: a constant, [] or {})
    [C(..) for x in E]  /  for x in E: ..          E is iterated; x is used as the body says
    if not isinstance(E, list|str|dict): raise     type guard (several joined by `or`)
    C(kw=E, ..)                    a dataclass of data_structures.py; when its __post_init__ can raise, the arguments it
                                   inspects are marked SExt "C.kw" (external validation; today: Schema.fields)
    EnumClass(E)                   SEnum [member values]
    x = E.get("k");  if x: x = {int(k): .. for k, v in x.items()}        optional map with int()-able keys: SExt "intkey_map"
    names bound to lists built earlier, constants, conditional expressions over the above
A call of anything else on the document (a helper that substitutes a default for a missing section, say) is outside
the subset: the generator fails and every theorem stated over GenDoc.v is unproved until the model is re-validated.
"""
from __future__ import annotations

import ast
from typing import Any, Dict, List, Optional, Tuple

from core import Unsupported, coq_str, find_function, generator, parse_module, strip_docstring


class Spec:
    """What the code does with one value of the document."""

    def __init__(self) -> None:
        self.kind = "any"          # any | str | enum | ext | seq | rec
        self.strict = False
        self.item: Optional["Spec"] = None
        self.req: Dict[str, "Spec"] = {}
        self.opt: Dict[str, "Spec"] = {}
        self.name = ""
        self.values: List[Any] = []

    def _become(self, kind: str, what: str) -> None:
        if self.kind == "any":
            self.kind = kind
        elif self.kind != kind:
            raise Unsupported(f"{what}: a value is used both as {self.kind} and as {kind}")

    def rec(self, what: str) -> "Spec":
        self._become("rec", what)
        return self

    def seq(self, strict: bool, what: str) -> "Spec":
        self._become("seq", what)
        self.strict = self.strict or strict
        if self.item is None:
            self.item = Spec()
        return self.item

    def render(self) -> str:
        if self.kind == "any":
            return "SAny"
        if self.kind == "str":
            return "SStr"
        if self.kind == "enum":
            vs = "; ".join(f"JStr {coq_str(v)}" if isinstance(v, str) else f"JNum ({int(v)})%Z" for v in self.values)
            return f"(SEnum [{vs}])"
        if self.kind == "ext":
            return f"(SExt {coq_str(self.name)})"
        if self.kind == "seq":
            assert self.item is not None
            return f"(SSeq {'true' if self.strict else 'false'} {self.item.render()})"
        return f"(SRec {_fields(self.req)} {_fields(self.opt)})"


def _fields(d: Dict[str, Spec]) -> str:
    out = "FNil"
    for k in reversed(list(d)):
        out = f"(FCons {coq_str(k)} {d[k].render()} {out})"
    return out


def _const_key(n: ast.AST, what: str) -> str:
    if isinstance(n, ast.Constant) and isinstance(n.value, str):
        return n.value
    raise Unsupported(f"{what}: key is not a string literal: {ast.unparse(n)}")


def _is_literal_default(n: ast.AST) -> bool:
    return isinstance(n, ast.Constant) or (isinstance(n, ast.List) and not n.elts) or (isinstance(n, ast.Dict) and not n.keys)


class Classes:
    """data_structures.py: dataclasses (which of them validate in __post_init__, and what they inspect) and enums."""

    def __init__(self, ds: ast.Module):
        self.validating: Dict[str, List[str]] = {}
        self.plain: List[str] = []
        self.enums: Dict[str, List[Any]] = {}
        for node in ds.body:
            if not isinstance(node, ast.ClassDef):
                continue
            bases = [ast.unparse(b) for b in node.bases]
            if "Enum" in bases:
                vals = []
                for s in node.body:
                    if isinstance(s, ast.Assign) and isinstance(s.value, ast.Constant) and isinstance(s.value.value, (str, int)):
                        vals.append(s.value.value)
                    elif isinstance(s, ast.Expr) and isinstance(s.value, ast.Constant):
                        continue
                    else:
                        raise Unsupported(f"enum {node.name}: member form {ast.unparse(s)}")
                self.enums[node.name] = vals
                continue
            raising = [n for n in ast.walk(node) if isinstance(n, ast.Raise)]
            if not raising:
                self.plain.append(node.name)
                continue
            post = [s for s in node.body if isinstance(s, ast.FunctionDef) and s.name == "__post_init__"]
            others = [s for s in node.body if isinstance(s, ast.FunctionDef) and s.name != "__post_init__"
                      and any(isinstance(n, ast.Raise) for n in ast.walk(s))]
            if len(post) != 1 or others:
                raise Unsupported(f"class {node.name}: raises outside __post_init__")
            attrs = sorted({n.attr for n in ast.walk(post[0]) if isinstance(n, ast.Attribute) and isinstance(n.value, ast.Name) and n.value.id == "self"})
            self.validating[node.name] = attrs


class Walker:
    def __init__(self, classes: Classes, aliases: Dict[str, str], what: str):
        self.cl = classes
        self.aliases = aliases
        self.what = what
        self.built: Dict[str, Dict[str, Any]] = {}      # names bound to lists / objects built from the document
        self.flows: Dict[Tuple[str, str], List[str]] = {}  # (class, kwarg) -> key path below the iterated item / record

    # ---- document-valued expressions
    def val(self, e: ast.AST, env: Dict[str, Spec]) -> Optional[Spec]:
        if isinstance(e, ast.Name) and e.id in env:
            return env[e.id]
        if isinstance(e, ast.Subscript):
            s = self.val(e.value, env)
            if s is None:
                return None
            k = _const_key(e.slice, self.what)
            return s.rec(self.what).req.setdefault(k, Spec())
        if isinstance(e, ast.Call) and isinstance(e.func, ast.Attribute) and e.func.attr == "get" and not e.keywords and 1 <= len(e.args) <= 2:
            s = self.val(e.func.value, env)
            if s is None:
                return None
            if len(e.args) == 2 and not _is_literal_default(e.args[1]):
                raise Unsupported(f"{self.what}: .get() default is not a literal: {ast.unparse(e)}")
            k = _const_key(e.args[0], self.what)
            return s.rec(self.what).opt.setdefault(k, Spec())
        return None

    def path_of(self, e: ast.AST, root: str) -> Optional[List[str]]:
        """[k1, k2] when e is root["k1"]["k2"]."""
        ks: List[str] = []
        while isinstance(e, ast.Subscript) and isinstance(e.slice, ast.Constant) and isinstance(e.slice.value, str):
            ks.append(e.slice.value)
            e = e.value
        if isinstance(e, ast.Name) and e.id == root and ks:
            return list(reversed(ks))
        return None

    # ---- expressions consumed as values
    def use(self, e: ast.AST, env: Dict[str, Spec], roots: Dict[str, str]) -> None:
        if self.val(e, env) is not None:
            return
        if isinstance(e, ast.Constant) or (isinstance(e, (ast.List, ast.Dict)) and _is_literal_default(e)):
            return
        if isinstance(e, ast.Name) and e.id in self.built:
            return
        if isinstance(e, ast.IfExp):
            for p in (e.test, e.body, e.orelse):
                self.use(p, env, roots)
            return
        if isinstance(e, ast.Compare) and all(isinstance(o, (ast.Is, ast.IsNot)) for o in e.ops):
            for p in [e.left] + list(e.comparators):
                self.use(p, env, roots)
            return
        if isinstance(e, ast.Call) and isinstance(e.func, ast.Name) and not (e.args and e.keywords):
            cname = self.aliases.get(e.func.id, e.func.id)
            if cname in self.cl.enums and len(e.args) == 1:
                s = self.val(e.args[0], env)
                if s is None:
                    raise Unsupported(f"{self.what}: {cname}() of a value that is not read off the document")
                s._become("enum", self.what)
                s.values = list(self.cl.enums[cname])
                return
            if (cname in self.cl.plain or cname in self.cl.validating) and not e.args:
                for kw in e.keywords:
                    if kw.arg is None:
                        raise Unsupported(f"{self.what}: **kwargs in {cname}(...)")
                    self.use(kw.value, env, roots)
                    for var, root in roots.items():
                        p = self.path_of(kw.value, var)
                        if p is not None:
                            self.flows[(cname, kw.arg)] = p
                    if cname in self.cl.validating and kw.arg in self.cl.validating[cname]:
                        s = self.val(kw.value, env)
                        if s is None:
                            continue
                        if s.kind == "any" and not s.req and not s.opt:
                            # an optional argument (V.get) that the constructor inspects only for truthiness is fine;
                            # a required one is handed to the validation
                            if isinstance(kw.value, ast.Subscript):
                                s.kind, s.name = "ext", f"{cname}.{kw.arg}"
                return
        raise Unsupported(f"{self.what}: expression outside the subset: {ast.unparse(e)[:160]}")

    # ---- statements
    def guard(self, t: ast.AST, env: Dict[str, Spec]) -> bool:
        """`not isinstance(E, T)` (or several joined by `or`) -> True when recognised."""
        if isinstance(t, ast.BoolOp) and isinstance(t.op, ast.Or):
            return all(self.guard(v, env) for v in t.values)
        if not (isinstance(t, ast.UnaryOp) and isinstance(t.op, ast.Not) and isinstance(t.operand, ast.Call)
                and isinstance(t.operand.func, ast.Name) and t.operand.func.id == "isinstance" and len(t.operand.args) == 2
                and isinstance(t.operand.args[1], ast.Name)):
            return False
        s = self.val(t.operand.args[0], env)
        ty = t.operand.args[1].id
        if s is None:
            return False
        if ty == "list":
            s.seq(True, self.what)
        elif ty == "str":
            s._become("str", self.what)
        elif ty == "dict":
            s.rec(self.what)
        else:
            return False
        return True

    def walk(self, body: List[ast.stmt], env: Dict[str, Spec], roots: Dict[str, str]) -> None:
        body = strip_docstring(body)
        i = 0
        while i < len(body):
            s = body[i]
            i += 1
            if isinstance(s, (ast.ImportFrom, ast.Import, ast.Pass)):
                continue
            if isinstance(s, ast.Expr) and isinstance(s.value, ast.Call) and isinstance(s.value.func, ast.Attribute) \
                    and isinstance(s.value.func.value, ast.Name) and s.value.func.value.id == "logger":
                continue
            if isinstance(s, ast.AnnAssign) and isinstance(s.target, ast.Name) and s.value is not None:
                s = ast.Assign(targets=[s.target], value=s.value)
            if isinstance(s, ast.Assign) and len(s.targets) == 1 and isinstance(s.targets[0], ast.Name):
                name, v = s.targets[0].id, s.value
                sp = self.val(v, env)
                if sp is not None:
                    env[name] = sp                                   # alias of a value of the document
                    if isinstance(v, ast.Name) and v.id in roots:
                        roots[name] = roots[v.id]
                    elif isinstance(v, ast.Subscript):
                        for var in list(roots):
                            p = self.path_of(v, var)
                            if p is not None:
                                roots[name] = roots[var] + "/" + "/".join(p)
                    continue
                if isinstance(v, ast.ListComp):
                    if len(v.generators) != 1 or v.generators[0].ifs or v.generators[0].is_async or not isinstance(v.generators[0].target, ast.Name):
                        raise Unsupported(f"{self.what}: comprehension form: {ast.unparse(v)[:120]}")
                    g = v.generators[0]
                    it = self.val(g.iter, env)
                    if it is None:
                        raise Unsupported(f"{self.what}: comprehension over something that is not read off the document: {ast.unparse(g.iter)[:120]}")
                    item = it.seq(False, self.what)
                    env2 = dict(env)
                    env2[g.target.id] = item
                    roots2 = dict(roots)
                    roots2[g.target.id] = "item"
                    self.use(v.elt, env2, roots2)
                    sect = None
                    for var in roots:
                        p = self.path_of(g.iter, var)
                        if p is not None and len(p) == 1:
                            sect = p[0]
                    ctor = self.aliases.get(v.elt.func.id, v.elt.func.id) if isinstance(v.elt, ast.Call) and isinstance(v.elt.func, ast.Name) else None
                    self.built[name] = {"section": sect, "ctor": ctor, "itemvar": g.target.id}
                    continue
                if isinstance(v, ast.List) and not v.elts:
                    self.built[name] = {"section": None, "ctor": None}
                    continue
                if isinstance(v, ast.Call) and isinstance(v.func, ast.Name):
                    self.use(v, env, roots)
                    self.built[name] = {"section": None, "ctor": self.aliases.get(v.func.id, v.func.id)}
                    continue
                raise Unsupported(f"{self.what}: assignment form: {ast.unparse(s)[:160]}")
            if isinstance(s, ast.For) and isinstance(s.target, ast.Name) and not s.orelse:
                it = self.val(s.iter, env)
                if it is None:
                    raise Unsupported(f"{self.what}: loop over something that is not read off the document: {ast.unparse(s.iter)[:120]}")
                item = it.seq(False, self.what)
                env2 = dict(env)
                env2[s.target.id] = item
                roots2 = dict(roots)
                roots2[s.target.id] = "item"
                self.walk(s.body, env2, roots2)
                continue
            if isinstance(s, ast.Expr) and isinstance(s.value, ast.Call) and isinstance(s.value.func, ast.Attribute) \
                    and s.value.func.attr == "append" and isinstance(s.value.func.value, ast.Name) and s.value.func.value.id not in env \
                    and len(s.value.args) == 1:
                self.use(s.value.args[0], env, roots)
                continue
            if isinstance(s, ast.If) and not s.orelse and len(s.body) == 1 and isinstance(s.body[0], ast.Raise):
                if self.guard(s.test, env):
                    continue
                raise Unsupported(f"{self.what}: guard form: {ast.unparse(s.test)[:160]}")
            if isinstance(s, ast.If) and not s.orelse and isinstance(s.test, ast.Name) and s.test.id in env and len(s.body) == 1:
                # x = E.get("k"); if x: x = {int(k): .. for k, v in x.items()}
                a = s.body[0]
                x = s.test.id
                if (isinstance(a, ast.Assign) and len(a.targets) == 1 and isinstance(a.targets[0], ast.Name) and a.targets[0].id == x
                        and isinstance(a.value, ast.DictComp) and len(a.value.generators) == 1
                        and ast.unparse(a.value.generators[0].iter) == f"{x}.items()" and not a.value.generators[0].ifs
                        and ast.unparse(a.value.key) == f"int({ast.unparse(a.value.generators[0].target.elts[0])})"):
                    sp = env[x]
                    if sp.kind != "any" or sp.req or sp.opt:
                        raise Unsupported(f"{self.what}: {x} is used otherwise before its conversion")
                    sp.kind, sp.name = "ext", "intkey_map"
                    continue
                raise Unsupported(f"{self.what}: conditional conversion form: {ast.unparse(s)[:160]}")
            if isinstance(s, ast.Return):
                if s.value is not None:
                    self.use(s.value, env, roots)
                continue
            raise Unsupported(f"{self.what}: statement outside the subset: {ast.unparse(s)[:160]}")


def _aliases(fn: ast.FunctionDef, mod: ast.Module) -> Dict[str, str]:
    out: Dict[str, str] = {}
    for node in list(mod.body) + [n for n in ast.walk(fn) if isinstance(n, ast.ImportFrom)]:
        if isinstance(node, ast.ImportFrom) and node.module and node.module.endswith("data_structures"):
            for a in node.names:
                out[a.asname or a.name] = a.name
    return out


def _avro_loop(fn: ast.FunctionDef, what: str) -> ast.For:
    """The `for record_raw in reader:` loop of the Avro attempt (first Try of the function)."""
    tries = [s for s in fn.body if isinstance(s, ast.Try)]
    if len(tries) != 2:
        raise Unsupported(f"{what}: expected the Avro attempt and the JSON fallback as two try statements")
    loops = [n for n in ast.walk(tries[0]) if isinstance(n, ast.For) and isinstance(n.iter, ast.Name) and n.iter.id == "reader"]
    if len(loops) != 1:
        raise Unsupported(f"{what}: `for .. in reader` not found")
    return loops[0]


def _json_part(fn: ast.FunctionDef, what: str) -> Tuple[str, List[ast.stmt]]:
    """(name bound to json.loads(..), the statements after it) of the JSON fallback (second Try)."""
    tr = [s for s in fn.body if isinstance(s, ast.Try)][1]
    first = tr.body[0]
    if not (isinstance(first, ast.Assign) and isinstance(first.targets[0], ast.Name) and isinstance(first.value, ast.Call)
            and ast.unparse(first.value.func) == "json.loads"):
        raise Unsupported(f"{what}: JSON fallback does not start with X = json.loads(..)")
    return first.targets[0].id, tr.body[1:]


def _json_key(body: List[ast.stmt], name: str, what: str) -> str:
    """`for x in NAME.get("key", [])` / `for x in NAME["key"]` -> key (which of the two it is shows in the shape: the key is
    optional resp. required)."""
    for s in body:
        if isinstance(s, ast.For) and isinstance(s.iter, ast.Call) and isinstance(s.iter.func, ast.Attribute) and s.iter.func.attr == "get" \
                and isinstance(s.iter.func.value, ast.Name) and s.iter.func.value.id == name and s.iter.args:
            return _const_key(s.iter.args[0], what)
        if isinstance(s, ast.For) and isinstance(s.iter, ast.Subscript) and isinstance(s.iter.value, ast.Name) and s.iter.value.id == name:
            return _const_key(s.iter.slice, what)
    raise Unsupported(f"{what}: `for .. in {name}.get(key, [])` / `for .. in {name}[key]` not found")


def _flow(w: Walker, cls: str, kw: str, what: str) -> List[str]:
    if (cls, kw) not in w.flows:
        raise Unsupported(f"{what}: {cls}({kw}=...) is not read straight off the document")
    return w.flows[(cls, kw)]


@generator("GenDoc.v")
def gen_meta(src: str) -> str:
    mm = parse_module(src, "metadata_manager.py")
    fm = parse_module(src, "file_manager.py")
    cl = Classes(parse_module(src, "data_structures.py"))

    # ---- table metadata
    fn = find_function(mm, "_dict_to_metadata", cls="MetadataManager")
    args = [a.arg for a in fn.args.args]
    if len(args) != 2:
        raise Unsupported("_dict_to_metadata: signature")
    w = Walker(cl, _aliases(fn, mm), "_dict_to_metadata")
    root = Spec()
    w.walk(fn.body, {args[1]: root}, {args[1]: ""})
    rets = [s for s in fn.body if isinstance(s, ast.Return)]
    if len(rets) != 1 or not (isinstance(rets[0].value, ast.Call) and isinstance(rets[0].value.func, ast.Name)
                              and w.aliases.get(rets[0].value.func.id, rets[0].value.func.id) == "TableMetadata"):
        raise Unsupported("_dict_to_metadata: does not end in `return TableMetadata(...)`")
    snaps_kw = [kw for kw in rets[0].value.keywords if kw.arg == "snapshots"]
    if len(snaps_kw) != 1 or not isinstance(snaps_kw[0].value, ast.Name) or snaps_kw[0].value.id not in w.built:
        raise Unsupported("_dict_to_metadata: TableMetadata(snapshots=...) is not a list built from the document")
    b = w.built[snaps_kw[0].value.id]
    if b.get("section") is None or b.get("ctor") != "Snapshot":
        raise Unsupported("_dict_to_metadata: snapshots is not [Snapshot(...) for x in <document>[key]]")
    ml = _flow(w, "Snapshot", "manifest_list", "_dict_to_metadata")
    if len(ml) != 1:
        raise Unsupported("_dict_to_metadata: Snapshot(manifest_list=...) is not item[key]")
    sid = _flow(w, "Snapshot", "snapshot_id", "_dict_to_metadata")
    cur = _flow(w, "TableMetadata", "current_snapshot_id", "_dict_to_metadata")
    if len(sid) != 1 or len(cur) != 1:
        raise Unsupported("_dict_to_metadata: Snapshot(snapshot_id=...) / TableMetadata(current_snapshot_id=...) is not V[key]")

    # ---- manifest list
    fl = find_function(fm, "read_manifest_list_file", cls="FileManager")
    wl = Walker(cl, _aliases(fl, fm), "read_manifest_list_file (Avro)")
    loop = _avro_loop(fl, wl.what)
    lrec = Spec()
    wl.walk(loop.body, {loop.target.id: lrec}, {loop.target.id: "record"})
    lpath = _flow(wl, "ManifestFile", "manifest_path", wl.what)
    wlj = Walker(cl, wl.aliases, "read_manifest_list_file (JSON)")
    jn, jbody = _json_part(fl, wlj.what)
    ljson = Spec()
    wlj.walk(jbody, {jn: ljson}, {jn: ""})

    # ---- manifest
    fmf = find_function(fm, "read_manifest_file", cls="FileManager")
    wm = Walker(cl, _aliases(fmf, fm), "read_manifest_file (Avro)")
    loop2 = _avro_loop(fmf, wm.what)
    mrec = Spec()
    wm.walk(loop2.body, {loop2.target.id: mrec}, {loop2.target.id: "record"})
    wmj = Walker(cl, wm.aliases, "read_manifest_file (JSON)")
    jn2, jbody2 = _json_part(fmf, wmj.what)
    mjson = Spec()
    wmj.walk(jbody2, {jn2: mjson}, {jn2: ""})
    # DataFile(file_path=df_record["file_path"]) with df_record = record["data_file"]
    dkw = None
    for n in ast.walk(loop2):
        if isinstance(n, ast.Call) and isinstance(n.func, ast.Name) and wm.aliases.get(n.func.id, n.func.id) == "DataFile":
            for kw in n.keywords:
                if kw.arg == "file_path":
                    dkw = kw.value
    if not (isinstance(dkw, ast.Subscript) and isinstance(dkw.value, ast.Name) and isinstance(dkw.slice, ast.Constant)):
        raise Unsupported("read_manifest_file: DataFile(file_path=...) is not V[key]")
    holder = None
    for n in ast.walk(loop2):
        tgt = n.target if isinstance(n, ast.AnnAssign) else (n.targets[0] if isinstance(n, ast.Assign) else None)
        if isinstance(tgt, ast.Name) and tgt.id == dkw.value.id and getattr(n, "value", None) is not None:
            p = wm.path_of(n.value, "record")
            if p is not None and len(p) == 1:
                holder = p[0]
    if holder is None:
        raise Unsupported("read_manifest_file: the record holding file_path is not record[key]")

    return f"""(* GENERATED by translator/gen_doc.py from metadata_manager.py / file_manager.py / data_structures.py -- do not edit. *)
From Coq Require Import ZArith List String.
Require Import DS.Model.Doc.
Import ListNotations.
Open Scope string_scope.

(* MetadataManager._dict_to_metadata: what it does with the decoded metadata JSON *)
Definition gen_metadata_shape : shape :=
  {root.render()}.
(* TableMetadata(snapshots=[Snapshot(manifest_list=item[K2], ..) for item in D[K1]]) *)
Definition gen_snapshots_key : string := {coq_str(b['section'])}.
Definition gen_manifest_list_key : string := {coq_str(ml[0])}.
(* TableMetadata(current_snapshot_id=D[K], snapshots=[Snapshot(snapshot_id=item[K'], ..) ..]) *)
Definition gen_current_snapshot_key : string := {coq_str(cur[0])}.
Definition gen_snapshot_id_key : string := {coq_str(sid[0])}.

(* FileManager.read_manifest_list_file: one record of the Avro container / the legacy JSON document *)
Definition gen_list_record_shape : shape :=
  {lrec.render()}.
Definition gen_list_path_key : string := {coq_str(lpath[0])}.
Definition gen_list_json_shape : shape :=
  {ljson.render()}.
Definition gen_list_json_key : string := {coq_str(_json_key(jbody, jn, wlj.what))}.

(* FileManager.read_manifest_file *)
Definition gen_manifest_record_shape : shape :=
  {mrec.render()}.
Definition gen_manifest_file_key : string := {coq_str(holder)}.
Definition gen_manifest_path_key : string := {coq_str(dkw.slice.value)}.
Definition gen_manifest_json_shape : shape :=
  {mjson.render()}.
Definition gen_manifest_json_key : string := {coq_str(_json_key(jbody2, jn2, wmj.what))}.
"""
