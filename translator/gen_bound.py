"""GenBound.v -- file_manager.FileManager._encode_bound / _decode_bound, translated.

_encode_bound: the isinstance chain (ORDER matters: bool before int, datetime before date) becomes
`gen_encode : value -> string * jpayload`; _decode_bound's tag dispatch becomes
`gen_decode_tag : string -> jpayload -> option value`.  The JSON wrapping around them (json.dumps /
json.loads of {"t": tag, "v": payload}, the legacy fallback for untagged strings) is pinned by golden AST
and modelled in Model/Bound.v.
"""
from __future__ import annotations

import ast
import re
from typing import List

from core import Unsupported, coq_str, dump, find_function, generator, parse_module, strip_docstring

TYPE_TEST = {"bool": "inst_bool", "int": "inst_int", "float": "inst_float", "datetime": "inst_datetime", "date": "inst_date",
             "dt_time": "inst_time", "str": "inst_str"}


def payload_expr(n: ast.AST) -> str:
    if isinstance(n, ast.Name) and n.id == "value":
        return "(pv_raw value)"
    if (isinstance(n, ast.Call) and isinstance(n.func, ast.Attribute) and n.func.attr == "isoformat"
            and isinstance(n.func.value, ast.Name) and n.func.value.id == "value" and not n.args):
        return "(pv_iso value)"
    if isinstance(n, ast.Call) and isinstance(n.func, ast.Name) and n.func.id == "str" and len(n.args) == 1 \
            and isinstance(n.args[0], ast.Name) and n.args[0].id == "value":
        return "(pv_str value)"
    raise Unsupported(f"payload expression not supported: {dump(n)}")


def payload_dict(s: ast.stmt) -> str:
    val = s.value if isinstance(s, (ast.Assign, ast.AnnAssign)) else None
    if val is None or not isinstance(val, ast.Dict) or len(val.keys) != 2:
        raise Unsupported(f"encode branch is not `payload = {{'t':..,'v':..}}`: {dump(s)}")
    keys = [k.value if isinstance(k, ast.Constant) else None for k in val.keys]
    if keys != ["t", "v"] or not isinstance(val.values[0], ast.Constant) or not isinstance(val.values[0].value, str):
        raise Unsupported(f"payload dict shape: {dump(val)}")
    return f"({coq_str(val.values[0].value)}%string, {payload_expr(val.values[1])})"


def encode_chain(node: ast.stmt) -> str:
    if not isinstance(node, ast.If):
        raise Unsupported("encode: expected an if-chain")
    t = node.test
    if not (isinstance(t, ast.Call) and isinstance(t.func, ast.Name) and t.func.id == "isinstance" and len(t.args) == 2
            and isinstance(t.args[0], ast.Name) and t.args[0].id == "value" and isinstance(t.args[1], ast.Name)):
        raise Unsupported(f"encode: test is not isinstance(value, T): {dump(t)}")
    ty = t.args[1].id
    if ty not in TYPE_TEST:
        raise Unsupported(f"encode: unknown type {ty}")
    if len(node.body) != 1:
        raise Unsupported("encode: branch body must be one assignment")
    then = payload_dict(node.body[0])
    if len(node.orelse) == 1 and isinstance(node.orelse[0], ast.If):
        els = encode_chain(node.orelse[0])
    elif len(node.orelse) == 1:
        els = payload_dict(node.orelse[0])
    else:
        raise Unsupported("encode: else branch shape")
    return f"(if {TYPE_TEST[ty]} value then {then}\n   else {els})"


DEC = {"bool": "py_bool", "int": "py_int", "float": "py_float", "str": "py_str"}
DEC_ATTR = {("datetime", "fromisoformat"): "py_ts_fromiso", ("date", "fromisoformat"): "py_date_fromiso",
            ("dt_time", "fromisoformat"): "py_time_fromiso"}


def decode_chain(stmts: List[ast.stmt]) -> str:
    out = "(Some (raw_value v))"       # fall through: `return v`
    for s in reversed(stmts):
        if not (isinstance(s, ast.If) and not s.orelse and len(s.body) == 1 and isinstance(s.body[0], ast.Return)):
            raise Unsupported(f"decode: dispatch statement shape: {dump(s)}")
        t = s.test
        if not (isinstance(t, ast.Compare) and isinstance(t.left, ast.Name) and t.left.id == "tag" and len(t.ops) == 1
                and isinstance(t.ops[0], ast.Eq) and isinstance(t.comparators[0], ast.Constant)):
            raise Unsupported(f"decode: test shape: {dump(t)}")
        tag = t.comparators[0].value
        r = s.body[0].value
        if isinstance(r, ast.Call) and isinstance(r.func, ast.Name) and r.func.id in DEC and len(r.args) == 1:
            fn = DEC[r.func.id]
        elif isinstance(r, ast.Call) and isinstance(r.func, ast.Attribute) and isinstance(r.func.value, ast.Name) \
                and (r.func.value.id, r.func.attr) in DEC_ATTR:
            fn = DEC_ATTR[(r.func.value.id, r.func.attr)]
        else:
            raise Unsupported(f"decode: conversion not supported: {dump(r)}")
        out = f"(if String.eqb tag {coq_str(tag)} then {fn} v\n   else {out})"
    return out


DECODE_SKELETON = re.sub(r"\s+", "", """
[If(UnaryOp(Not(), Call(Name('isinstance', Load()), [Name('raw', Load()), Name('str', Load())], [])), [Return(Name('raw', Load()))], []),
 Try([Assign([Name('payload', Store())], Call(Attribute(Name('json', Load()), 'loads', Load()), [Name('raw', Load())], []))],
     [ExceptHandler(Tuple([Name('ValueError', Load()), Name('TypeError', Load())], Load()), body=[Return(Call(Attribute(Name('cls', Load()), '_infer_value_legacy', Load()), [Name('raw', Load())], []))])], [], []),
 If(BoolOp(Or(), [UnaryOp(Not(), Call(Name('isinstance', Load()), [Name('payload', Load()), Name('dict', Load())], [])), Compare(Constant('t'), [NotIn()], [Name('payload', Load())]), Compare(Constant('v'), [NotIn()], [Name('payload', Load())])]), [Return(Call(Attribute(Name('cls', Load()), '_infer_value_legacy', Load()), [Name('raw', Load())], []))], []),
 Assign([Tuple([Name('tag', Store()), Name('v', Store())], Store())], Tuple([Subscript(Name('payload', Load()), Constant('t'), Load()), Subscript(Name('payload', Load()), Constant('v'), Load())], Load())),
 Try([Pass()], [ExceptHandler(Tuple([Name('ValueError', Load()), Name('TypeError', Load())], Load()), body=[Return(Name('v', Load()))])], [], []),
 Return(Name('v', Load()))]
""")


@generator("GenBound.v")
def gen_bound(src: str) -> str:
    mod = parse_module(src, "file_manager.py")
    enc = find_function(mod, "_encode_bound", cls="FileManager")
    body = strip_docstring(enc.body)
    if len(body) != 2 or not isinstance(body[1], ast.Return):
        raise Unsupported(f"_encode_bound: expected [if-chain, return json.dumps(payload)], got {len(body)} statements")
    ret = body[1].value
    if not (isinstance(ret, ast.Call) and isinstance(ret.func, ast.Attribute) and ret.func.attr == "dumps"
            and len(ret.args) == 1 and isinstance(ret.args[0], ast.Name) and ret.args[0].id == "payload" and not ret.keywords):
        raise Unsupported(f"_encode_bound: return is not json.dumps(payload): {dump(ret)}")
    enc_term = encode_chain(body[0])

    dec = find_function(mod, "_decode_bound", cls="FileManager")
    dbody = strip_docstring(dec.body)
    try:
        tr = dbody[4]
        assert isinstance(tr, ast.Try)
    except Exception:
        raise Unsupported("_decode_bound: tag-dispatch try block not found")
    dispatch = tr.body
    tr.body = [ast.Pass()]
    got = re.sub(r"\s+", "", dump(dbody)).replace(",)", ")")
    tr.body = dispatch
    if got != DECODE_SKELETON.replace(",)", ")"):
        raise Unsupported(f"_decode_bound skeleton changed.\n expected {DECODE_SKELETON}\n got      {got}")
    dec_term = decode_chain(dispatch)
    return f"""(* GENERATED by translator/gen_bound.py from src/datashard/file_manager.py::_encode_bound/_decode_bound -- do not edit *)
From Coq Require Import ZArith List Bool String.
Require Import DS.Model.Value DS.Model.BoundPrim.
Import ListNotations.

(* _encode_bound: first matching isinstance branch -> (tag, payload) *)
Definition gen_encode (value : value) : string * jpayload :=
  {enc_term}.

(* _decode_bound's dispatch on the tag (inside `try: ... except (ValueError, TypeError): return v`;
   a conversion that raises is `None` here and handled by Model/Bound.v) *)
Definition gen_decode_tag (tag : string) (v : jpayload) : option value :=
  {dec_term}.
"""
