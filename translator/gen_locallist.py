"""GenLocalList.v -- which operating-system failures LocalStorageBackend.list_files turns into "no files" (C07).

The garbage collector takes an empty listing of metadata/inflight as "no transaction in flight" and an empty listing of a
sweep prefix as "nothing to sweep".  A listing that FAILED must therefore not read as an empty one.  list_files has two places
where a failure of the operating system can be swallowed, and both are read off the source:

  gen_local_list_probe_reads_empty absent   the guard in front of the walk: does a failure to look at the prefix return []?
                                            `if not os.path.exists(p): return []`  -> for EVERY failure (exists() answers
                                            False for all of them);  `try: os.stat(p) except (<classes>): return []` -> for
                                            the classes caught
  gen_local_list_walk_skips absent          os.walk(p) without `onerror` skips every directory it cannot scan; with
                                            `onerror=<local function>` whose body is `if isinstance(err, (<classes>)): return`
                                            followed by `raise err`: the classes named

`absent` = true stands for the failures that mean "the object is not there" (FileNotFoundError, NotADirectoryError); false for
every other OSError (EACCES, EIO, ESTALE, ...).  Anything the translator does not recognise raises Unsupported.
"""
from __future__ import annotations

import ast
from typing import List, Optional

from core import Unsupported, dump, find_function, generator, parse_module, strip_docstring

ABSENT = {"FileNotFoundError", "NotADirectoryError"}


def _classes(n: Optional[ast.expr]) -> List[str]:
    if n is None:
        return ["BaseException"]
    elts = n.elts if isinstance(n, ast.Tuple) else [n]
    out = []
    for e in elts:
        if not isinstance(e, ast.Name):
            raise Unsupported(f"list_files: exception class expression not supported: {ast.unparse(e)}")
        out.append(e.id)
    return out


def _term(classes: List[str]) -> str:
    """the failures covered by `classes`, as a predicate over `absent`"""
    if not classes:
        return "false"
    return "absent" if set(classes) <= ABSENT else "true"


def _is_empty_return(s: ast.stmt) -> bool:
    return isinstance(s, ast.Return) and s.value is not None and dump(s.value) == "List([], Load())"


def _calls(n: ast.AST, dotted: str) -> List[ast.Call]:
    return [x for x in ast.walk(n) if isinstance(x, ast.Call) and ast.unparse(x.func) == dotted]


def kernel(fn: ast.FunctionDef) -> dict:
    body = strip_docstring(fn.body)
    walks = _calls(fn, "os.walk")
    if len(walks) != 1:
        raise Unsupported(f"list_files: expected exactly one os.walk call, found {len(walks)}")
    if _calls(fn, "os.scandir") or _calls(fn, "os.listdir") or _calls(fn, "glob.glob"):
        raise Unsupported("list_files: lists directories by other means than os.walk")
    # ---- the guard(s) in front of the walk: every top-level statement that can `return []`
    probe: List[str] = []
    for s in body:
        if isinstance(s, ast.If) and any(_is_empty_return(x) for x in s.body):
            t = ast.unparse(s.test)
            if t.startswith("not os.path.exists(") or t.startswith("not os.path.isdir(") or t.startswith("not os.path.lexists("):
                probe.append("true")           # os.path.exists / isdir answer False for EVERY OSError
            elif "S_ISDIR" in t or "st_mode" in t:
                continue                       # a successful stat that shows a non-directory: not a failure
            else:
                raise Unsupported(f"list_files: `if {t}: return []` -- cannot tell which failures make it true")
        elif isinstance(s, ast.Try) and any(_is_empty_return(x) for h in s.handlers for x in h.body):
            for h in s.handlers:
                if any(_is_empty_return(x) for x in h.body):
                    probe.append(_term(_classes(h.type)))
                elif not any(isinstance(x, ast.Raise) for x in h.body):
                    raise Unsupported("list_files: a handler of the prefix probe neither returns [] nor raises")
        elif any(_is_empty_return(x) for x in ast.walk(s)) and not isinstance(s, ast.FunctionDef):
            raise Unsupported(f"list_files: `return []` in a statement that is not understood: {dump(s)[:200]}")
    # ---- the walk
    w = walks[0]
    on = [k.value for k in w.keywords if k.arg == "onerror"]
    if not on:
        walk = "true"                          # os.walk's default: errors of scandir are ignored
    else:
        if not isinstance(on[0], ast.Name):
            raise Unsupported("list_files: os.walk(onerror=...) is not a local function name")
        defs = [s for s in body if isinstance(s, ast.FunctionDef) and s.name == on[0].id]
        if len(defs) != 1 or len(defs[0].args.args) != 1:
            raise Unsupported(f"list_files: onerror handler `{on[0].id}` not found as a one-argument local function")
        arg = defs[0].args.args[0].arg
        hb = strip_docstring(defs[0].body)
        skipped: List[str] = []
        if not hb or not (isinstance(hb[-1], ast.Raise) and isinstance(hb[-1].exc, ast.Name) and hb[-1].exc.id == arg):
            raise Unsupported("list_files: the onerror handler does not end in `raise <its argument>`")
        for s in hb[:-1]:
            if (isinstance(s, ast.If) and not s.orelse and len(s.body) == 1 and isinstance(s.body[0], ast.Return) and s.body[0].value is None
                    and isinstance(s.test, ast.Call) and isinstance(s.test.func, ast.Name) and s.test.func.id == "isinstance"
                    and len(s.test.args) == 2 and isinstance(s.test.args[0], ast.Name) and s.test.args[0].id == arg):
                skipped += _classes(s.test.args[1])
            else:
                raise Unsupported(f"list_files: statement of the onerror handler not supported: {dump(s)[:200]}")
        walk = _term(skipped)
    return {"probe": "false" if not probe else ("true" if "true" in probe else "absent"), "walk": walk}


@generator("GenLocalList.v")
def gen_locallist(src: str) -> str:
    sb = parse_module(src, "storage_backend.py")
    k = kernel(find_function(sb, "list_files", cls="LocalStorageBackend"))
    return f"""(* GENERATED by translator/gen_locallist.py from src/datashard/storage_backend.py -- do not edit *)
From Coq Require Import Bool.

(* LocalStorageBackend.list_files: which operating-system failures read as "no files".
   absent = true: the failure means the object is not there (FileNotFoundError / NotADirectoryError);
   absent = false: any other OSError (EACCES, EIO, ESTALE, ...). *)

(* the prefix itself cannot be looked at: does list_files return []? *)
Definition gen_local_list_probe_reads_empty (absent : bool) : bool := {k['probe']}.

(* a directory below the prefix cannot be scanned: does the walk skip it silently? *)
Definition gen_local_list_walk_skips (absent : bool) : bool := {k['walk']}.
"""
