"""GenGCLog.v -- what the garbage collector does with the process-wide configuration, read from the source.

The collector's models (Model/GC.v, pinned by gen_norm.py's control skeletons) leave the logging statements out: the skeleton
walk skips every `logger.<level>(...)` statement.  That is sound only if such a statement OBSERVES and nothing else -- and if
no statement of the module asks the logging tree (or the environment) what to do.  This generator checks exactly that, fail
closed, over the WHOLE module garbage_collector.py (every function, helpers added later included), and emits the table of
logging statements the configuration model (Model/LogConf.v) ranges over:

  GC_LOG_SITES : list (string * Z)   every logging statement of garbage_collector.py in source order: (function, level number)
  GC_ENV_VARS  : list string         environment variables the module reads (must be none: [] is emitted or the translator fails)
  LIB_LOGGER_NAME, LIB_DEFAULT_LEVEL, LIB_HANDLER_DEFAULT_LEVEL
                                     logging_config.DataShardLogger._setup_logging: the library logger and the levels it is given
  SET_LEVEL_SETS_HANDLERS            DataShardLogger.set_level(level): logger.setLevel(level) and handler.setLevel(level) for each
                                     handler of the library logger (body pinned statement by statement)

SCOPE.  The checks above are LEXICAL and cover the module garbage_collector.py.  The modules the collector calls into are
covered by a second, counting scan (scope_scan below) over SCOPE_MODULES = file_manager, metadata_manager, storage_backend and
the helper modules those import (s3_consistency, integrity, disk_utils): every function of these modules that is REACHABLE BY
NAME from garbage_collector.py (an identifier -- attribute or name, called or not -- that is the name of a function / class of a
scope module reaches it; a reached class reaches its dunder methods; nested functions belong to their enclosing function; module
level statements always count) is scanned, and these tables are emitted (nothing is refused here: the Coq side states what the
lists ARE, Props/C05.v C05_conf_not_consulted, and stops compiling when they change):

  GC_REACH            : list (string * string)             (module, function) reached
  GC_CALLEE_LOG_SITES : list (string * string * Z)         logging statements of reached functions: (module, function, level)
  GC_CONF_READS       : list (string * string * string)    (module, function, what): every use of `logger` / `logging` in a reached
                                                           function that is not a logging statement with purely observing arguments
  GC_ENV_READS        : list (string * string * string)    (module, function, variable) os.environ / os.getenv in a reached function
  GC_UNREACHED_ENV_READS                                   the same for the functions of the scope modules that are NOT reached
                                                           (create_storage_backend): the scan does see environment reads
NOT covered: modules outside SCOPE_MODULES (fastavro, boto3, the standard library, data_structures / avro_schemas which hold no
logger), dynamic dispatch the name-based reachability cannot see (getattr with a computed name), and __str__ / __format__ of the
objects a logging statement interpolates.

Fail closed (Unsupported) when, anywhere in garbage_collector.py,
  * the name `logger` is used other than as the receiver of a STATEMENT `logger.debug/info/warning/error/exception/critical(...)`
    (so: isEnabledFor, getEffectiveLevel, .level, .disabled, passing the logger on, a logging call inside an expression);
  * the name `logging` is used other than in `logger = logging.getLogger(__name__)` at module level;
  * `os.environ` / `os.getenv` is read;
  * an argument of a logging statement is not a PURE OBSERVATION: constants, names, attribute / subscript reads, f-strings,
    arithmetic / comparisons / conditional expressions over those, `len(...)` and `type(...)` -- no other call (sorted(), list(),
    join(), next(), a method call ...: any of them may consume a one-shot iterator or run library code the model does not have).
"""
from __future__ import annotations

import ast
import os
from typing import Dict, List, Tuple

from core import Unsupported, coq_str, find_function, generator, parse_module, strip_docstring

LEVEL_OF = {"debug": 10, "info": 20, "warning": 30, "warn": 30, "error": 40, "exception": 40, "critical": 50, "fatal": 50}
PURE_CALLS = {"len", "type"}


def _pure(e: ast.AST, where: str) -> None:
    if isinstance(e, (ast.Constant, ast.Name)):
        return
    if isinstance(e, ast.Attribute):
        return _pure(e.value, where)
    if isinstance(e, ast.Subscript):
        _pure(e.value, where)
        return _pure(e.slice, where)
    if isinstance(e, ast.Slice):
        for v in (e.lower, e.upper, e.step):
            if v is not None:
                _pure(v, where)
        return
    if isinstance(e, ast.JoinedStr):
        for v in e.values:
            _pure(v, where)
        return
    if isinstance(e, ast.FormattedValue):
        _pure(e.value, where)
        if e.format_spec is not None:
            _pure(e.format_spec, where)
        return
    if isinstance(e, ast.BinOp):
        _pure(e.left, where)
        return _pure(e.right, where)
    if isinstance(e, ast.UnaryOp):
        return _pure(e.operand, where)
    if isinstance(e, ast.BoolOp):
        for v in e.values:
            _pure(v, where)
        return
    if isinstance(e, ast.Compare):
        _pure(e.left, where)
        for c in e.comparators:
            _pure(c, where)
        return
    if isinstance(e, ast.IfExp):
        for v in (e.test, e.body, e.orelse):
            _pure(v, where)
        return
    if isinstance(e, (ast.Tuple, ast.List)):
        for v in e.elts:
            _pure(v, where)
        return
    if isinstance(e, ast.Call) and isinstance(e.func, ast.Name) and e.func.id in PURE_CALLS and not e.keywords:
        for a in e.args:
            _pure(a, where)
        return
    raise Unsupported(f"{where}: an argument of a logging statement is not a pure observation ({ast.dump(e, annotate_fields=False)[:160]}); "
                      f"logging statements are left out of Model/GC.v on the ground that they only observe")


def log_sites(mod: ast.Module, fname: str) -> List[Tuple[str, int]]:
    """Every logging statement of the module, (enclosing function, level); every other use of `logger` / `logging` / the environment
    is refused."""
    allowed_logger_names: set = set()       # ids of the ast.Name nodes `logger` that are receivers of a logging statement
    allowed_logging_names: set = set()
    sites: List[Tuple[int, str, int]] = []

    n_getlogger = 0
    for s in mod.body:
        if (isinstance(s, ast.Assign) and len(s.targets) == 1 and isinstance(s.targets[0], ast.Name) and s.targets[0].id == "logger"):
            v = s.value
            if not (isinstance(v, ast.Call) and isinstance(v.func, ast.Attribute) and v.func.attr == "getLogger"
                    and isinstance(v.func.value, ast.Name) and v.func.value.id == "logging"
                    and len(v.args) == 1 and isinstance(v.args[0], ast.Name) and v.args[0].id == "__name__" and not v.keywords):
                raise Unsupported(f"{fname}: `logger` is no longer `logging.getLogger(__name__)`")
            n_getlogger += 1
            allowed_logger_names.add(id(s.targets[0]))
            allowed_logging_names.add(id(v.func.value))
    if n_getlogger != 1:
        raise Unsupported(f"{fname}: expected exactly one module-level `logger = logging.getLogger(__name__)`")

    def visit(node: ast.AST, func: str) -> None:
        for child in ast.iter_child_nodes(node):
            f = child.name if isinstance(child, (ast.FunctionDef, ast.AsyncFunctionDef)) else func
            if (isinstance(child, ast.Expr) and isinstance(child.value, ast.Call) and isinstance(child.value.func, ast.Attribute)
                    and isinstance(child.value.func.value, ast.Name) and child.value.func.value.id == "logger"):
                call = child.value
                meth = call.func.attr
                if meth not in LEVEL_OF:
                    raise Unsupported(f"{fname}:{child.lineno} ({func}): `logger.{meth}(...)` is not a logging statement of a fixed level")
                where = f"{fname}:{child.lineno} ({func})"
                for a in call.args:
                    _pure(a, where)
                for kw in call.keywords:
                    if kw.arg not in ("exc_info", "stack_info") or not isinstance(kw.value, ast.Constant):
                        raise Unsupported(f"{where}: keyword {kw.arg!r} of a logging statement")
                allowed_logger_names.add(id(call.func.value))
                sites.append((child.lineno, func, LEVEL_OF[meth]))
            visit(child, f)

    visit(mod, "<module>")

    for n in ast.walk(mod):
        if isinstance(n, ast.Name) and n.id == "logger" and id(n) not in allowed_logger_names:
            raise Unsupported(f"{fname}:{n.lineno}: the collector uses its logger for something other than a logging statement "
                              f"(isEnabledFor / getEffectiveLevel / level / passing it on / a logging call inside an expression): its behaviour "
                              f"may then depend on the process's logging configuration, which Model/GC.v does not take as an input")
        if isinstance(n, ast.Name) and n.id == "logging" and id(n) not in allowed_logging_names:
            raise Unsupported(f"{fname}:{n.lineno}: `logging` is used beyond `logging.getLogger(__name__)` (the collector consults or changes "
                              f"the logging configuration)")
        if isinstance(n, ast.Attribute) and isinstance(n.value, ast.Name) and n.value.id == "os" and n.attr in ("environ", "getenv", "getenvb", "putenv"):
            raise Unsupported(f"{fname}:{n.lineno}: the collector reads the environment (os.{n.attr}); Model/GC.v has no such input")
        if isinstance(n, (ast.Import, ast.ImportFrom)):
            for a in n.names:
                if a.name in ("environ", "getenv") or (isinstance(n, ast.ImportFrom) and n.module == "logging"):
                    raise Unsupported(f"{fname}:{n.lineno}: import of {a.name} from {getattr(n, 'module', None)}")
    return [(f, lv) for _ln, f, lv in sorted(sites)]


def _logging_level(e: ast.AST, what: str) -> int:
    if isinstance(e, ast.Attribute) and isinstance(e.value, ast.Name) and e.value.id == "logging":
        lv = {"NOTSET": 0, "DEBUG": 10, "INFO": 20, "WARNING": 30, "WARN": 30, "ERROR": 40, "CRITICAL": 50, "FATAL": 50}.get(e.attr)
        if lv is not None:
            return lv
    if isinstance(e, ast.Constant) and isinstance(e.value, int) and not isinstance(e.value, bool):
        return e.value
    raise Unsupported(f"{what}: level is not a logging constant")


def setup_terms(lc: ast.Module) -> Tuple[str, int, int]:
    fn = find_function(lc, "_setup_logging", cls="DataShardLogger")
    name, lvl, hlvl = None, None, None
    for n in ast.walk(fn):
        if (isinstance(n, ast.Assign) and isinstance(n.value, ast.Call) and isinstance(n.value.func, ast.Attribute)
                and n.value.func.attr == "getLogger" and len(n.targets) == 1 and isinstance(n.targets[0], ast.Name) and n.targets[0].id == "logger"):
            if len(n.value.args) != 1 or not isinstance(n.value.args[0], ast.Constant) or not isinstance(n.value.args[0].value, str) or name is not None:
                raise Unsupported("_setup_logging: the library logger's name is not one string literal")
            name = n.value.args[0].value
        if isinstance(n, ast.Call) and isinstance(n.func, ast.Attribute) and n.func.attr == "setLevel" and isinstance(n.func.value, ast.Name):
            if n.func.value.id == "logger":
                if lvl is not None:
                    raise Unsupported("_setup_logging: the library logger's level is set twice")
                lvl = _logging_level(n.args[0], "_setup_logging logger.setLevel")
            else:
                if hlvl is not None:
                    raise Unsupported("_setup_logging: more than one handler level")
                hlvl = _logging_level(n.args[0], "_setup_logging handler.setLevel")
    if name is None or lvl is None or hlvl is None:
        raise Unsupported("_setup_logging: logger name / level / handler level not found")
    return name, lvl, hlvl


SET_LEVEL_BODY = [
    "Assign([Name('logger', Store())], Call(Attribute(Name('cls', Load()), 'get_logger', Load()), [], []))",
    "Expr(Call(Attribute(Name('logger', Load()), 'setLevel', Load()), [Name('level', Load())], []))",
    "For(Name('handler', Store()), Attribute(Name('logger', Load()), 'handlers', Load()), "
    "[Expr(Call(Attribute(Name('handler', Load()), 'setLevel', Load()), [Name('level', Load())], []))], [])",
]


def check_set_level(lc: ast.Module) -> None:
    fn = find_function(lc, "set_level", cls="DataShardLogger")
    if [a.arg for a in fn.args.args] != ["cls", "level"]:
        raise Unsupported("DataShardLogger.set_level signature changed")
    got = [ast.dump(s, annotate_fields=False) for s in strip_docstring(fn.body)]
    if got != SET_LEVEL_BODY:
        raise Unsupported(f"DataShardLogger.set_level changed (Model/LogConf.v conf_step ESetLevel is hand-modelled):\n  expected {SET_LEVEL_BODY}\n  got      {got}")
    gl = find_function(lc, "get_logger", cls="DataShardLogger")
    d = gl.args.defaults
    if not (len(d) == 1 and isinstance(d[0], ast.Constant) and isinstance(d[0].value, str)):
        raise Unsupported("DataShardLogger.get_logger: default name is not a string literal")



SCOPE_MODULES = ["file_manager", "metadata_manager", "storage_backend", "s3_consistency", "integrity", "disk_utils"]
PURE_CALLS_CALLEE = PURE_CALLS | {"str", "repr", "int", "float"}


def _functions(mod: ast.Module) -> Dict[str, Tuple[ast.AST, str]]:
    """qualified name -> (node, class name or ''): top-level functions and methods; nested functions stay inside their parent."""
    out: Dict[str, Tuple[ast.AST, str]] = {}
    for s in mod.body:
        if isinstance(s, (ast.FunctionDef, ast.AsyncFunctionDef)):
            out[s.name] = (s, "")
        elif isinstance(s, ast.ClassDef):
            for m in s.body:
                if isinstance(m, (ast.FunctionDef, ast.AsyncFunctionDef)):
                    out[f"{s.name}.{m.name}"] = (m, s.name)
    return out


def _identifiers(node: ast.AST) -> set:
    ids = set()
    for n in ast.walk(node):
        if isinstance(n, ast.Attribute):
            ids.add(n.attr)
        elif isinstance(n, ast.Name):
            ids.add(n.id)
        elif isinstance(n, ast.ImportFrom):
            ids.update(a.name for a in n.names)
    return ids


def _is_pure(e: ast.AST) -> bool:
    global PURE_CALLS
    saved = PURE_CALLS
    PURE_CALLS = PURE_CALLS_CALLEE
    try:
        _pure(e, "")
        return True
    except Unsupported:
        return False
    finally:
        PURE_CALLS = saved


def _scan_body(mname: str, fname: str, nodes: List[ast.AST]):
    """(log sites, conf reads, env reads) of one function body / of the module-level statements."""
    sites, conf, env = [], [], []
    ok_logger: set = set()
    for top in nodes:
        for n in ast.walk(top):
            if (isinstance(n, ast.Expr) and isinstance(n.value, ast.Call) and isinstance(n.value.func, ast.Attribute)
                    and isinstance(n.value.func.value, ast.Name) and n.value.func.value.id == "logger" and n.value.func.attr in LEVEL_OF):
                call = n.value
                ok_logger.add(id(call.func.value))
                sites.append((n.lineno, mname, fname, LEVEL_OF[call.func.attr]))
                if not all(_is_pure(a) for a in call.args) or any(
                        kw.arg not in ("exc_info", "stack_info") or not isinstance(kw.value, ast.Constant) for kw in call.keywords):
                    conf.append((n.lineno, mname, fname, f"logger.{call.func.attr}: an argument is not a pure observation"))
            if (isinstance(n, ast.Assign) and len(n.targets) == 1 and isinstance(n.targets[0], ast.Name) and n.targets[0].id == "logger"
                    and fname == "<module>" and isinstance(n.value, ast.Call) and isinstance(n.value.func, ast.Name)
                    and n.value.func.id == "get_logger" and len(n.value.args) == 1 and isinstance(n.value.args[0], ast.Name)
                    and n.value.args[0].id == "__name__"):
                ok_logger.add(id(n.targets[0]))          # logger = get_logger(__name__): logging.getLogger(__name__) (logging_config pinned below)
    named_env: set = set()
    def _os_attr(e: ast.AST, attr: str) -> bool:
        return isinstance(e, ast.Attribute) and isinstance(e.value, ast.Name) and e.value.id == "os" and e.attr == attr
    for top in nodes:
        for n in ast.walk(top):
            var = None
            if isinstance(n, ast.Call) and _os_attr(n.func, "getenv") and n.args and isinstance(n.args[0], ast.Constant):
                var, inner = str(n.args[0].value), n.func
            elif (isinstance(n, ast.Call) and isinstance(n.func, ast.Attribute) and n.func.attr == "get" and _os_attr(n.func.value, "environ")
                  and n.args and isinstance(n.args[0], ast.Constant)):
                var, inner = str(n.args[0].value), n.func.value
            elif isinstance(n, ast.Subscript) and _os_attr(n.value, "environ") and isinstance(n.slice, ast.Constant):
                var, inner = str(n.slice.value), n.value
            if var is not None:
                named_env.add(id(inner))
                env.append((n.lineno, mname, fname, var))
    for top in nodes:
        for n in ast.walk(top):
            if isinstance(n, ast.Name) and n.id == "logger" and id(n) not in ok_logger:
                conf.append((n.lineno, mname, fname, "logger used other than as the receiver of a logging statement"))
            if isinstance(n, ast.Name) and n.id == "logging":
                conf.append((n.lineno, mname, fname, "logging module used"))
            if isinstance(n, ast.Attribute) and isinstance(n.value, ast.Name) and n.value.id == "os" and n.attr in ("environ", "getenv", "getenvb", "putenv") \
                    and id(n) not in named_env:
                env.append((n.lineno, mname, fname, "os." + n.attr))
    return sites, conf, env


def scope_scan(src: str, gc: ast.Module):
    mods = {m: parse_module(src, m + ".py") for m in SCOPE_MODULES}
    funcs = {m: _functions(mod) for m, mod in mods.items()}
    classes = {m: {s.name for s in mod.body if isinstance(s, ast.ClassDef)} for m, mod in mods.items()}
    reached: Dict[Tuple[str, str], ast.AST] = {}
    work: List[ast.AST] = [gc]

    def reach(m: str, q: str) -> None:
        if (m, q) not in reached:
            reached[(m, q)] = funcs[m][q][0]
            work.append(funcs[m][q][0])

    while work:
        node = work.pop()
        ids = _identifiers(node)
        for m in SCOPE_MODULES:
            for q, (_fn, cls) in funcs[m].items():
                bare = q.split(".")[-1]
                if bare in ids and not (bare.startswith("__") and bare.endswith("__")):
                    reach(m, q)
                    if cls:
                        ids.add(cls)
            for c in classes[m]:
                if c in ids:
                    for q, (_fn, cls) in funcs[m].items():
                        if cls == c and q.split(".")[-1].startswith("__"):
                            reach(m, q)
    sites, conf, env, unreached_env = [], [], [], []
    for m in SCOPE_MODULES:
        top = [s for s in mods[m].body if not isinstance(s, (ast.FunctionDef, ast.AsyncFunctionDef, ast.ClassDef))]
        top += [c for s in mods[m].body if isinstance(s, ast.ClassDef) for c in s.body if not isinstance(c, (ast.FunctionDef, ast.AsyncFunctionDef))]
        s_, c_, e_ = _scan_body(m, "<module>", top)
        sites += s_; conf += c_; env += e_
        for q, (fn, _cls) in funcs[m].items():
            s_, c_, e_ = _scan_body(m, q, [fn])
            if (m, q) in reached:
                sites += s_; conf += c_; env += e_
            else:
                unreached_env += e_
    order = lambda rows: [r[1:] for r in sorted(rows, key=lambda r: (SCOPE_MODULES.index(r[1]), r[0]))]
    return sorted(reached, key=lambda k: (SCOPE_MODULES.index(k[0]), k[1])), order(sites), order(conf), order(env), order(unreached_env)


def check_get_logger(lc: ast.Module) -> None:
    """logging_config.get_logger(name) is DataShardLogger.get_logger(name), which returns logging.getLogger(name) after a setup that
    touches the library logger only: the callee modules' `logger = get_logger(__name__)` is a module logger like the collector's."""
    fn = find_function(lc, "get_logger")
    body = [ast.dump(s, annotate_fields=False) for s in strip_docstring(fn.body)]
    if body != ["Return(Call(Attribute(Name('DataShardLogger', Load()), 'get_logger', Load()), [Name('name', Load())], []))"]:
        raise Unsupported(f"logging_config.get_logger changed: {body}")
    gl = find_function(lc, "get_logger", cls="DataShardLogger")
    last = ast.dump(strip_docstring(gl.body)[-1], annotate_fields=False)
    if last != "Return(Call(Attribute(Name('logging', Load()), 'getLogger', Load()), [Name('name', Load())], []))":
        raise Unsupported(f"DataShardLogger.get_logger no longer returns logging.getLogger(name): {last}")


@generator("GenGCLog.v")
def gen_gclog(src: str) -> str:
    gc = parse_module(src, "garbage_collector.py")
    lc = parse_module(src, "logging_config.py")
    sites = log_sites(gc, "garbage_collector.py")
    if not sites:
        raise Unsupported("garbage_collector.py has no logging statement left (nothing for the configuration model to range over)")
    name, lvl, hlvl = setup_terms(lc)
    check_set_level(lc)
    gl_default = find_function(lc, "get_logger", cls="DataShardLogger").args.defaults[0].value
    if gl_default != name:
        raise Unsupported("DataShardLogger.get_logger's default logger is not the logger _setup_logging configures")
    pkg = os.path.basename(os.path.normpath(src))
    if pkg != name:
        raise Unsupported(f"the library logger {name!r} is not the package {pkg!r}: module loggers (getLogger(__name__)) are then not its children")
    rows = "; ".join(f"({coq_str(f)}, {lv})" for f, lv in sites)
    check_get_logger(lc)
    reach, csites, conf, env, unreached_env = scope_scan(src, gc)
    t2 = lambda rows: "[" + "; ".join(f"({coq_str(a)}, {coq_str(b)})" for a, b in rows) + "]"
    t3s = lambda rows: "[" + "; ".join(f"({coq_str(a)}, {coq_str(b)}, {coq_str(c)})" for a, b, c in rows) + "]"
    t3z = lambda rows: "[" + "; ".join(f"({coq_str(a)}, {coq_str(b)}, {c})" for a, b, c in rows) + "]"
    env_vars = "[" + "; ".join(coq_str(v) for v in sorted({c for _a, _b, c in env})) + "]"
    return f"""(* GENERATED by translator/gen_gclog.py from src/datashard/garbage_collector.py and logging_config.py -- do not edit *)
From Coq Require Import ZArith List String.
Import ListNotations.
Open Scope string_scope.
Open Scope Z_scope.

(* every logging statement of garbage_collector.py, in source order: (function, level).  Each was checked to be a STATEMENT whose
   arguments are pure observations; no other use of `logger` / `logging` / os.environ exists in the module. *)
Definition GC_LOG_SITES : list (string * Z) := [{rows}].

(* --- the modules the collector calls into (counting scan, name-based reachability from garbage_collector.py; see gen_gclog.py) --- *)
Definition GC_SCOPE_MODULES : list string := [{"; ".join(coq_str(m) for m in SCOPE_MODULES)}].
Definition GC_REACH : list (string * string) := {t2(reach)}.
Definition GC_CALLEE_LOG_SITES : list (string * string * Z) := {t3z(csites)}.
Definition GC_CONF_READS : list (string * string * string) := {t3s(conf)}.
Definition GC_ENV_READS : list (string * string * string) := {t3s(env)}.
Definition GC_UNREACHED_ENV_READS : list (string * string * string) := {t3s(unreached_env)}.
(* environment variables read by garbage_collector.py (none: refused above) or by a reached function of the scope modules *)
Definition GC_ENV_VARS : list string := {env_vars}.

(* logging_config.DataShardLogger._setup_logging / set_level *)
Definition LIB_LOGGER_NAME : string := {coq_str(name)}.
Definition LIB_DEFAULT_LEVEL : Z := {lvl}.
Definition LIB_HANDLER_DEFAULT_LEVEL : Z := {hlvl}.
Definition SET_LEVEL_SETS_HANDLERS : bool := true.
"""
