"""GenRange.v -- the seekable S3 reader's integer kernels and open_seekable's wiring, translated (C20).

From src/datashard/storage_backend.py
    gen_rf_seek     pos size offset whence   S3RangeFile.seek, whole body: Some (new self._pos, returned value), or
                                             None where the source raises ValueError (and leaves self._pos alone)
    gen_rf_readinto pos size want            S3RangeFile.readinto: the statements up to the ranged GET:
                                             None = returns 0 without any request, Some (first, last) = the byte range
                                             handed to self._get_range; the rest of the body (copy the bytes, advance
                                             self._pos by the number of bytes RECEIVED, return that number) is checked
                                             against a fixed shape
    gen_rf_readall  pos size                 S3RangeFile.readall: likewise (None = returns b"" without a request)
    gen_open_key    prefix path              S3StorageBackend.open_seekable: the key handed to the reader
    gen_open_size_path path                  S3StorageBackend.open_seekable: the path whose get_size() becomes the
                                             reader's size
    gen_code_open_notfound / gen_code_readtag_notfound   the error-code literal compared in open_file's open_op /
                                             read_file_with_etag's read_op (mapped to FileNotFoundError)
Checked and fail-closed (Unsupported) rather than emitted, because the model has no vocabulary for the alternative:
  * open_seekable is exactly  key = <str expr>; size = self.get_size(<str expr>); return io.BufferedReader(
    S3RangeFile(self.s3, self.bucket, key, size), ...)  -- the size a reader works with is the answer of a get_size()
    made by THIS call (no remembered value), the reader reads the key computed by THIS call;
  * S3RangeFile.__init__ stores key / size as given and starts at position 0; _size and _key are assigned nowhere
    else; _pos is assigned only in __init__ / seek / readinto / readall; tell() returns self._pos;
  * _get_range sends exactly  Range: bytes=<first>-<last>  for self._key (golden digest);
  * open_file / S3FileStream.read / read_file_with_etag / write_file_cas (hand-modelled in Model/Backend.v: Stream,
    ReadTag, WriteCas) are pinned by golden digests.

Accepted subset for the integer kernels (anything else raises Unsupported):
  int expr : parameters, self._pos, self._size, locals, int constants, io.SEEK_SET/CUR/END, a + b, a - b,
             min(a, b), max(a, b), len(<the buffer parameter>)
  bool expr: a == b, a != b, a < b, a <= b, a > b, a >= b, not, and, or
  stmts    : x = e, self._pos = e, if/elif/else, raise ValueError(...), return e
"""
from __future__ import annotations

import ast
import hashlib
from typing import Dict, List, Optional

from core import Unsupported, dump, find_function, generator, parse_module, strip_docstring
from gen_s3 import Env as SEnv, find_code_compare, lit, sexpr

IO_CONST = {"SEEK_SET": 0, "SEEK_CUR": 1, "SEEK_END": 2}


class ZEnv:
    def __init__(self, names: Dict[str, str], attrs: Dict[str, str], len_of: Optional[Dict[str, str]] = None):
        self.names = dict(names)        # python local / parameter -> Gallina name
        self.attrs = dict(attrs)        # self.<attr> -> Gallina name (current value)
        self.len_of = dict(len_of or {})  # python name whose len() is the Gallina name

    def copy(self) -> "ZEnv":
        return ZEnv(self.names, self.attrs, self.len_of)

    def fresh(self, base: str) -> str:
        used = set(self.names.values()) | set(self.attrs.values())
        i = 1
        while f"{base}_{i}" in used:
            i += 1
        return f"{base}_{i}"


def zexpr(n: ast.AST, env: ZEnv) -> str:
    if isinstance(n, ast.Name) and n.id in env.names:
        return env.names[n.id]
    if isinstance(n, ast.Attribute) and isinstance(n.value, ast.Name):
        if n.value.id == "self" and n.attr in env.attrs:
            return env.attrs[n.attr]
        if n.value.id == "io" and n.attr in IO_CONST:
            return f"{IO_CONST[n.attr]}"
    if isinstance(n, ast.Constant) and isinstance(n.value, int) and not isinstance(n.value, bool) and 0 <= n.value < 10 ** 9:
        return str(n.value)
    if isinstance(n, ast.BinOp) and isinstance(n.op, (ast.Add, ast.Sub)):
        return f"({zexpr(n.left, env)} {'+' if isinstance(n.op, ast.Add) else '-'} {zexpr(n.right, env)})"
    if isinstance(n, ast.Call) and isinstance(n.func, ast.Name) and not n.keywords:
        if n.func.id in ("min", "max") and len(n.args) == 2:
            return f"(Z.{n.func.id} {zexpr(n.args[0], env)} {zexpr(n.args[1], env)})"
        if n.func.id == "len" and len(n.args) == 1 and isinstance(n.args[0], ast.Name) and n.args[0].id in env.len_of:
            return env.len_of[n.args[0].id]
    raise Unsupported(f"integer expression not supported: {dump(n)}")


CMP = {ast.Eq: "=?", ast.Lt: "<?", ast.LtE: "<=?", ast.Gt: ">?", ast.GtE: ">=?"}


def zbool(n: ast.AST, env: ZEnv) -> str:
    if isinstance(n, ast.BoolOp):
        op = "&&" if isinstance(n.op, ast.And) else "||"
        return "(" + f" {op} ".join(zbool(v, env) for v in n.values) + ")"
    if isinstance(n, ast.UnaryOp) and isinstance(n.op, ast.Not):
        return f"(negb {zbool(n.operand, env)})"
    if isinstance(n, ast.Compare) and len(n.ops) == 1:
        a, b = zexpr(n.left, env), zexpr(n.comparators[0], env)
        if isinstance(n.ops[0], ast.NotEq):
            return f"(negb ({a} =? {b}))"
        for k, sym in CMP.items():
            if isinstance(n.ops[0], k):
                return f"({a} {sym} {b})"
    raise Unsupported(f"condition not supported: {dump(n)}")


def _is_self_attr(t: ast.AST, attr: str) -> bool:
    return isinstance(t, ast.Attribute) and isinstance(t.value, ast.Name) and t.value.id == "self" and t.attr == attr


def zstmts(body: List[ast.stmt], env: ZEnv, terminal) -> str:
    """Statement list -> Gallina term of type option _.  `terminal(stmts, env)` is offered every suffix first and
    returns the term for it (or None to let the generic rules apply)."""
    t = terminal(body, env)
    if t is not None:
        return t
    if not body:
        raise Unsupported("a path through the method falls off the end")
    s, rest = body[0], body[1:]
    if isinstance(s, ast.Assign) and len(s.targets) == 1:
        tg = s.targets[0]
        if isinstance(tg, ast.Name):
            e = zexpr(s.value, env)
            env2 = env.copy()
            v = env.fresh(tg.id)
            env2.names[tg.id] = v
            return f"(let {v} := {e} in\n   {zstmts(rest, env2, terminal)})"
        if _is_self_attr(tg, "_pos"):
            e = zexpr(s.value, env)
            env2 = env.copy()
            v = env.fresh("pos")
            env2.attrs["_pos"] = v
            return f"(let {v} := {e} in\n   {zstmts(rest, env2, terminal)})"
    if isinstance(s, ast.If):
        c = zbool(s.test, env)
        return f"(if {c}\n   then {zstmts(s.body + rest, env, terminal)}\n   else {zstmts(s.orelse + rest, env, terminal)})"
    if isinstance(s, ast.Raise) and isinstance(s.exc, ast.Call) and isinstance(s.exc.func, ast.Name) and s.exc.func.id == "ValueError":
        if env.attrs.get("_pos") != "pos":
            raise Unsupported("ValueError raised after self._pos was changed")
        return "None"
    raise Unsupported(f"statement not supported: {dump(s)}")


def digest(node) -> str:
    return hashlib.sha256(dump(node).encode()).hexdigest()[:16]


# Golden AST digests (computed on the repaired tree; print with `python gen_range.py <src dir>`).
PINS = {
    ("S3RangeFile", "__init__"): "db75f65efcf4343c",
    ("S3RangeFile", "tell"): "27fcbc1f812b90bf",
    ("S3RangeFile", "_get_range"): "4a98dbc3f6085381",
    ("S3FileStream", "read"): "6c25217c7f02295c",
    ("S3StorageBackend", "open_file"): "8b190d05be9dbeaa",
    ("S3StorageBackend", "read_file_with_etag"): "1924451be4583b66",
    ("S3StorageBackend", "write_file_cas"): "f026aa939c17f9c2",
}

READINTO_TAIL = ("[Assign([Name('n', Store())], Call(Name('len', Load()), [Name('data', Load())], [])), "
                 "Assign([Subscript(Name('b', Load()), Slice(upper=Name('n', Load())), Store())], Name('data', Load())), "
                 "AugAssign(Attribute(Name('self', Load()), '_pos', Store()), Add(), Name('n', Load())), "
                 "Return(Name('n', Load()))]")
READALL_TAIL = ("[AugAssign(Attribute(Name('self', Load()), '_pos', Store()), Add(), Call(Name('len', Load()), [Name('data', Load())], [])), "
                "Return(Name('data', Load()))]")


def pin_digests(sb: ast.Module) -> Dict[tuple, str]:
    return {k: digest(strip_docstring(find_function(sb, k[1], k[0]).body)) for k in PINS}


def _get_range_call(s: ast.stmt):
    """`data = self._get_range(a, b)` -> (a, b) or None."""
    if isinstance(s, ast.Assign) and len(s.targets) == 1 and isinstance(s.targets[0], ast.Name) and s.targets[0].id == "data" \
            and isinstance(s.value, ast.Call) and _is_self_attr(s.value.func, "_get_range") and len(s.value.args) == 2 and not s.value.keywords:
        return s.value.args
    return None


def read_terminal(tail_dump: str, empty_return: str, what: str):
    def terminal(body: List[ast.stmt], env: ZEnv) -> Optional[str]:
        if not body:
            return None
        s = body[0]
        if isinstance(s, ast.Return):
            if dump(s.value) != empty_return:
                raise Unsupported(f"{what}: early return of something other than the empty result: {dump(s)}")
            return "None"
        args = _get_range_call(s)
        if args is not None:
            if dump(body[1:]) != tail_dump:
                raise Unsupported(f"{what}: statements after the ranged GET changed shape.\n expected {tail_dump}\n got      {dump(body[1:])}")
            if env.attrs.get("_pos") != "pos":
                raise Unsupported(f"{what}: self._pos changed before the ranged GET")
            return f"Some ({zexpr(args[0], env)}, {zexpr(args[1], env)})"
        return None
    return terminal


def seek_terminal(body: List[ast.stmt], env: ZEnv) -> Optional[str]:
    if body and isinstance(body[0], ast.Return) and body[0].value is not None:
        if len(body) != 1:
            raise Unsupported("seek: statements after return")
        return f"Some ({env.attrs['_pos']}, {zexpr(body[0].value, env)})"
    return None


def check_attr_writes(cls: ast.ClassDef) -> None:
    """_size / _key only in __init__; _pos only in __init__, seek, readinto, readall."""
    allowed = {"_size": {"__init__"}, "_key": {"__init__"}, "_pos": {"__init__", "seek", "readinto", "readall"},
               "_s3": {"__init__"}, "_bucket": {"__init__"}}
    for fn in cls.body:
        if not isinstance(fn, ast.FunctionDef):
            continue
        for n in ast.walk(fn):
            tg = n.targets if isinstance(n, ast.Assign) else [n.target] if isinstance(n, (ast.AugAssign, ast.AnnAssign)) else []
            for t in tg:
                for a in ast.walk(t):
                    if isinstance(a, ast.Attribute) and isinstance(a.value, ast.Name) and a.value.id == "self" and isinstance(a.ctx, ast.Store):
                        if a.attr not in allowed:
                            raise Unsupported(f"S3RangeFile.{fn.name} assigns an attribute the model does not know: self.{a.attr}")
                        if fn.name not in allowed[a.attr]:
                            raise Unsupported(f"S3RangeFile.{fn.name} assigns self.{a.attr}")
            if isinstance(n, ast.Call) and isinstance(n.func, ast.Name) and n.func.id in ("setattr", "delattr"):
                raise Unsupported(f"S3RangeFile.{fn.name} uses {n.func.id}")


@generator("GenRange.v")
def gen_range(src: str) -> str:
    sb = parse_module(src, "storage_backend.py")
    got = pin_digests(sb)
    bad = [f"{k[0]}.{k[1]} (expected {PINS[k]}, got {v})" for k, v in got.items() if PINS[k] != v]
    if bad:
        raise Unsupported("hand-modelled code changed shape (golden AST digest): " + "; ".join(bad))
    cls = next((c for c in ast.walk(sb) if isinstance(c, ast.ClassDef) and c.name == "S3RangeFile"), None)
    if cls is None:
        raise Unsupported("class S3RangeFile not found")
    check_attr_writes(cls)

    # ---- seek
    f = find_function(sb, "seek", "S3RangeFile")
    if [a.arg for a in f.args.args] != ["self", "offset", "whence"]:
        raise Unsupported("S3RangeFile.seek signature changed")
    seek = zstmts(strip_docstring(f.body), ZEnv({"offset": "offset", "whence": "whence"}, {"_pos": "pos", "_size": "size"}), seek_terminal)

    # ---- readinto
    f = find_function(sb, "readinto", "S3RangeFile")
    if [a.arg for a in f.args.args] != ["self", "b"]:
        raise Unsupported("S3RangeFile.readinto signature changed")
    readinto = zstmts(strip_docstring(f.body), ZEnv({}, {"_pos": "pos", "_size": "size"}, {"b": "want"}),
                      read_terminal(READINTO_TAIL, "Constant(0)", "S3RangeFile.readinto"))

    # ---- readall
    f = find_function(sb, "readall", "S3RangeFile")
    if [a.arg for a in f.args.args] != ["self"]:
        raise Unsupported("S3RangeFile.readall signature changed")
    readall = zstmts(strip_docstring(f.body), ZEnv({}, {"_pos": "pos", "_size": "size"}),
                     read_terminal(READALL_TAIL, "Constant(b'')", "S3RangeFile.readall"))

    # ---- open_seekable
    f = find_function(sb, "open_seekable", "S3StorageBackend")
    if [a.arg for a in f.args.args] != ["self", "path"]:
        raise Unsupported("S3StorageBackend.open_seekable signature changed")
    body = strip_docstring(f.body)
    if len(body) != 3:
        raise Unsupported(f"open_seekable: expected `key = ...; size = self.get_size(...); return io.BufferedReader(S3RangeFile(...))`, got {len(body)} statements: {dump(body)}")
    k_as, s_as, ret = body
    senv = SEnv({"path": "path"}, {"prefix": "prefix"}, allow_get_key=True)
    if not (isinstance(k_as, ast.Assign) and len(k_as.targets) == 1 and isinstance(k_as.targets[0], ast.Name) and k_as.targets[0].id == "key"):
        raise Unsupported(f"open_seekable: first statement is not `key = ...`: {dump(k_as)}")
    open_key = sexpr(k_as.value, senv)
    if not (isinstance(s_as, ast.Assign) and len(s_as.targets) == 1 and isinstance(s_as.targets[0], ast.Name) and s_as.targets[0].id == "size"
            and isinstance(s_as.value, ast.Call) and _is_self_attr(s_as.value.func, "get_size") and len(s_as.value.args) == 1 and not s_as.value.keywords):
        raise Unsupported(f"open_seekable: the reader's size is not `size = self.get_size(<path>)`: {dump(s_as)}")
    size_path = sexpr(s_as.value.args[0], SEnv({"path": "path"}, {}))
    r = ret.value if isinstance(ret, ast.Return) else None
    ok = (isinstance(r, ast.Call) and dump(r.func) == "Attribute(Name('io', Load()), 'BufferedReader', Load())" and len(r.args) == 1
          and all(kw.arg == "buffer_size" for kw in r.keywords)
          and dump(r.args[0]) == "Call(Name('S3RangeFile', Load()), [Attribute(Name('self', Load()), 's3', Load()), "
                                 "Attribute(Name('self', Load()), 'bucket', Load()), Name('key', Load()), Name('size', Load())], [])")
    if not ok:
        raise Unsupported(f"open_seekable: does not return io.BufferedReader(S3RangeFile(self.s3, self.bucket, key, size), ...): {dump(ret)}")

    code_open = find_code_compare(find_function(sb, "open_file", "S3StorageBackend"), (ast.Eq,), "open_file")
    code_readtag = find_code_compare(find_function(sb, "read_file_with_etag", "S3StorageBackend"), (ast.Eq,), "read_file_with_etag")

    return f"""(* GENERATED by translator/gen_range.py from src/datashard/storage_backend.py -- do not edit *)
From Coq Require Import List Bool Ascii String ZArith.
Require Import DS.Model.Str DS.Gen.GenS3.
Import ListNotations.
Open Scope Z_scope.

(* S3RangeFile.seek: Some (new self._pos, returned value) | None = ValueError, self._pos unchanged *)
Definition gen_rf_seek (pos size offset whence : Z) : option (Z * Z) :=
  {seek}.

(* S3RangeFile.readinto(b), want = len(b): None = returns 0 without a request | Some (first, last) handed to _get_range *)
Definition gen_rf_readinto (pos size want : Z) : option (Z * Z) :=
  {readinto}.

(* S3RangeFile.readall: None = returns b"" without a request | Some (first, last) handed to _get_range *)
Definition gen_rf_readall (pos size : Z) : option (Z * Z) :=
  {readall}.

(* S3StorageBackend.open_seekable: the key the reader reads, and the path whose get_size() is the reader's size *)
Definition gen_open_key (prefix path : str) : str :=
  {open_key}.
Definition gen_open_size_path (path : str) : str :=
  {size_path}.

(* the GetObject error code open_file / read_file_with_etag turn into FileNotFoundError *)
Definition gen_code_open_notfound : str := {lit(code_open)}.
Definition gen_code_readtag_notfound : str := {lit(code_readtag)}.
"""


if __name__ == "__main__":
    import sys
    for k, v in pin_digests(parse_module(sys.argv[1], "storage_backend.py")).items():
        print(f'    {k!r}: "{v}",')
