"""GenRange.v -- S3RangeFile's position arithmetic and range computation, translated (C20).

    gen_rf_seek          S3RangeFile.seek      (size pos offset : Z) (w : whence) -> new position, or None = ValueError
    gen_rf_readinto_req  S3RangeFile.readinto  (size pos want : Z) -> None = returns 0 without any request,
                                                                      Some (first, last) = the ONE range it requests
    gen_rf_readall_req   S3RangeFile.readall   (size pos : Z)      -> None = returns b"" without any request, Some (first, last)
    gen_rf_advance       the position update after a read: `self._pos += <number of bytes received>`

coq/Model/Range.v models the reader by hand (rf_step; it carries the C20 range theorems); Proofs/RangeGenProofs.v proves
rf_step equal to the composition of these generated kernels with the object store's answer, for all inputs.

Subset: `if / elif / else` chains on `whence == io.SEEK_*` assigning one local, `raise ValueError`, comparisons and
`or`, `min`, `+`, `-`, `len(b)`, `self._pos`, `self._size`, one `self._get_range(first, last)` call per read whose
result's length advances the position.  Anything else: Unsupported (fail closed).
"""
from __future__ import annotations

import ast
from typing import Dict, List, Optional, Tuple

from core import Unsupported, find_function, generator, parse_module, strip_docstring


def _u(n: ast.AST) -> str:
    return ast.unparse(n)


def arith(e: ast.AST, env: Dict[str, str], where: str) -> str:
    if isinstance(e, ast.Name) and e.id in env:
        return env[e.id]
    if isinstance(e, ast.Attribute) and _u(e) in env:
        return env[_u(e)]
    if isinstance(e, ast.Constant) and isinstance(e.value, int) and not isinstance(e.value, bool):
        return f"({e.value})"
    if isinstance(e, ast.BinOp) and isinstance(e.op, (ast.Add, ast.Sub)):
        return f"({arith(e.left, env, where)} {'+' if isinstance(e.op, ast.Add) else '-'} {arith(e.right, env, where)})"
    if isinstance(e, ast.Call) and isinstance(e.func, ast.Name) and e.func.id in ("min", "max") and len(e.args) == 2 and not e.keywords:
        return f"(Z.{e.func.id} {arith(e.args[0], env, where)} {arith(e.args[1], env, where)})"
    if isinstance(e, ast.Call) and _u(e.func) == "len" and len(e.args) == 1 and _u(e.args[0]) in env:
        return env[_u(e.args[0])]
    raise Unsupported(f"{where}: arithmetic outside the subset: {_u(e)}")


def cond(e: ast.AST, env: Dict[str, str], where: str) -> str:
    if isinstance(e, ast.BoolOp):
        op = "||" if isinstance(e.op, ast.Or) else "&&"
        return "(" + f" {op} ".join(cond(v, env, where) for v in e.values) + ")"
    if isinstance(e, ast.Compare) and len(e.ops) == 1:
        sym = {ast.Lt: "<?", ast.LtE: "<=?", ast.Gt: ">?", ast.GtE: ">=?", ast.Eq: "=?"}.get(type(e.ops[0]))
        if sym:
            return f"({arith(e.left, env, where)} {sym} {arith(e.comparators[0], env, where)})"
    raise Unsupported(f"{where}: condition outside the subset: {_u(e)}")


WHENCE = {"io.SEEK_SET": "SeekSet", "io.SEEK_CUR": "SeekCur", "io.SEEK_END": "SeekEnd"}


def gen_seek(cls: ast.AST) -> str:
    fn = find_function(cls, "seek")
    where = "S3RangeFile.seek"
    if [a.arg for a in fn.args.args] != ["self", "offset", "whence"] or _u(fn.args.defaults[0]) != "io.SEEK_SET":
        raise Unsupported(f"{where}: signature changed")
    body = strip_docstring(fn.body)
    env = {"offset": "offset", "self._pos": "pos", "self._size": "size"}
    if not (len(body) == 4 and isinstance(body[0], ast.If)):
        raise Unsupported(f"{where}: shape changed")
    # if / elif chain on whence
    arms: Dict[str, str] = {}
    node: Optional[ast.stmt] = body[0]
    default = None
    var = None
    while isinstance(node, ast.If):
        t = node.test
        if not (isinstance(t, ast.Compare) and _u(t.left) == "whence" and len(t.ops) == 1 and isinstance(t.ops[0], ast.Eq)
                and _u(t.comparators[0]) in WHENCE):
            raise Unsupported(f"{where}: test {_u(t)}")
        if not (len(node.body) == 1 and isinstance(node.body[0], ast.Assign) and isinstance(node.body[0].targets[0], ast.Name)):
            raise Unsupported(f"{where}: arm body {_u(node.body[0])[:60]}")
        v = node.body[0].targets[0].id
        if var not in (None, v):
            raise Unsupported(f"{where}: arms assign different variables")
        var = v
        w = WHENCE[_u(t.comparators[0])]
        if w in arms:
            raise Unsupported(f"{where}: duplicate arm {w}")
        arms[w] = arith(node.body[0].value, env, where)
        if len(node.orelse) == 1 and isinstance(node.orelse[0], ast.If):
            node = node.orelse[0]
        else:
            default = node.orelse
            node = None
    if not (default and len(default) == 1 and isinstance(default[0], ast.Raise) and _u(default[0].exc).startswith("ValueError(")):
        raise Unsupported(f"{where}: the final else does not raise ValueError")
    g = body[1]
    env2 = dict(env)
    env2[var] = "new"
    if not (isinstance(g, ast.If) and not g.orelse and len(g.body) == 1 and isinstance(g.body[0], ast.Raise)
            and _u(g.body[0].exc).startswith("ValueError(")):
        raise Unsupported(f"{where}: guard after the arms changed")
    guard = cond(g.test, env2, where)
    if _u(body[2]) != f"self._pos = {var}" or _u(body[3]) != "return self._pos":
        raise Unsupported(f"{where}: does not store and return the new position")
    lines = [f"    | {w} => Some {arms[w]}" for w in ("SeekSet", "SeekCur", "SeekEnd") if w in arms]
    missing = [w for w in ("SeekSet", "SeekCur", "SeekEnd") if w not in arms]
    for w in missing:
        lines.append(f"    | {w} => None")
    return ("(* S3RangeFile.seek: the new position (stored in _pos and returned); None = ValueError, _pos unchanged *)\n"
            "Definition gen_rf_seek (size pos offset : Z) (w : whence) : option Z :=\n"
            "  match (match w with\n" + "\n".join(lines) + "\n    | SeekBad => None\n    end) with\n"
            f"  | Some new => if {guard} then None else Some new\n  | None => None\n  end.\n")


def _read_fn(cls: ast.AST, name: str, params: List[str], first_stmts: int) -> Tuple[ast.FunctionDef, List[ast.stmt]]:
    fn = find_function(cls, name)
    if [a.arg for a in fn.args.args] != params:
        raise Unsupported(f"S3RangeFile.{name}: signature changed")
    return fn, strip_docstring(fn.body)


def gen_readinto(cls: ast.AST) -> str:
    where = "S3RangeFile.readinto"
    fn, body = _read_fn(cls, "readinto", ["self", "b"], 0)
    src = [_u(s) for s in body]
    env = {"self._pos": "pos", "self._size": "size", "b": "want"}       # len(b) -> want
    if not (len(body) == 8 and src[0] == "want = len(b)" and isinstance(body[1], ast.If) and not body[1].orelse
            and [_u(x) for x in body[1].body] == ["return 0"]):
        raise Unsupported(f"{where}: shape changed: {src[:2]}")
    env["want"] = "want"
    early = cond(body[1].test, env, where)
    if not (isinstance(body[2], ast.Assign) and _u(body[2].targets[0]) == "last"):
        raise Unsupported(f"{where}: `last = ...` missing")
    last = arith(body[2].value, env, where)
    c = body[3]
    if not (isinstance(c, ast.Assign) and _u(c.targets[0]) == "data" and isinstance(c.value, ast.Call)
            and _u(c.value.func) == "self._get_range" and len(c.value.args) == 2 and not c.value.keywords):
        raise Unsupported(f"{where}: the range request changed: {src[3]}")
    env["last"] = "last"
    first = arith(c.value.args[0], env, where)
    lastarg = arith(c.value.args[1], env, where)
    if src[4:] != ["n = len(data)", "b[:n] = data", "self._pos += n", "return n"]:
        raise Unsupported(f"{where}: the tail (copy the received bytes, advance by their number) changed: {src[4:]}")
    return ("(* S3RangeFile.readinto(b), want = len(b): None = returns 0 and issues no request *)\n"
            "Definition gen_rf_readinto_req (size pos want : Z) : option (Z * Z) :=\n"
            f"  if {early} then None\n  else let last := {last} in Some ({first}, {lastarg}).\n")


def gen_readall(cls: ast.AST) -> str:
    where = "S3RangeFile.readall"
    fn, body = _read_fn(cls, "readall", ["self"], 0)
    src = [_u(s) for s in body]
    env = {"self._pos": "pos", "self._size": "size"}
    if not (len(body) == 4 and isinstance(body[0], ast.If) and not body[0].orelse and [_u(x) for x in body[0].body] == ["return b''"]):
        raise Unsupported(f"{where}: shape changed: {src[:1]}")
    early = cond(body[0].test, env, where)
    c = body[1]
    if not (isinstance(c, ast.Assign) and _u(c.targets[0]) == "data" and isinstance(c.value, ast.Call)
            and _u(c.value.func) == "self._get_range" and len(c.value.args) == 2 and not c.value.keywords):
        raise Unsupported(f"{where}: the range request changed: {src[1]}")
    first = arith(c.value.args[0], env, where)
    last = arith(c.value.args[1], env, where)
    if src[2:] != ["self._pos += len(data)", "return data"]:
        raise Unsupported(f"{where}: the tail changed: {src[2:]}")
    return ("(* S3RangeFile.readall(): None = returns b'' and issues no request *)\n"
            "Definition gen_rf_readall_req (size pos : Z) : option (Z * Z) :=\n"
            f"  if {early} then None else Some ({first}, {last}).\n")


def check_get_range(cls: ast.AST) -> None:
    fn = find_function(cls, "_get_range")
    txt = _u(fn)
    for need in ("Range=f'bytes={first}-{last}'", "Bucket=self._bucket", "Key=self._key", "return with_s3_retry(op,"):
        if need not in txt:
            raise Unsupported(f"S3RangeFile._get_range: `{need}` missing (the request is no longer bytes=first-last of this object, retried)")
    tell = find_function(cls, "tell")
    if [_u(s) for s in strip_docstring(tell.body)] != ["return self._pos"]:
        raise Unsupported("S3RangeFile.tell changed")
    init = find_function(cls, "__init__")
    if "self._pos = 0" not in _u(init) or "self._size = size" not in _u(init):
        raise Unsupported("S3RangeFile.__init__: initial position / size binding changed")


@generator("GenRange.v")
def gen(src: str) -> str:
    sb = parse_module(src, "storage_backend.py")
    cls = None
    for n in ast.walk(sb):
        if isinstance(n, ast.ClassDef) and n.name == "S3RangeFile":
            cls = n
    if cls is None:
        raise Unsupported("class S3RangeFile not found")
    check_get_range(cls)
    return "\n".join([
        "(* GENERATED by translator/gen_range.py from storage_backend.py (class S3RangeFile) -- do not edit. *)",
        "From Coq Require Import ZArith List Bool.",
        "Require Import DS.Model.Range.",
        "Open Scope Z_scope.",
        "",
        gen_seek(cls),
        gen_readinto(cls),
        gen_readall(cls),
        "(* `self._pos += <number of bytes received>` *)",
        "Definition gen_rf_advance (pos n : Z) : Z := pos + n.",
        "",
    ])


if __name__ == "__main__":
    import sys
    print(gen(sys.argv[1]))
