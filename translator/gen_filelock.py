"""GenFileLock.v -- the local metadata lock's primitive skeleton, read off the source (C01).

    FileLock._try_acquire_once / FileLock.release      (file_lock.py, the branch taken where fcntl exists)
      gen_lock_disc          the OWNERSHIP DISCIPLINE of the kernel primitive the attempt uses (coq/Model/ProcLockBase.v `disc`):
                               fcntl.flock  -> ByDescription  (the lock belongs to the open file description: only an unlock
                                                               through / the close of THAT description releases it)
                               fcntl.lockf  -> ByProcess      (POSIX record lock: belongs to the process; any descriptor of the
                                                               process re-takes it, closing ANY descriptor of the file drops it)
      gen_attempt_granted    the primitives in program order when the kernel grants the attempt
      gen_attempt_refused    ... when the kernel refuses it (the `except OSError` arm)
      gen_release            the primitives of release() for a held lock
    FileLock.is_held, LocalLockProvider (lock_provider.py)
      gen_fence_is_flag      the fence of the commit point (LocalLockProvider.is_held) is FileLock's local flag `_locked`

Checked and fail-closed (Unsupported) rather than emitted, because coq/Model/ProcLock.v has no vocabulary for the alternative:
  * the lock file is opened by `os.open(self.lock_file, os.O_CREAT | os.O_RDWR)`; the descriptor that is locked, stored in
    `self._lock_fd`, closed on refusal, unlocked and closed by release() is that one descriptor;
  * unlock uses the same primitive as the attempt;
  * no other call (helper methods, other fcntl / os / threading primitives, unlink ...) occurs on these paths;
  * ONE INODE: Model/ProcLock.v has one lock object -- every handle's os.open reaches the same inode for the life of the
    table.  That holds only if nothing unlinks / renames / replaces the lock file, so the rest of FileLock is inspected too
    (_single_inode): __init__ calls nothing; acquire() calls only os.path.dirname(self.lock_file), os.makedirs(lock_dir,
    exist_ok=True), the clock, the sleep, TimeoutError and the attempt; __enter__ / __exit__ / __del__ only delegate to
    acquire() / release(); FileLock has no method besides these; no module-level code of file_lock.py touches a path; and in
    the rest of the package the lock file's path is mentioned exactly once (MetadataManager: create_lock(".locks/metadata.lock"))
    and no module reads FileLock.lock_file.  (Not covered lexically: code that deletes files it finds by LISTING the table
    directory; the harness's lock-layer trace reports any unlink / rename of the lock file at run time.)
  * every LocalLockProvider owns ONE FileLock of its own (`self.lock = FileLock(lock_path, timeout)`) and delegates
    acquire / release / is_held to it (a handle of the model = a FileLock instance = a lock provider = a Table handle).

The theorems of coq/Props/C01.v about the lock layer are stated over gen_lock_disc: if the source moves to a primitive with
another discipline, `Proofs/ProcLockProofs.v` (mutual exclusion of FileLock handles under EVERY process topology) no longer
checks.
"""
from __future__ import annotations

import ast
from typing import Dict, List, Optional, Tuple

from core import Unsupported, find_function, generator, parse_module, strip_docstring

CONFIG = {"FCNTL_AVAILABLE": True, "MSVCRT_AVAILABLE": False}     # the platform the checks run on
DISC_OF = {"flock": "ByDescription", "lockf": "ByProcess"}
OSERROR_NAMES = {"IOError", "OSError", "BlockingIOError", "Exception", "BaseException"}


def _u(n: ast.AST) -> str:
    return ast.unparse(n)


def _cfg(t: ast.AST) -> Optional[bool]:
    """Value of a test over the platform flags, None if it is not one."""
    if isinstance(t, ast.Name) and t.id in CONFIG:
        return CONFIG[t.id]
    if isinstance(t, ast.UnaryOp) and isinstance(t.op, ast.Not):
        v = _cfg(t.operand)
        return None if v is None else (not v)
    if isinstance(t, ast.BoolOp):
        vs = [_cfg(v) for v in t.values]
        if any(v is None for v in vs):
            return None
        return any(vs) if isinstance(t.op, ast.Or) else all(vs)
    return None


def _callname(c: ast.Call) -> str:
    return _u(c.func)


class _Path:
    """One path through a FileLock method: `refuse` = the kernel refuses the (non-blocking, exclusive) lock attempt."""

    def __init__(self, where: str, refuse: bool):
        self.where = where
        self.refuse = refuse
        self.actions: List[str] = []
        self.prims: List[str] = []          # fcntl primitive names used for attempt / unlock
        self.fd_open: Optional[str] = None  # name bound by os.open
        self.fd_args: List[Tuple[str, str]] = []   # (action, descriptor expression)
        self.stored_fd: Optional[str] = None
        self.raised = False                 # the refused attempt has raised and no handler has caught it yet
        self.returned: Optional[str] = None

    # ---- expressions: no call may hide in them
    def _no_calls(self, e: ast.AST, ctx: str) -> None:
        for n in ast.walk(e):
            if isinstance(n, ast.Call):
                raise Unsupported(f"{self.where}: call outside the lock vocabulary in {ctx}: {_u(n)}")

    def _call(self, c: ast.Call, target: Optional[ast.AST]) -> None:
        nm = _callname(c)
        if nm.startswith("logger."):
            return
        for a in list(c.args) + [k.value for k in c.keywords]:
            self._no_calls(a, _u(c))
        if nm == "os.open":
            if not (len(c.args) == 2 and _u(c.args[0]) == "self.lock_file" and _u(c.args[1]) == "os.O_CREAT | os.O_RDWR" and not c.keywords):
                raise Unsupported(f"{self.where}: the lock file is not opened by os.open(self.lock_file, os.O_CREAT | os.O_RDWR): {_u(c)}")
            if not isinstance(target, ast.Name) or self.fd_open is not None:
                raise Unsupported(f"{self.where}: the descriptor of the lock file is not bound to one local name: {_u(c)}")
            self.fd_open = target.id
            self.actions.append("LAOpen")
            return
        if target is not None:
            raise Unsupported(f"{self.where}: result of {nm} is kept: {_u(target)}")
        if nm in ("fcntl.flock", "fcntl.lockf"):
            prim = nm.split(".")[1]
            if len(c.args) != 2 or c.keywords:
                raise Unsupported(f"{self.where}: {nm} with a byte range or keywords: {_u(c)}")
            flags = _u(c.args[1])
            if flags == "fcntl.LOCK_EX | fcntl.LOCK_NB":
                self.actions.append("LATry")
                self.fd_args.append(("try", _u(c.args[0])))
                self.prims.append(prim)
                if self.refuse:
                    self.raised = True
            elif flags == "fcntl.LOCK_UN":
                self.actions.append("LAUnlock")
                self.fd_args.append(("unlock", _u(c.args[0])))
                self.prims.append(prim)
            else:
                raise Unsupported(f"{self.where}: {nm} with flags {flags} (a blocking or shared lock is outside the model)")
            return
        if nm == "os.close":
            if len(c.args) != 1:
                raise Unsupported(f"{self.where}: {_u(c)}")
            self.actions.append("LAClose")
            self.fd_args.append(("close", _u(c.args[0])))
            return
        raise Unsupported(f"{self.where}: call outside the lock vocabulary: {_u(c)}")

    def body(self, stmts: List[ast.stmt]) -> None:
        for s in stmts:
            if self.raised or self.returned is not None:
                return
            self.stmt(s)

    def stmt(self, s: ast.stmt) -> None:
        if isinstance(s, ast.Pass):
            return
        if isinstance(s, ast.Return):
            if s.value is not None:
                self._no_calls_or_fallback(s.value)
            self.returned = _u(s.value) if s.value is not None else "None"
            return
        if isinstance(s, ast.Expr):
            if isinstance(s.value, ast.Constant):
                return
            if not isinstance(s.value, ast.Call):
                raise Unsupported(f"{self.where}: expression statement {_u(s)}")
            self._call(s.value, None)
            return
        if isinstance(s, ast.Assign):
            if len(s.targets) != 1:
                raise Unsupported(f"{self.where}: multiple assignment {_u(s)}")
            t = s.targets[0]
            if isinstance(s.value, ast.Call):
                self._call(s.value, t)
                return
            self._no_calls(s.value, _u(s))
            tt = _u(t)
            if tt == "self._locked":
                if not (isinstance(s.value, ast.Constant) and isinstance(s.value.value, bool)):
                    raise Unsupported(f"{self.where}: the held flag is not set to a constant: {_u(s)}")
                self.actions.append(f"LAHeld {'true' if s.value.value else 'false'}")
            elif tt == "self._lock_fd":
                self.stored_fd = _u(s.value)
            elif tt == "self._used_excl_fallback":
                if _u(s.value) != "False":
                    raise Unsupported(f"{self.where}: kernel-lock path marks the lock as an existence lock: {_u(s)}")
            else:
                raise Unsupported(f"{self.where}: assignment to {tt}")
            return
        if isinstance(s, ast.If):
            v = _cfg(s.test)
            if v is None:
                if _u(s.test) == "self._used_excl_fallback":
                    v = False          # the kernel-lock attempt stores False (checked above); the O_EXCL fallback is another platform
                else:
                    raise Unsupported(f"{self.where}: branch on {_u(s.test)}")
            self.body(s.body if v else s.orelse)
            return
        if isinstance(s, ast.Try):
            self.body(s.body)
            if self.raised:
                for h in s.handlers:
                    names = [_u(x) for x in h.type.elts] if isinstance(h.type, ast.Tuple) else ([_u(h.type)] if h.type is not None else ["BaseException"])
                    if any(n in OSERROR_NAMES for n in names):
                        self.raised = False
                        self.body(h.body)
                        break
            else:
                # handlers not taken on this path: they must not hide primitives of their own kind (checked on the other path),
                # and a best-effort `except Exception: pass` is fine
                if self.returned is None:
                    self.body(s.orelse)
            saved = self.returned
            self.returned = None
            was_raised = self.raised
            self.raised = False
            self.body(s.finalbody)
            self.raised = was_raised
            if self.returned is None:
                self.returned = saved
            return
        raise Unsupported(f"{self.where}: statement kind {type(s).__name__}: {_u(s)[:80]}")

    def _no_calls_or_fallback(self, e: ast.AST) -> None:
        if isinstance(e, ast.Call) and _u(e) == "self._try_acquire_excl_fallback()":
            raise Unsupported(f"{self.where}: the kernel-lock branch falls through to the O_EXCL fallback on a platform with fcntl")
        self._no_calls(e, "return")


def _handlers_quiet(fn: ast.FunctionDef, where: str) -> None:
    """Handlers that are not OSError arms of the attempt (best-effort cleanup) contain no primitive."""
    for t in ast.walk(fn):
        if isinstance(t, ast.Try):
            for h in t.handlers:
                names = [_u(x) for x in h.type.elts] if isinstance(h.type, ast.Tuple) else ([_u(h.type)] if h.type is not None else ["BaseException"])
                if any(n not in OSERROR_NAMES for n in names):
                    raise Unsupported(f"{where}: handler for {names}")
                for st in h.body:
                    for c in ast.walk(st):
                        if isinstance(c, ast.Call) and _callname(c) != "os.close" and not _callname(c).startswith("logger."):
                            raise Unsupported(f"{where}: an exception handler calls {_u(c)}")


def _attempt(fn: ast.FunctionDef) -> Tuple[List[str], List[str], str]:
    where = "FileLock._try_acquire_once"
    if [a.arg for a in fn.args.args] != ["self"]:
        raise Unsupported(f"{where}: parameters changed")
    _handlers_quiet(fn, where)
    out = {}
    for refuse in (False, True):
        p = _Path(where, refuse)
        p.body(strip_docstring(fn.body))
        if p.raised:
            raise Unsupported(f"{where}: a refused attempt is not caught (the OSError escapes)")
        if p.returned != ("False" if refuse else "True"):
            raise Unsupported(f"{where}: the {'refused' if refuse else 'granted'} attempt returns {p.returned}")
        if p.fd_open is None or any(fd != p.fd_open for _k, fd in p.fd_args):
            raise Unsupported(f"{where}: the descriptor locked / closed is not the one os.open returned: {p.fd_args}")
        if not refuse and p.stored_fd != p.fd_open:
            raise Unsupported(f"{where}: self._lock_fd is not the locked descriptor (is {p.stored_fd})")
        if refuse and (p.stored_fd is not None or any(a.startswith("LAHeld") for a in p.actions)):
            raise Unsupported(f"{where}: a refused attempt touches the instance's lock state")
        out[refuse] = p
    prims = set(out[False].prims) | set(out[True].prims)
    if len(prims) != 1:
        raise Unsupported(f"{where}: not exactly one locking primitive: {sorted(prims)}")
    return out[False].actions, out[True].actions, prims.pop()


def _release(fn: ast.FunctionDef) -> Tuple[List[str], str]:
    where = "FileLock.release"
    body = strip_docstring(fn.body)
    if not (body and isinstance(body[0], ast.If) and _u(body[0].test) == "not self._locked or self._lock_fd is None"
            and len(body[0].body) == 1 and isinstance(body[0].body[0], ast.Return) and body[0].body[0].value is None and not body[0].orelse):
        raise Unsupported(f"{where}: does not start with `if not self._locked or self._lock_fd is None: return`")
    _handlers_quiet(fn, where)
    p = _Path(where, False)
    p.fd_open = "self._lock_fd"             # release works on the stored descriptor
    p.body(body[1:])
    if any(fd != "self._lock_fd" for _k, fd in p.fd_args):
        raise Unsupported(f"{where}: unlocks / closes something else than self._lock_fd: {p.fd_args}")
    if p.stored_fd != "None":
        raise Unsupported(f"{where}: self._lock_fd is not cleared")
    if len(set(p.prims)) != 1:
        raise Unsupported(f"{where}: not exactly one unlocking primitive: {p.prims}")
    return p.actions, p.prims[0]


def _provider(lp: ast.Module, flc: ast.ClassDef) -> None:
    held = find_function(flc, "is_held")
    b = strip_docstring(held.body)
    if not (len(b) == 1 and isinstance(b[0], ast.Return) and _u(b[0].value) == "self._locked"):
        raise Unsupported("FileLock.is_held is not `return self._locked`")
    cls = None
    for n in lp.body:
        if isinstance(n, ast.ClassDef) and n.name == "LocalLockProvider":
            cls = n
    if cls is None:
        raise Unsupported("class LocalLockProvider not found")
    want: Dict[str, List[str]] = {
        "__init__": ["self.lock = FileLock(lock_path, timeout)"],
        "acquire": ["return self.lock.acquire()"],
        "release": ["self.lock.release()"],
        "is_held": ["return self.lock.is_held()"],
    }
    for name, stmts in want.items():
        got = [_u(s) for s in strip_docstring(find_function(cls, name).body)]
        if got != stmts:
            raise Unsupported(f"LocalLockProvider.{name} is not {stmts}: {got}")
    acq = find_function(flc, "acquire")
    calls = [_u(c) for c in ast.walk(acq) if isinstance(c, ast.Call) and _u(c.func).startswith("self.")]
    if calls != ["self._try_acquire_once()"]:
        raise Unsupported(f"FileLock.acquire calls {calls} (expected only the attempt loop over self._try_acquire_once())")


# ---- the single-inode assumption of Model/ProcLock.v (one lock object): nothing may unlink / rename / recreate the lock file
FILELOCK_METHODS = {"__init__", "is_held", "acquire", "_try_acquire_once", "_try_acquire_excl_fallback", "release",
                    "__enter__", "__exit__", "__del__"}
ACQUIRE_CALLS = {"os.path.dirname(self.lock_file)", "os.makedirs(lock_dir, exist_ok=True)", "time.monotonic()",
                 "time.sleep(self._POLL_INTERVAL)", "self._try_acquire_once()"}
LOCK_PATH_SITES = {("metadata_manager.py", ".locks/metadata.lock")}


def _calls(fn: ast.AST) -> List[ast.Call]:
    return [c for c in ast.walk(fn) if isinstance(c, ast.Call)]


def _single_inode(src: str, fl: ast.Module, flc: ast.ClassDef) -> None:
    import os as _os
    import re as _re
    methods = {n.name: n for n in flc.body if isinstance(n, (ast.FunctionDef, ast.AsyncFunctionDef))}
    extra = sorted(set(methods) - FILELOCK_METHODS)
    if extra:
        raise Unsupported(f"FileLock has methods outside the modelled handle program: {extra}")
    for n in flc.body:
        if not isinstance(n, (ast.FunctionDef, ast.Assign, ast.AnnAssign)) and not (isinstance(n, ast.Expr) and isinstance(n.value, ast.Constant)):
            raise Unsupported(f"FileLock: class-level statement {_u(n)[:80]}")
        if isinstance(n, (ast.Assign, ast.AnnAssign)) and _calls(n):
            raise Unsupported(f"FileLock: class-level call {_u(n)[:80]}")
    init = methods.get("__init__")
    if init is None or _calls(init):
        raise Unsupported(f"FileLock.__init__ calls {[_u(c) for c in _calls(init)] if init else 'nothing: missing'} (expected: no call)")
    for c in _calls(methods["acquire"]):
        nm = _callname(c)
        if _u(c) in ACQUIRE_CALLS or nm.startswith("logger.") or nm == "TimeoutError":
            if nm == "TimeoutError":
                for a in list(c.args) + [k.value for k in c.keywords]:
                    if any(isinstance(x, ast.Call) for x in ast.walk(a)):
                        raise Unsupported(f"FileLock.acquire: call inside the TimeoutError message: {_u(c)}")
            continue
        raise Unsupported(f"FileLock.acquire: call outside the lock vocabulary (the lock file must stay ONE inode: no unlink / "
                          f"rename / re-creation; expected only {sorted(ACQUIRE_CALLS)}): {_u(c)}")
    want = {"__enter__": ["self.acquire()", "return self"], "__exit__": ["self.release()"]}
    for name, stmts in want.items():
        if name in methods and [_u(x) for x in strip_docstring(methods[name].body)] != stmts:
            raise Unsupported(f"FileLock.{name} is not {stmts}")
    if "__del__" in methods:
        b = strip_docstring(methods["__del__"].body)
        if not (len(b) == 1 and isinstance(b[0], ast.If) and _u(b[0].test) == "self._locked" and not b[0].orelse
                and [_u(x) for x in b[0].body] == ["self.release()"]):
            raise Unsupported("FileLock.__del__ is not `if self._locked: self.release()`")
    # module level of file_lock.py: imports, platform flags, the logger, the class, and helpers that only go through FileLock
    for n in fl.body:
        if isinstance(n, ast.ClassDef) and n.name == "FileLock":
            continue
        for c in _calls(n):
            nm = _callname(c)
            if nm.startswith(("os.", "shutil.", "fcntl.", "pathlib.", "msvcrt.")) or nm in ("open", "Path"):
                raise Unsupported(f"file_lock.py: module-level code outside class FileLock calls {_u(c)}")
    # the rest of the package: the lock file's path is named once, FileLock.lock_file is read nowhere
    pat = _re.compile(r"\.locks?(/|$|\b)")
    for dirpath, _dirs, files in _os.walk(src):
        for f in sorted(files):
            if not f.endswith(".py") or f == "file_lock.py":
                continue
            rel = _os.path.relpath(_os.path.join(dirpath, f), src)
            mod = parse_module(src, rel)
            doc = {id(n.value) for n in ast.walk(mod) if isinstance(n, ast.Expr) and isinstance(n.value, ast.Constant)}
            for n in ast.walk(mod):
                if isinstance(n, ast.Constant) and isinstance(n.value, str) and id(n) not in doc and pat.search(n.value):
                    if (rel, n.value) not in LOCK_PATH_SITES:
                        raise Unsupported(f"{rel}: mentions a lock-file path outside the known site: {n.value!r}")
                if isinstance(n, ast.Attribute) and n.attr == "lock_file":
                    raise Unsupported(f"{rel}: reads FileLock.lock_file ({_u(n)}): the lock file may be touched outside FileLock")


@generator("GenFileLock.v")
def gen(src: str) -> str:
    fl = parse_module(src, "file_lock.py")
    lp = parse_module(src, "lock_provider.py")
    flc = None
    for n in fl.body:
        if isinstance(n, ast.ClassDef) and n.name == "FileLock":
            flc = n
    if flc is None:
        raise Unsupported("class FileLock not found")
    granted, refused, prim_a = _attempt(find_function(flc, "_try_acquire_once"))
    release, prim_r = _release(find_function(flc, "release"))
    if prim_a != prim_r:
        raise Unsupported(f"the lock is taken with fcntl.{prim_a} and released with fcntl.{prim_r}")
    _provider(lp, flc)
    _single_inode(src, fl, flc)
    out = [
        "(* GENERATED by translator/gen_filelock.py from file_lock.py / lock_provider.py -- do not edit. *)",
        "From Coq Require Import List Bool.",
        "Require Import DS.Model.ProcLockBase.",
        "Import ListNotations.",
        "",
        f"(* ownership discipline of the kernel primitive FileLock uses: fcntl.{prim_a} *)",
        f"Definition gen_lock_disc : disc := {DISC_OF[prim_a]}.",
        "(* FileLock._try_acquire_once, kernel grants the attempt *)",
        f"Definition gen_attempt_granted : list lact := [{'; '.join(granted)}].",
        "(* FileLock._try_acquire_once, kernel refuses the attempt *)",
        f"Definition gen_attempt_refused : list lact := [{'; '.join(refused)}].",
        "(* FileLock.release of a held lock *)",
        f"Definition gen_release : list lact := [{'; '.join(release)}].",
        "(* LocalLockProvider.is_held() = FileLock.is_held() = the instance's flag; one FileLock per provider *)",
        "Definition gen_fence_is_flag : bool := true.",
        "",
    ]
    return "\n".join(out)


if __name__ == "__main__":
    import sys
    print(gen(sys.argv[1]))
