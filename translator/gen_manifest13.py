"""GenManifest13.v -- how column bounds travel through a manifest, read off the source (C13).

    FileManager.create_manifest_file        (file_manager.py)
      gen_status_added / gen_status_existing   the ENTRY_STATUS_* constants
      gen_entries                              the entry order: the iterable of the record loop
                                               `[(f, ADDED) for f in data_files] + [(f, EXISTING) for f in existing_files]`
      gen_record                               what one record holds of the DataFile's bounds: the expressions under the
                                               "lower_bounds" / "upper_bounds" keys of the record's "data_file" dict
                                               (`{str(k): self._encode_bound(v) for k, v in df.X.items()} if df.X else None`)
    FileManager.read_manifest_file
      gen_read_entry                           what the reader makes of one record's bounds
                                               (`b = df_record.get(X)`; `if b: b = {int(k): self._decode_bound(v) for ...}`;
                                               `DataFile(..., lower_bounds=..., upper_bounds=...)`)

self._encode_bound / self._decode_bound are Model/Bound.v `enc` / `dec` (over the regenerated GenBound.v).

Checked and fail-closed (Unsupported) rather than emitted, because the model has no vocabulary for the alternative:
  * the bound expressions are functions of THIS DataFile's own bound map alone (a dict comprehension over its items whose
    key is str(k) and whose value is self._encode_bound(v)): no state shared between bounds, entries or calls;
  * df.lower_bounds / df.upper_bounds are read only inside those two expressions; the loop body does not touch `record` /
    `records` except `record = {...}` and the unconditional `records.append(record)`; the DataFile is not handed to any call;
  * data_files / existing_files are not reassigned (but `existing_files = existing_files or []`) nor used through a method;
  * `records` goes to fastavro.writer(...) and its bytes to self.storage.write_file(manifest_path, ...);
  * the reader appends one DataFile per record of fastavro.reader(stream), in order, built from the two decoded maps.
"""
from __future__ import annotations

import ast
from typing import Dict, List, Optional, Tuple

from core import Unsupported, dump, find_function, generator, parse_module, strip_docstring


def _u(n: ast.AST) -> str:
    return ast.unparse(n)


BOUND_ATTRS = {"lower_bounds": "df_lower", "upper_bounds": "df_upper"}
KEY_FN = {"str": "py_str_of_id", "int": "py_int_of_key"}
VAL_FN = {"_encode_bound": "enc", "_decode_bound": "dec"}


def dictcomp(n: ast.AST, source_ok) -> Tuple[str, ast.AST]:
    """`{K(k): self.M(v) for k, v in SRC.items()}` -> (Gallina `map ...` body applied to `items SRC'`, SRC node)."""
    if not isinstance(n, ast.DictComp) or len(n.generators) != 1:
        raise Unsupported(f"bounds expression is not a one-generator dict comprehension: {_u(n)}")
    g = n.generators[0]
    if g.ifs or g.is_async:
        raise Unsupported(f"dict comprehension with a condition / async: {_u(n)}")
    if not (isinstance(g.target, ast.Tuple) and [dump(e) for e in g.target.elts] == ["Name('k', Store())", "Name('v', Store())"]):
        raise Unsupported(f"dict comprehension target is not `k, v`: {_u(n)}")
    it = g.iter
    if not (isinstance(it, ast.Call) and not it.args and not it.keywords and isinstance(it.func, ast.Attribute) and it.func.attr == "items"):
        raise Unsupported(f"dict comprehension does not iterate SRC.items(): {_u(n)}")
    src = it.func.value
    src_coq = source_ok(src)
    k = n.key
    if not (isinstance(k, ast.Call) and isinstance(k.func, ast.Name) and k.func.id in KEY_FN and len(k.args) == 1 and not k.keywords
            and dump(k.args[0]) == "Name('k', Load())"):
        raise Unsupported(f"dict comprehension key is not str(k) / int(k): {_u(k)}")
    v = n.value
    if not (isinstance(v, ast.Call) and isinstance(v.func, ast.Attribute) and dump(v.func.value) == "Name('self', Load())"
            and v.func.attr in VAL_FN and len(v.args) == 1 and not v.keywords and dump(v.args[0]) == "Name('v', Load())"):
        raise Unsupported(f"dict comprehension value is not self._encode_bound(v) / self._decode_bound(v): {_u(v)}")
    body = (f"(map (fun kv => let k := fst kv in let v := snd kv in ({KEY_FN[k.func.id]} k, {VAL_FN[v.func.attr]} v)) "
            f"(items {src_coq}))")
    return body, src


def df_attr(n: ast.AST) -> str:
    if isinstance(n, ast.Attribute) and dump(n.value) == "Name('df', Load())" and n.attr in BOUND_ATTRS:
        return f"({BOUND_ATTRS[n.attr]} df)"
    raise Unsupported(f"expected df.lower_bounds / df.upper_bounds, got {_u(n)}")


def write_bound_expr(n: ast.AST) -> str:
    """`{...} if df.X else None`"""
    if not (isinstance(n, ast.IfExp) and isinstance(n.orelse, ast.Constant) and n.orelse.value is None):
        raise Unsupported(f"bounds entry of the record is not `<dict comprehension> if df.X else None`: {_u(n)}")
    test = df_attr(n.test)
    body, src = dictcomp(n.body, df_attr)
    if dump(src) != dump(n.test):
        raise Unsupported(f"bounds entry tests one map and encodes another: {_u(n)}")
    return f"(if truthy {test} then Some {body} else None)"


def names(node: ast.AST, ident: str) -> List[ast.Name]:
    return [x for x in ast.walk(node) if isinstance(x, ast.Name) and x.id == ident]


def writer_terms(fn: ast.FunctionDef, mod: ast.Module) -> Dict[str, str]:
    body = strip_docstring(fn.body)
    loops = [s for s in body if isinstance(s, ast.For)]
    if len(loops) != 1:
        raise Unsupported(f"create_manifest_file: expected exactly one top-level for loop, found {len(loops)}")
    loop = loops[0]
    li = body.index(loop)
    if loop.orelse or dump(loop.target) != "Tuple([Name('df', Store()), Name('status', Store())], Store())":
        raise Unsupported(f"create_manifest_file: record loop target is not `df, status`: {_u(loop.target)}")
    want_iter = "[(f, ENTRY_STATUS_ADDED) for f in data_files] + [(f, ENTRY_STATUS_EXISTING) for f in existing_files]"
    if _u(loop.iter) != want_iter:
        raise Unsupported(f"create_manifest_file: entry order changed.\n expected {want_iter}\n got      {_u(loop.iter)}")
    # the two input lists are used as given
    for ident in ("data_files", "existing_files"):
        for s in ast.walk(fn):
            if isinstance(s, ast.Name) and s.id == ident and isinstance(s.ctx, ast.Store):
                par = [a for a in body if isinstance(a, ast.Assign) and s in a.targets]
                if not (ident == "existing_files" and par and _u(par[0]) == "existing_files = existing_files or []"
                        and body.index(par[0]) < li):
                    raise Unsupported(f"create_manifest_file: {ident} is reassigned")
            if isinstance(s, ast.Attribute) and isinstance(s.value, ast.Name) and s.value.id == ident:
                raise Unsupported(f"create_manifest_file: {ident}.{s.attr} (the input list is used through a method)")
    # records: initialised empty, appended to once per entry, handed to fastavro, bytes written to the manifest path
    pre = [_u(s) for s in body[:li]]
    post = [_u(s) for s in body[li + 1:]]
    if "records = []" not in pre:
        raise Unsupported("create_manifest_file: `records = []` not found before the record loop")
    for need in ("bytes_io = BytesIO()", "fastavro.writer(bytes_io, MANIFEST_ENTRY_SCHEMA, records)", "content = bytes_io.getvalue()",
                 "self.storage.write_file(manifest_path, content)"):
        if need not in post:
            raise Unsupported(f"create_manifest_file: `{need}` not found after the record loop")
    if len(names(fn, "records")) != 3:
        raise Unsupported("create_manifest_file: `records` is used outside `records = []` / append / fastavro.writer")
    # loop body
    rec_stmts = [s for s in loop.body if isinstance(s, ast.Assign) and dump(s.targets) == "[Name('record', Store())]"]
    app_stmts = [s for s in loop.body if _u(s) == "records.append(record)"]
    if len(rec_stmts) != 1 or len(app_stmts) != 1 or loop.body.index(app_stmts[0]) < loop.body.index(rec_stmts[0]):
        raise Unsupported("create_manifest_file: loop body is not `... record = {...} ... records.append(record)`")
    if len(names(loop, "record")) != 2:
        raise Unsupported("create_manifest_file: `record` is used outside its assignment and the append")
    for s in ast.walk(loop):
        if isinstance(s, (ast.Continue, ast.Break, ast.Return)):
            raise Unsupported("create_manifest_file: the record loop skips / leaves early")
        if isinstance(s, ast.Call):
            for a in list(s.args) + [k.value for k in s.keywords]:
                if isinstance(a, (ast.Name, ast.Starred)) and "df" in [x.id for x in ast.walk(a) if isinstance(x, ast.Name)]:
                    if not (isinstance(s.func, ast.Name) and s.func.id == "hasattr"):
                        raise Unsupported(f"create_manifest_file: the DataFile is handed to a call: {_u(s)}")
        if isinstance(s, ast.Attribute) and isinstance(s.value, ast.Name) and s.value.id == "df":
            if not isinstance(s.ctx, ast.Load) or s.attr.startswith("__"):
                raise Unsupported(f"create_manifest_file: the DataFile is modified / introspected: {_u(s)}")
    rec = rec_stmts[0].value
    if not isinstance(rec, ast.Dict):
        raise Unsupported("create_manifest_file: record is not a dict display")
    keys = [k.value if isinstance(k, ast.Constant) else None for k in rec.keys]
    if keys.count("status") != 1 or keys.count("data_file") != 1 or None in keys:
        raise Unsupported(f"create_manifest_file: record keys {keys}")
    st = rec.values[keys.index("status")]
    if dump(st) != "Name('status', Load())":
        raise Unsupported(f"create_manifest_file: record status is {_u(st)}")
    dfd = rec.values[keys.index("data_file")]
    if not isinstance(dfd, ast.Dict):
        raise Unsupported("create_manifest_file: record['data_file'] is not a dict display")
    dkeys = [k.value if isinstance(k, ast.Constant) else None for k in dfd.keys]
    if None in dkeys:
        raise Unsupported("create_manifest_file: record['data_file'] has a computed key / ** expansion")
    out: Dict[str, str] = {}
    allowed_reads: List[ast.AST] = []
    for key in BOUND_ATTRS:
        if dkeys.count(key) != 1:
            raise Unsupported(f"create_manifest_file: record['data_file'] has {dkeys.count(key)} '{key}' entries")
        e = dfd.values[dkeys.index(key)]
        out[key] = write_bound_expr(e)
        allowed_reads += [x for x in ast.walk(e)]
    for s in ast.walk(loop):
        if isinstance(s, ast.Attribute) and isinstance(s.value, ast.Name) and s.value.id == "df" and s.attr in BOUND_ATTRS \
                and not any(s is x for x in allowed_reads):
            raise Unsupported(f"create_manifest_file: {_u(s)} is read outside the record's bounds entries")
    # status constants
    consts: Dict[str, int] = {}
    for s in mod.body:
        if isinstance(s, ast.Assign) and len(s.targets) == 1 and isinstance(s.targets[0], ast.Name) \
                and s.targets[0].id in ("ENTRY_STATUS_ADDED", "ENTRY_STATUS_EXISTING"):
            if not (isinstance(s.value, ast.Constant) and type(s.value.value) is int):
                raise Unsupported(f"{s.targets[0].id} is not an int literal")
            consts[s.targets[0].id] = s.value.value
    if set(consts) != {"ENTRY_STATUS_ADDED", "ENTRY_STATUS_EXISTING"} or consts["ENTRY_STATUS_ADDED"] == consts["ENTRY_STATUS_EXISTING"]:
        raise Unsupported(f"ENTRY_STATUS_* constants: {consts}")
    out["added"] = str(consts["ENTRY_STATUS_ADDED"])
    out["existing"] = str(consts["ENTRY_STATUS_EXISTING"])
    return out


def reader_terms(fn: ast.FunctionDef) -> Dict[str, str]:
    body = strip_docstring(fn.body)
    tries = [s for s in body if isinstance(s, ast.Try)]
    if not tries or not (len(tries[0].body) == 1 and isinstance(tries[0].body[0], ast.With)):
        raise Unsupported("read_manifest_file: the Avro branch is not `try: with self.storage.open_file(...) as stream:`")
    w = tries[0].body[0]
    if [_u(i) for i in w.items] != ["self.storage.open_file(manifest_path) as stream"]:
        raise Unsupported(f"read_manifest_file: with items {[_u(i) for i in w.items]}")
    wb = w.body
    if len(wb) != 4 or _u(wb[0]) != "reader = fastavro.reader(stream)" or _u(wb[1]) != "data_files = []" \
            or not isinstance(wb[2], ast.For) or _u(wb[3]) != "return data_files":
        raise Unsupported("read_manifest_file: Avro branch is not `reader = fastavro.reader(stream); data_files = []; for ...; return data_files`")
    loop = wb[2]
    if loop.orelse or _u(loop.target) != "record_raw" or _u(loop.iter) != "reader":
        raise Unsupported("read_manifest_file: loop is not `for record_raw in reader`")
    for s in ast.walk(loop):
        if isinstance(s, (ast.Continue, ast.Break, ast.Return)):
            raise Unsupported("read_manifest_file: the record loop skips / leaves early")
    lb = loop.body
    src = [_u(s) for s in lb]
    for need in ("record: Dict[str, Any] = record_raw", "df_record: Dict[str, Any] = record['data_file']", "data_files.append(data_file)"):
        if src.count(need) != 1:
            raise Unsupported(f"read_manifest_file: `{need}` not found exactly once in the record loop")
    for ident in ("record", "df_record", "data_file"):
        if sum(1 for x in names(loop, ident) if isinstance(x.ctx, ast.Store)) != 1:
            raise Unsupported(f"read_manifest_file: `{ident}` assigned more than once")
    if len(names(loop, "data_files")) != 1:
        raise Unsupported("read_manifest_file: `data_files` used in the loop other than the append")
    out: Dict[str, str] = {}
    for key in BOUND_ATTRS:
        stores = [x for x in names(loop, key) if isinstance(x.ctx, ast.Store)]
        get = f"{key} = df_record.get('{key}')"
        if src.count(get) != 1:
            raise Unsupported(f"read_manifest_file: `{get}` not found exactly once")
        i = src.index(get)
        nxt = lb[i + 1] if i + 1 < len(lb) else None
        if not (isinstance(nxt, ast.If) and not nxt.orelse and _u(nxt.test) == key and len(nxt.body) == 1
                and isinstance(nxt.body[0], ast.Assign) and dump(nxt.body[0].targets) == f"[Name('{key}', Store())]"):
            raise Unsupported(f"read_manifest_file: `{get}` is not followed by `if {key}: {key} = {{...}}`")
        if len(stores) != 2:
            raise Unsupported(f"read_manifest_file: `{key}` is assigned {len(stores)} times in the record loop")

        def src_ok(n: ast.AST, _key=key) -> str:
            if dump(n) != f"Name('{_key}', Load())":
                raise Unsupported(f"read_manifest_file: {_key} is decoded from {_u(n)}")
            return _key
        comp, _ = dictcomp(nxt.body[0].value, src_ok)
        out[key] = f"(if truthy {key} then Some {comp} else keep_falsy {key})"
    mk = [s for s in lb if isinstance(s, ast.Assign) and dump(s.targets) == "[Name('data_file', Store())]"]
    if len(mk) != 1 or not (isinstance(mk[0].value, ast.Call) and _u(mk[0].value.func) == "DataFile" and not mk[0].value.args):
        raise Unsupported("read_manifest_file: `data_file = DataFile(<keywords>)` not found")
    if lb.index(mk[0]) < max(src.index(f"{k} = df_record.get('{k}')") + 1 for k in BOUND_ATTRS) \
            or src.index("data_files.append(data_file)") < lb.index(mk[0]):
        raise Unsupported("read_manifest_file: statement order in the record loop")
    kws = {k.arg: k.value for k in mk[0].value.keywords}
    if None in kws:
        raise Unsupported("read_manifest_file: DataFile(**...)")
    for key in BOUND_ATTRS:
        if key not in kws or dump(kws[key]) != f"Name('{key}', Load())":
            raise Unsupported(f"read_manifest_file: DataFile({key}=...) is not the decoded `{key}`")
        loads = [x for x in names(loop, key) if isinstance(x.ctx, ast.Load)]
        if len(loads) != 3:       # the `if` test, the comprehension's source, the DataFile keyword
            raise Unsupported(f"read_manifest_file: `{key}` is read {len(loads)} times in the record loop (expected 3)")
    return out


@generator("GenManifest13.v")
def gen_manifest(src: str) -> str:
    mod = parse_module(src, "file_manager.py")
    # self._encode_bound / self._decode_bound are the plain functions GenBound.v translates (no wrapper around them)
    for name, deco in (("_encode_bound", "staticmethod"), ("_decode_bound", "classmethod")):
        got = [_u(d) for d in find_function(mod, name, cls="FileManager").decorator_list]
        if got != [deco]:
            raise Unsupported(f"{name}: decorators {got}, expected [{deco}] (a wrapper around the codec is outside the model)")
    for node in ast.walk(mod):
        if isinstance(node, (ast.Assign, ast.AugAssign, ast.AnnAssign)):
            for t in (node.targets if isinstance(node, ast.Assign) else [node.target]):
                if isinstance(t, ast.Attribute) and t.attr in VAL_FN:
                    raise Unsupported(f"{_u(t)} is rebound at run time")
    w = writer_terms(find_function(mod, "create_manifest_file", cls="FileManager"), mod)
    r = reader_terms(find_function(mod, "read_manifest_file", cls="FileManager"))
    return f"""(* GENERATED by translator/gen_manifest13.py from src/datashard/file_manager.py::create_manifest_file/read_manifest_file -- do not edit *)
From Coq Require Import ZArith List Bool String.
Require Import DS.Model.Value DS.Model.BoundPrim DS.Gen.GenBound DS.Model.Bound DS.Model.ManifestPrim.
Import ListNotations.
Open Scope Z_scope.

Definition gen_status_added : Z := {w['added']}.
Definition gen_status_existing : Z := {w['existing']}.

(* the record loop's iterable: ADDED entries for data_files, then EXISTING entries for existing_files *)
Definition gen_entries {{F : Type}} (data_files existing_files : list F) : list (F * Z) :=
  map (fun f => (f, gen_status_added)) data_files ++ map (fun f => (f, gen_status_existing)) existing_files.

(* what one manifest record holds of a DataFile's bounds *)
Definition gen_record (df : dfb) (status : Z) : mrec :=
  {{| r_status := status;
     r_lower := {w['lower_bounds']};
     r_upper := {w['upper_bounds']} |}}.

(* what read_manifest_file makes of one record's bounds *)
Definition gen_read_entry (r : mrec) : dfb :=
  let lower_bounds := r_lower r in
  let upper_bounds := r_upper r in
  {{| df_lower := {r['lower_bounds']};
     df_upper := {r['upper_bounds']} |}}.
"""
