"""GenGCMarker.v -- what GarbageCollector._load_inflight_protection does with ONE listed marker, read off the source (C07).

The decision kernel of the loop `for marker_path in markers:` as functions of the ANSWERS of the storage operations:

  gen_marker_age_ok cutoff stat          `age_ok`: stat = Some t  -- storage.get_modified_time(marker) returned (t in ms);
                                         stat = None -- it raised (any exception class: the handler must catch Exception)
  gen_marker_delete_attempted age_ok     is storage.delete_file(marker) called for this marker?
  gen_marker_protects age_ok del_ok      are the marker's targets added to the protected set?  (del_ok: delete_file returned)
  gen_marker_listing_failure_aborts      a failure of the marker LISTING raises GarbageCollectionAborted

Checked and fail-closed (Unsupported) rather than emitted, because the model (Model/GC.v markers_loop, one storage call per
KListDir / KStat / KRead / KDelete) has no vocabulary for the alternative:
  * the markers are the result of `self.storage.list_files(<const>)` itself, iterated directly: a listing obtained through
    any other backend method (one that stats, filters or sorts the entries on the way) decides on its own which markers the
    collector gets to see;
  * every exception handler of the function catches `Exception` (a narrower handler lets the other classes escape);
  * the only storage operations of the function are list_files, get_modified_time, delete_file (+ _marker_targets);
  * the protected set starts empty, only grows (`update`) and is what the function returns.
Proofs/GCMarkerGenProofs.v proves that Model/GC.v's markers_loop IS the loop built from these definitions, and
Props/C07.v states the fail-closed theorems over them.
"""
from __future__ import annotations

import ast
from typing import List, Optional

from core import Unsupported, dump, find_function, generator, parse_module, strip_docstring

FN = "_load_inflight_protection"
STORAGE_OPS = {"list_files", "get_modified_time", "delete_file"}


def _is_logging(s: ast.stmt) -> bool:
    return (isinstance(s, ast.Expr) and isinstance(s.value, ast.Call) and isinstance(s.value.func, ast.Attribute)
            and isinstance(s.value.func.value, ast.Name) and s.value.func.value.id == "logger")


def _storage_call(n: ast.AST) -> Optional[str]:
    """`self.storage.<op>(...)` -> op"""
    if (isinstance(n, ast.Call) and isinstance(n.func, ast.Attribute) and isinstance(n.func.value, ast.Attribute)
            and n.func.value.attr == "storage" and isinstance(n.func.value.value, ast.Name) and n.func.value.value.id == "self"):
        return n.func.attr
    return None


def _storage_calls(n: ast.AST) -> List[str]:
    return [op for x in ast.walk(n) for op in [_storage_call(x)] if op is not None]


def _catches_everything(t: ast.Try, what: str) -> ast.ExceptHandler:
    if len(t.handlers) != 1 or t.orelse or t.finalbody:
        raise Unsupported(f"{FN}: the try around {what} has not exactly one handler (or has else / finally)")
    h = t.handlers[0]
    if not (h.type is None or (isinstance(h.type, ast.Name) and h.type.id in ("Exception", "BaseException"))):
        raise Unsupported(f"{FN}: the handler around {what} catches only {ast.unparse(h.type)}: the other exception classes a "
                          f"backend raises escape it (the model treats every raising call alike)")
    return h


def _protects(body: List[ast.stmt], pset: str) -> str:
    """statement list -> bool term: are the marker's targets added to the protected set (del_ok: delete_file returned)."""
    parts: List[str] = []
    for s in body:
        if _is_logging(s) or isinstance(s, ast.Pass):
            continue
        if (isinstance(s, ast.Expr) and isinstance(s.value, ast.Call) and isinstance(s.value.func, ast.Attribute)
                and isinstance(s.value.func.value, ast.Name) and s.value.func.value.id == pset):
            if s.value.func.attr != "update" or dump(s.value.args) != "[Name('targets', Load())]" or s.value.keywords:
                raise Unsupported(f"{FN}: `{ast.unparse(s)}`: the protected set may only grow by `{pset}.update(targets)`")
            parts.append("true")
            continue
        if isinstance(s, ast.Try):
            ops = _storage_calls(ast.Module(body=s.body, type_ignores=[]))
            if ops != ["delete_file"]:
                raise Unsupported(f"{FN}: a try block in the age branch calls {ops}, expected exactly storage.delete_file")
            h = _catches_everything(s, "storage.delete_file")
            if _storage_calls(ast.Module(body=h.body, type_ignores=[])):
                raise Unsupported(f"{FN}: the handler of the marker delete calls the storage")
            rest = [x for x in s.body if _storage_calls(x) != ["delete_file"]]
            parts.append(f"(if del_ok then {_protects(rest, pset)} else {_protects(h.body, pset)})")
            continue
        raise Unsupported(f"{FN}: statement in the age branch not supported: {dump(s)}")
    if not parts:
        return "false"
    out = parts[0]
    for p in parts[1:]:
        out = f"(orb {out} {p})"
    return out


def _deletes(body: List[ast.stmt]) -> bool:
    return "delete_file" in _storage_calls(ast.Module(body=body, type_ignores=[]))


def _age_term(cmp_: ast.expr, cutoff: str) -> str:
    """`self.storage.get_modified_time(m) * 1000 <op> cutoff` (either side) over t = the modification time in ms."""
    def side(n: ast.expr) -> str:
        if isinstance(n, ast.Name) and n.id == cutoff:
            return "cutoff"
        if (isinstance(n, ast.BinOp) and isinstance(n.op, ast.Mult) and _storage_call(n.left) == "get_modified_time"
                and isinstance(n.right, ast.Constant) and n.right.value == 1000 and len(n.left.args) == 1 and not n.left.keywords):
            return "t"
        raise Unsupported(f"{FN}: operand of the marker age test not supported: {ast.unparse(n)}")
    if not (isinstance(cmp_, ast.Compare) and len(cmp_.ops) == 1):
        raise Unsupported(f"{FN}: the marker age test is not a single comparison: {ast.unparse(cmp_)}")
    a, b = side(cmp_.left), side(cmp_.comparators[0])
    if {a, b} != {"cutoff", "t"}:
        raise Unsupported(f"{FN}: the marker age test does not compare the modification time with the cutoff")
    op = {ast.GtE: "Z.geb", ast.Gt: "Z.gtb", ast.LtE: "Z.leb", ast.Lt: "Z.ltb"}.get(type(cmp_.ops[0]))
    if op is None:
        raise Unsupported(f"{FN}: comparison operator of the marker age test not supported")
    return f"({op} {a} {b})"


def kernel(fn: ast.FunctionDef) -> dict:
    body = strip_docstring(fn.body)
    ops = _storage_calls(fn)
    if sorted(ops) != sorted(STORAGE_OPS) or len(ops) != 3:
        raise Unsupported(f"{FN}: storage operations {sorted(ops)}; the model knows exactly one call each of {sorted(STORAGE_OPS)} "
                          f"(listing, stat of a listed marker, delete of an abandoned one)")
    # the protected set: `x: Set[str] = set()` first, `return x` last
    first, last = body[0], body[-1]
    if not (isinstance(first, ast.AnnAssign) and isinstance(first.target, ast.Name) and first.value is not None
            and dump(first.value) == "Call(Name('set', Load()), [], [])"):
        raise Unsupported(f"{FN}: does not start with the empty protected set")
    pset = first.target.id
    if not (isinstance(last, ast.Return) and isinstance(last.value, ast.Name) and last.value.id == pset):
        raise Unsupported(f"{FN}: does not return the protected set `{pset}`")
    for x in ast.walk(fn):
        if (isinstance(x, ast.Attribute) and isinstance(x.value, ast.Name) and x.value.id == pset and x.attr != "update"):
            raise Unsupported(f"{FN}: `{pset}.{x.attr}`: the protected set may only grow")
        if isinstance(x, (ast.Assign, ast.AugAssign)) and any(isinstance(t, ast.Name) and t.id == pset
                                                              for t in (x.targets if isinstance(x, ast.Assign) else [x.target])):
            raise Unsupported(f"{FN}: the protected set is re-assigned")
    # cutoff
    cut = [s for s in body if isinstance(s, ast.Assign) and len(s.targets) == 1 and isinstance(s.targets[0], ast.Name) and s.targets[0].id == "cutoff"]
    if len(cut) != 1:
        raise Unsupported(f"{FN}: `cutoff` not assigned exactly once")
    # the listing
    tries = [s for s in body if isinstance(s, ast.Try)]
    loops = [s for s in body if isinstance(s, ast.For)]
    if len(tries) != 1 or len(loops) != 1 or body.index(tries[0]) > body.index(loops[0]):
        raise Unsupported(f"{FN}: expected one top-level try (the listing) followed by one loop over the markers")
    lt, loop = tries[0], loops[0]
    if not (len(lt.body) == 1 and isinstance(lt.body[0], ast.Assign) and len(lt.body[0].targets) == 1
            and isinstance(lt.body[0].targets[0], ast.Name) and _storage_call(lt.body[0].value) == "list_files"
            and len(lt.body[0].value.args) == 1 and isinstance(lt.body[0].value.args[0], ast.Name) and not lt.body[0].value.keywords):
        raise Unsupported(f"{FN}: the markers are not the result of `self.storage.list_files(<constant>)` itself: "
                          f"{ast.unparse(lt.body[0]) if lt.body else '(empty)'}")
    markers = lt.body[0].targets[0].id
    lh = _catches_everything(lt, "the marker listing")
    raises = [s for s in lh.body if isinstance(s, ast.Raise)]
    aborts = (len(raises) == 1 and lh.body[-1] is raises[0] and isinstance(raises[0].exc, ast.Call)
              and isinstance(raises[0].exc.func, ast.Name) and raises[0].exc.func.id == "GarbageCollectionAborted")
    if not (isinstance(loop.iter, ast.Name) and loop.iter.id == markers and isinstance(loop.target, ast.Name) and not loop.orelse):
        raise Unsupported(f"{FN}: the loop does not iterate directly over the listing `{markers}`: {ast.unparse(loop.iter)}")
    between = body[body.index(lt) + 1:body.index(loop)]
    if any(not _is_logging(s) for s in between):
        raise Unsupported(f"{FN}: statements between the listing and the loop over it")
    # the loop body
    age_try: Optional[ast.Try] = None
    final_if: Optional[ast.If] = None
    for s in loop.body:
        if _is_logging(s):
            continue
        if isinstance(s, ast.Try):
            if age_try is not None or final_if is not None:
                raise Unsupported(f"{FN}: unexpected second try block in the loop body")
            age_try = s
            continue
        if isinstance(s, ast.If) and isinstance(s.test, ast.Name) and s.test.id == "age_ok":
            if final_if is not None:
                raise Unsupported(f"{FN}: two branches on age_ok")
            final_if = s
            continue
        if final_if is not None:
            raise Unsupported(f"{FN}: statements after the branch on age_ok: {dump(s)}")
        if isinstance(s, ast.Assign) and len(s.targets) == 1 and isinstance(s.targets[0], ast.Name) and s.targets[0].id != "age_ok":
            if _storage_calls(s):
                raise Unsupported(f"{FN}: `{ast.unparse(s)}` calls the storage outside the stat / delete the model knows")
            continue
        if (isinstance(s, ast.If) and not s.orelse and len(s.body) == 1 and isinstance(s.body[0], ast.Continue)
                and "endswith" in ast.unparse(s.test) and not _storage_calls(s)):
            continue                                   # the ".inflight" name test (pinned by gen_norm's skeleton)
        raise Unsupported(f"{FN}: statement in the marker loop not supported: {dump(s)}")
    if age_try is None or final_if is None:
        raise Unsupported(f"{FN}: the loop body has no `try: age_ok = ... except` / `if age_ok:`; a marker's age no longer comes "
                          f"from a stat the collector makes (and whose failure it handles) itself")
    if not (len(age_try.body) == 1 and isinstance(age_try.body[0], ast.Assign) and dump(age_try.body[0].targets) == "[Name('age_ok', Store())]"):
        raise Unsupported(f"{FN}: the try block of the marker stat is not the single assignment to age_ok")
    ah = _catches_everything(age_try, "storage.get_modified_time")
    hb = [s for s in ah.body if not _is_logging(s)]
    if not (len(hb) == 1 and isinstance(hb[0], ast.Assign) and dump(hb[0].targets) == "[Name('age_ok', Store())]"
            and isinstance(hb[0].value, ast.Constant) and isinstance(hb[0].value.value, bool)):
        raise Unsupported(f"{FN}: the handler of the marker stat is not `age_ok = <True|False>`")
    return {
        "age": _age_term(age_try.body[0].value, "cutoff"),
        "on_stat_failure": "true" if hb[0].value.value else "false",
        "protects_then": _protects(final_if.body, pset), "protects_else": _protects(final_if.orelse, pset),
        "deletes_then": _deletes(final_if.body), "deletes_else": _deletes(final_if.orelse),
        "aborts": aborts,
    }


@generator("GenGCMarker.v")
def gen_gcmarker(src: str) -> str:
    gc = parse_module(src, "garbage_collector.py")
    k = kernel(find_function(gc, FN, cls="GarbageCollector"))
    b = lambda v: "true" if v else "false"  # noqa: E731
    return f"""(* GENERATED by translator/gen_gcmarker.py from src/datashard/garbage_collector.py -- do not edit *)
From Coq Require Import ZArith Bool.
Open Scope Z_scope.

(* GarbageCollector._load_inflight_protection, one listed marker.
   stat = Some t: storage.get_modified_time(marker) returned, t = its answer in ms; None: it raised (the handler catches
   Exception: every class). *)
Definition gen_marker_age_ok (cutoff : Z) (stat : option Z) : bool :=
  match stat with Some t => {k['age']} | None => {k['on_stat_failure']} end.

(* is storage.delete_file(marker) called? *)
Definition gen_marker_delete_attempted (age_ok : bool) : bool :=
  if age_ok then {b(k['deletes_then'])} else {b(k['deletes_else'])}.

(* are the marker's targets added to the protected set?  del_ok: delete_file(marker) returned (only looked at when called) *)
Definition gen_marker_protects (age_ok del_ok : bool) : bool :=
  if age_ok then {k['protects_then']} else {k['protects_else']}.

(* a failing marker LISTING raises GarbageCollectionAborted (handler catches Exception, ends in the raise) *)
Definition gen_marker_listing_failure_aborts : bool := {b(k['aborts'])}.
"""
