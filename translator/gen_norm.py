"""GenNorm.v -- the garbage collector's pure path kernels and constants, translated from the source.

Translated (Python ast -> Gallina over `string`, fail closed):
  normalize_path table_path path      GarbageCollector._normalize_path        (whole body)
  marker_fallback marker_path basename GarbageCollector._marker_targets       (statements before the `try`:
                                      the paths protected when a marker's payload is unusable; the older
                                      single-path `_marker_target` shape is accepted too)
  register_marker_path file_path      Transaction._register_inflight          (marker key written for a file)
  register_marker_payload file_path   Transaction._register_inflight          (the payload's "file_path")
  INFLIGHT_PATH / TX_INFLIGHT_PATH    garbage_collector.INFLIGHT_PATH / transaction._INFLIGHT_PATH
                                      (+ `inflight_paths_equal : ... = ...` by eq_refl: the build breaks if they differ)
  DEFAULT_INFLIGHT_TIMEOUT_MS, DEFAULT_GRACE_MS (collect), TABLE_DEFAULT_GRACE_MS (Table.garbage_collect)
  MARKERS_FIRST                       whether collect() loads the in-flight protection before it reads the metadata
  COLLECT_CHECKS_CURRENT_SNAPSHOT     whether collect() calls self._require_current_snapshot_listed(metadata) on refresh()'s result,
  / CURRENT_UNSET_NUM                 unconditionally, before the first sweep (the helper's body is pinned statement by statement;
                                      Model/GCDoc.v current_listed is that loop over the document)
  LIST_/MANIFEST_JSON_MISSING_SECTION_READS_EMPTY
                                      FileManager.read_manifest(_list)_file, JSON fallback: `for x in DOC.get(key, [])` (a document
                                      without its section reads as EMPTY: true) or `for x in DOC[key]` (refused: false)
  append_accepts_path normpath file_path
                                      Transaction.append_files: the conjunction of the pure path guards it applies to EVERY file
                                      unconditionally (`self._require_*(data_file.file_path)` statements at the top level of its
                                      `for data_file in files` loop, each guard a static method of the shape assignments +
                                      `if <test>: raise`); posixpath.normpath is a parameter.  No such guard -> `true`: what the
                                      manifests may name is then whatever exists (Proofs/GCAcceptProofs.v fails, as it must).

Pinned (hand-modelled in Model/GC.v): FileManager.read_manifest(_list)_file's Avro attempt catches exactly
(ValueError, IndexError, StopIteration, OSError) and falls through to a JSON fallback that raises on failure;
the control skeleton of collect / _load_inflight_protection /
_gc_prefix / _marker_targets -- order of storage calls, try/except structure with what each handler does
(raise / assign / return / continue), the comparison operators of the age tests.  A change there makes the
translator fail closed: the hand-written model has to be re-validated against the new code.
"""
from __future__ import annotations

import ast
from typing import Dict, List, Optional, Tuple

from core import Unsupported, coq_str, dump, find_function, generator, parse_module, strip_docstring


# ----------------------------------------------------------------------------- string expressions
class Env:
    def __init__(self, strs: Dict[str, str], consts: Optional[Dict[str, str]] = None, funcs: Optional[Dict[str, str]] = None):
        self.strs = dict(strs)          # python local name -> coq identifier (string-typed)
        self.consts = dict(consts or {})  # module-level names -> coq identifier
        self.funcs = dict(funcs or {})  # "module.function" (str -> str, external) -> coq identifier of a function parameter

    def bind(self, name: str) -> "Env":
        e = Env(self.strs, self.consts, self.funcs)
        e.strs[name] = name
        return e


def _one_char(args: List[ast.expr], what: str) -> str:
    if len(args) != 1 or not isinstance(args[0], ast.Constant) or not isinstance(args[0].value, str) or len(args[0].value) != 1:
        raise Unsupported(f"{what}: only a one-character literal argument is supported")
    return coq_str(args[0].value) + "%char"


def _is_len(n: ast.AST) -> bool:
    return isinstance(n, ast.Call) and isinstance(n.func, ast.Name) and n.func.id == "len" and len(n.args) == 1 and not n.keywords


def sexpr(n: ast.AST, env: Env) -> str:
    """A string-typed Python expression."""
    if isinstance(n, ast.Constant) and isinstance(n.value, str):
        return coq_str(n.value)
    if isinstance(n, ast.Name):
        if n.id in env.strs:
            return env.strs[n.id]
        if n.id in env.consts:
            return env.consts[n.id]
        raise Unsupported(f"unknown name {n.id}")
    if isinstance(n, ast.Attribute) and isinstance(n.value, ast.Name) and n.value.id == "self" and n.attr == "table_path":
        return "table_path"
    if isinstance(n, ast.BinOp) and isinstance(n.op, ast.Add):
        return f"({sexpr(n.left, env)} ++ {sexpr(n.right, env)})"
    if isinstance(n, ast.JoinedStr):
        parts = []
        for v in n.values:
            if isinstance(v, ast.Constant) and isinstance(v.value, str):
                parts.append(coq_str(v.value))
            elif isinstance(v, ast.FormattedValue) and v.conversion == -1 and v.format_spec is None:
                parts.append(sexpr(v.value, env))
            else:
                raise Unsupported(f"f-string part {dump(v)}")
        if not parts:
            return '""'
        out = parts[-1]
        for p in reversed(parts[:-1]):
            out = f"({p} ++ {out})"
        return out
    if isinstance(n, ast.Call) and isinstance(n.func, ast.Attribute) and not n.keywords:
        m = n.func.attr
        if m in ("lstrip", "rstrip", "strip"):
            return f"({m}_c {_one_char(n.args, m)} {sexpr(n.func.value, env)})"
        if isinstance(n.func.value, ast.Name) and f"{n.func.value.id}.{m}" in env.funcs and len(n.args) == 1:
            return f"({env.funcs[n.func.value.id + '.' + m]} {sexpr(n.args[0], env)})"
    if isinstance(n, ast.Subscript):
        s = n.slice
        # x.rsplit("/", 1)[-1]
        if (isinstance(s, ast.UnaryOp) and isinstance(s.op, ast.USub) and isinstance(s.operand, ast.Constant) and s.operand.value == 1
                and isinstance(n.value, ast.Call) and isinstance(n.value.func, ast.Attribute) and n.value.func.attr == "rsplit"
                and len(n.value.args) == 2 and isinstance(n.value.args[0], ast.Constant) and n.value.args[0].value == "/"
                and isinstance(n.value.args[1], ast.Constant) and n.value.args[1].value == 1 and not n.value.keywords):
            return f"(basename {sexpr(n.value.func.value, env)})"
        if isinstance(s, ast.Slice) and s.step is None:
            if s.upper is None and s.lower is not None and _is_len(s.lower):
                return f"(py_drop (String.length {sexpr(s.lower.args[0], env)}) {sexpr(n.value, env)})"
            if (s.lower is None and isinstance(s.upper, ast.UnaryOp) and isinstance(s.upper.op, ast.USub) and _is_len(s.upper.operand)):
                return f"(py_drop_end (String.length {sexpr(s.upper.operand.args[0], env)}) {sexpr(n.value, env)})"
        raise Unsupported(f"subscript {dump(n)}")
    raise Unsupported(f"string expression not supported: {dump(n)}")


def bexpr(n: ast.AST, env: Env) -> str:
    """A Python expression used as a condition."""
    if isinstance(n, ast.BoolOp):
        op = "||" if isinstance(n.op, ast.Or) else "&&"
        vals = [bexpr(v, env) for v in n.values]
        out = vals[-1]
        for v in reversed(vals[:-1]):
            out = f"({v} {op} {out})"
        return out
    if isinstance(n, ast.UnaryOp) and isinstance(n.op, ast.Not):
        return f"(negb {bexpr(n.operand, env)})"
    if isinstance(n, ast.Call) and isinstance(n.func, ast.Attribute) and n.func.attr in ("startswith", "endswith") and len(n.args) == 1 and not n.keywords:
        return f"({n.func.attr} {sexpr(n.args[0], env)} {sexpr(n.func.value, env)})"
    if isinstance(n, ast.Compare) and len(n.ops) == 1 and isinstance(n.ops[0], (ast.Eq, ast.NotEq)):
        e = f"(String.eqb {sexpr(n.left, env)} {sexpr(n.comparators[0], env)})"
        return e if isinstance(n.ops[0], ast.Eq) else f"(negb {e})"
    if isinstance(n, (ast.Name, ast.Attribute)):
        return f"(nonempty {sexpr(n, env)})"      # truthiness of a str
    raise Unsupported(f"condition not supported: {dump(n)}")


def _ends_with_return(body: List[ast.stmt]) -> bool:
    return bool(body) and isinstance(body[-1], ast.Return)


def stmts(body: List[ast.stmt], env: Env) -> str:
    """A statement list ending in `return <str>` on every path -> a Gallina term of type string."""
    if not body:
        raise Unsupported("control reaches the end of the function without a return")
    s, rest = body[0], body[1:]
    if isinstance(s, ast.Return):
        if s.value is None:
            raise Unsupported("bare return")
        return sexpr(s.value, env)
    if isinstance(s, ast.Assign) and len(s.targets) == 1 and isinstance(s.targets[0], ast.Name):
        name = s.targets[0].id
        if name in ("table_path",):
            raise Unsupported("assignment to reserved name")
        return f"(let {name} := {sexpr(s.value, env)} in\n   {stmts(rest, env.bind(name))})"
    if isinstance(s, ast.If):
        c = bexpr(s.test, env)
        then_body = s.body if _ends_with_return(s.body) else s.body + rest
        else_body = s.orelse if _ends_with_return(s.orelse) else s.orelse + rest
        # assignments inside a branch are visible after it: both continuations are translated with the
        # branch's own environment, which is what sequential Python semantics gives
        return f"(if {c}\n   then {stmts(then_body, env)}\n   else {stmts(else_body, env)})"
    raise Unsupported(f"statement not supported: {dump(s)}")


# ----------------------------------------------------------------------------- constants
def module_const(mod: ast.Module, name: str) -> ast.expr:
    for node in mod.body:
        if isinstance(node, ast.Assign) and len(node.targets) == 1 and isinstance(node.targets[0], ast.Name) and node.targets[0].id == name:
            return node.value
    raise Unsupported(f"module constant {name} not found")


def int_const(n: ast.AST) -> int:
    if isinstance(n, ast.Constant) and isinstance(n.value, int) and not isinstance(n.value, bool):
        return n.value
    if isinstance(n, ast.BinOp) and isinstance(n.op, ast.Mult):
        return int_const(n.left) * int_const(n.right)
    if isinstance(n, ast.BinOp) and isinstance(n.op, ast.Add):
        return int_const(n.left) + int_const(n.right)
    raise Unsupported(f"integer constant expression not supported: {dump(n)}")


def str_const(n: ast.AST) -> str:
    if isinstance(n, ast.Constant) and isinstance(n.value, str):
        return n.value
    raise Unsupported(f"string constant expected: {dump(n)}")


def arg_default(fn: ast.FunctionDef, name: str) -> ast.expr:
    args = fn.args.args
    defaults = fn.args.defaults
    off = len(args) - len(defaults)
    for i, a in enumerate(args):
        if a.arg == name:
            if i < off:
                raise Unsupported(f"{fn.name}: parameter {name} has no default")
            return defaults[i - off]
    raise Unsupported(f"{fn.name}: parameter {name} not found")


# ----------------------------------------------------------------------------- control skeleton (pinned)
def _self_chain(n: ast.AST) -> Optional[str]:
    parts = []
    while isinstance(n, ast.Attribute):
        parts.append(n.attr)
        n = n.value
    if isinstance(n, ast.Name) and n.id == "self":
        return ".".join(reversed(parts))
    return None


def skeleton(fn: ast.FunctionDef) -> str:
    out: List[str] = []

    def expr_tokens(e: ast.AST) -> None:
        # calls on self.* in evaluation order (children first), comparison operators
        for child in ast.iter_child_nodes(e):
            expr_tokens(child)
        if isinstance(e, ast.Call):
            ch = _self_chain(e.func)
            if ch is not None:
                out.append("call:" + ch)
            elif isinstance(e.func, ast.Attribute) and isinstance(e.func.value, ast.Name) and e.func.value.id == "time":
                out.append("call:time." + e.func.attr)
        if isinstance(e, ast.Compare):
            out.append("cmp:" + ",".join(type(o).__name__ for o in e.ops))

    def is_logging(s: ast.stmt) -> bool:
        return (isinstance(s, ast.Expr) and isinstance(s.value, ast.Call) and isinstance(s.value.func, ast.Attribute)
                and isinstance(s.value.func.value, ast.Name) and s.value.func.value.id == "logger")

    def walk(body: List[ast.stmt]) -> None:
        for s in strip_docstring(body):
            if is_logging(s):
                continue
            if isinstance(s, ast.Try):
                out.append("try{")
                walk(s.body)
                for h in s.handlers:
                    out.append("}except:" + (dump(h.type) if h.type is not None else "bare") + "{")
                    walk(h.body)
                out.append("}")
                if s.orelse or s.finalbody:
                    out.append("else/finally{")
                    walk(s.orelse + s.finalbody)
                    out.append("}")
            elif isinstance(s, ast.If):
                expr_tokens(s.test)
                out.append("if{")
                walk(s.body)
                out.append("}else{")
                walk(s.orelse)
                out.append("}")
            elif isinstance(s, ast.For):
                expr_tokens(s.iter)
                out.append("for{")
                walk(s.body)
                out.append("}")
            elif isinstance(s, ast.Raise):
                exc = s.exc.func if isinstance(s.exc, ast.Call) else s.exc
                out.append("raise:" + (exc.id if isinstance(exc, ast.Name) else dump(exc)))
            elif isinstance(s, ast.Return):
                if s.value is not None:
                    expr_tokens(s.value)
                out.append("return")
            elif isinstance(s, ast.Continue):
                out.append("continue")
            elif isinstance(s, (ast.Assign, ast.AnnAssign, ast.AugAssign)):
                if s.value is not None:
                    expr_tokens(s.value)
                tgt = s.targets[0] if isinstance(s, ast.Assign) else s.target
                out.append("set:" + (tgt.id if isinstance(tgt, ast.Name) else "subscript" if isinstance(tgt, ast.Subscript) else "other"))
            elif isinstance(s, ast.Expr):
                expr_tokens(s.value)
                if isinstance(s.value, ast.Call) and isinstance(s.value.func, ast.Attribute) and isinstance(s.value.func.value, ast.Name):
                    out.append(f"do:{s.value.func.value.id}.{s.value.func.attr}")
            elif isinstance(s, ast.Pass):
                out.append("pass")
            else:
                raise Unsupported(f"{fn.name}: statement kind {type(s).__name__} in a pinned function")

    walk(fn.body)
    return " ".join(out)


GOLDEN_SKELETONS = {
    "collect": [
        "set:stats call:metadata_manager.refresh set:metadata if{ return }else{ } set:reachable_data_files set:reachable_manifests "
        "set:reachable_manifest_lists for{ set:m_list_path if{ call:_normalize_path do:reachable_manifest_lists.add }else{ } } "
        "for{ try{ call:storage.exists if{ raise:FileNotFoundError }else{ } call:file_manager.read_manifest_list_file set:manifests "
        "}except:Name('Exception', Load()){ raise:GarbageCollectionAborted } for{ set:m_path if{ call:_normalize_path do:reachable_manifests.add }else{ } } } "
        "for{ try{ call:storage.exists if{ raise:FileNotFoundError }else{ } call:file_manager.read_manifest_file set:data_files "
        "}except:Name('Exception', Load()){ raise:GarbageCollectionAborted } for{ call:_normalize_path do:reachable_data_files.add } } "
        "call:_load_inflight_protection set:protected_files if{ }else{ } call:_gc_prefix set:subscript set:all_reachable_manifests "
        "call:_gc_prefix set:subscript return",
        # the same with the guard on the entries of a manifest list: an entry whose manifest path is not a string aborts
        # (`if not isinstance(m_path, str): raise GarbageCollectionAborted`) before the `if m_path:` that skips an empty one.
        # For Model/GC.v such a list is not a list (Model/Doc.v list_doc_content: the content class of an unreadable list)
        "set:stats call:metadata_manager.refresh set:metadata if{ return }else{ } set:reachable_data_files set:reachable_manifests "
        "set:reachable_manifest_lists for{ set:m_list_path if{ call:_normalize_path do:reachable_manifest_lists.add }else{ } } "
        "for{ try{ call:storage.exists if{ raise:FileNotFoundError }else{ } call:file_manager.read_manifest_list_file set:manifests "
        "}except:Name('Exception', Load()){ raise:GarbageCollectionAborted } for{ set:m_path if{ raise:GarbageCollectionAborted }else{ } "
        "if{ call:_normalize_path do:reachable_manifests.add }else{ } } } "
        "for{ try{ call:storage.exists if{ raise:FileNotFoundError }else{ } call:file_manager.read_manifest_file set:data_files "
        "}except:Name('Exception', Load()){ raise:GarbageCollectionAborted } for{ call:_normalize_path do:reachable_data_files.add } } "
        "call:_load_inflight_protection set:protected_files if{ }else{ } call:_gc_prefix set:subscript set:all_reachable_manifests "
        "call:_gc_prefix set:subscript return",
    ],
    "_load_inflight_protection": [
        "set:protected call:time.time set:cutoff try{ call:storage.list_files set:markers }except:Name('Exception', Load()){ raise:GarbageCollectionAborted } "
        "for{ call:_normalize_path set:norm_marker try{ call:storage.get_modified_time cmp:GtE set:age_ok }except:Name('Exception', Load()){ set:age_ok } "
        "set:basename if{ continue }else{ } call:_marker_targets set:targets if{ do:protected.update }else{ "
        "try{ call:storage.delete_file }except:Name('Exception', Load()){ do:protected.update } } } return",
    ],
    "_marker_targets": [
        "set:name set:fallback try{ call:storage.read_file set:payload set:target }except:Name('Exception', Load()){ return } "
        "if{ return }else{ } call:_normalize_path return",
        # (the pure assignments before the `try` are what marker_fallback is TRANSLATED from; the pinned part is the rest)
        "set:name set:prefix set:keyed set:fallback try{ call:storage.read_file set:payload set:target }except:Name('Exception', Load()){ return } "
        "if{ return }else{ } call:_normalize_path return",
    ],
    "_gc_prefix": [
        "set:deleted_count call:time.time set:cutoff_time try{ call:storage.list_files set:all_files }except:Name('Exception', Load()){ raise:GarbageCollectionAborted } "
        "for{ call:_normalize_path set:norm_path cmp:Eq if{ raise:GarbageCollectionAborted }else{ } cmp:NotIn if{ "
        "try{ call:storage.get_modified_time cmp:Lt if{ call:storage.delete_file set:deleted_count }else{ } }except:Name('Exception', Load()){ } }else{ } } "
        "if{ }else{ } return",
    ],
}


def _norm_ws(s: str) -> str:
    return " ".join(s.split())


LP_TOKENS = "call:_load_inflight_protection set:protected_files"
# collect()'s own check that the version hint names an existing metadata file: pointer plane, outside the collector model
HINT_CHECK_TOKENS = "call:_require_hinted_metadata_present do:self._require_hinted_metadata_present"
# collect()'s check that the metadata's current snapshot is one of the snapshots it lists: document plane (Model/GCDoc.v
# collect_doc; regenerated as COLLECT_CHECKS_CURRENT_SNAPSHOT + the pinned helper below)
CURRENT_CHECK = "_require_current_snapshot_listed"
CURRENT_CHECK_TOKENS = f"call:{CURRENT_CHECK} do:self.{CURRENT_CHECK}"


def _movable(s: str) -> str:
    """collect(): the call that loads the in-flight protection may sit before the metadata refresh (the repair planned for
    C06) or after the reachability phase; both orders are modelled (GenNorm.MARKERS_FIRST). Logging-only `if`s are dropped."""
    return _norm_ws(_norm_ws(s).replace(LP_TOKENS, " ").replace(HINT_CHECK_TOKENS, " ").replace(CURRENT_CHECK_TOKENS, " ").replace("if{ }else{ }", " "))


def markers_first(fn: ast.FunctionDef) -> bool:
    toks = _norm_ws(skeleton(fn)).split(" ")
    try:
        return toks.index("call:_load_inflight_protection") < toks.index("call:metadata_manager.refresh")
    except ValueError:
        raise Unsupported("collect: _load_inflight_protection / metadata_manager.refresh call not found")


def check_skeleton(fn: ast.FunctionDef, key: str) -> None:
    got = _norm_ws(skeleton(fn))
    if key == "collect":
        if _norm_ws(got).count(LP_TOKENS) != 1:
            raise Unsupported("collect: expected exactly one `protected_files = self._load_inflight_protection(...)`")
        ok = _movable(got) in [_movable(g) for g in GOLDEN_SKELETONS[key]]
    else:
        ok = got in [_norm_ws(g) for g in GOLDEN_SKELETONS[key]]
    if not ok:
        raise Unsupported(f"control skeleton of {fn.name} changed (hand-modelled in Model/GC.v; re-validate the model).\n"
                          f"  expected: {GOLDEN_SKELETONS[key][0]}\n  got:      {got}")


# ----------------------------------------------------------------------------- collect(): current snapshot listed?
CURRENT_CHECK_BODY = [
    "current_id = metadata.current_snapshot_id",
    "if current_id is None or current_id == -1:\n    return",
    "for snapshot in metadata.snapshots:\n    if snapshot.snapshot_id == current_id:\n        return",
]


def current_snapshot_check(gc: ast.Module, collect: ast.FunctionDef) -> Tuple[bool, int]:
    """Does collect() refuse a metadata whose current_snapshot_id names none of the snapshots it lists, before anything is
    deleted by a sweep?  -> (yes / no, the number that spells "no snapshot yet" besides None).

    yes: collect() calls self._require_current_snapshot_listed(metadata) -- `metadata` being what refresh() returned -- as a
    statement of its own body before the first _gc_prefix, and the helper is, statement for statement, the pinned
        current_id = metadata.current_snapshot_id
        if current_id is None or current_id == -1: return
        for snapshot in metadata.snapshots:
            if snapshot.snapshot_id == current_id: return
        raise GarbageCollectionAborted(...)
    (Model/GCDoc.v current_listed is this loop over the DOCUMENT: TableMetadata.current_snapshot_id / Snapshot.snapshot_id are
    the document's values at gen_current_snapshot_key / gen_snapshot_id_key, passed on unchanged: Gen/GenDoc.v SAny).
    no: neither the call nor the helper exists.  Anything in between: Unsupported."""
    cls = next((n for n in ast.walk(gc) if isinstance(n, ast.ClassDef) and n.name == "GarbageCollector"), None)
    helper = next((n for n in (cls.body if cls else []) if isinstance(n, ast.FunctionDef) and n.name == CURRENT_CHECK), None)
    calls = [n for n in ast.walk(collect) if isinstance(n, ast.Call) and _self_chain(n.func) == CURRENT_CHECK]
    if helper is None and not calls:
        return False, -1
    if helper is None or len(calls) != 1:
        raise Unsupported(f"collect: {CURRENT_CHECK} is called {len(calls)} time(s) / defined: {helper is not None}")
    if [a.arg for a in helper.args.args] != ["self", "metadata"]:
        raise Unsupported(f"{CURRENT_CHECK}: signature changed")
    body = strip_docstring(helper.body)
    got = [ast.unparse(x) for x in body[:-1]]
    last = body[-1] if body else None
    if got != CURRENT_CHECK_BODY or not (isinstance(last, ast.Raise) and isinstance(last.exc, ast.Call)
                                         and isinstance(last.exc.func, ast.Name) and last.exc.func.id == "GarbageCollectionAborted"):
        raise Unsupported(f"{CURRENT_CHECK}: body changed (hand-modelled in Model/GCDoc.v current_listed; re-validate the model).\n"
                          f"  expected: {CURRENT_CHECK_BODY} + raise GarbageCollectionAborted(...)\n  got:      {got}")
    # the call: a statement of collect()'s own body (unconditional), on the name bound to refresh()'s result, after that
    # binding and before the first sweep
    top = strip_docstring(collect.body)
    idx = [i for i, st in enumerate(top) if isinstance(st, ast.Expr) and st.value is calls[0]]
    refresh = [i for i, st in enumerate(top) if isinstance(st, ast.Assign) and isinstance(st.value, ast.Call)
               and _self_chain(st.value.func) == "metadata_manager.refresh" and len(st.targets) == 1 and isinstance(st.targets[0], ast.Name)]
    sweeps = [i for i, st in enumerate(top) if any(isinstance(n, ast.Call) and _self_chain(n.func) == "_gc_prefix" for n in ast.walk(st))]
    if len(idx) != 1 or len(refresh) != 1 or not sweeps:
        raise Unsupported(f"collect: {CURRENT_CHECK} is not called as an unconditional statement of collect()")
    arg = calls[0].args
    if not (len(arg) == 1 and not calls[0].keywords and isinstance(arg[0], ast.Name) and arg[0].id == top[refresh[0]].targets[0].id):
        raise Unsupported(f"collect: {CURRENT_CHECK} is not applied to the metadata refresh() returned")
    if not (refresh[0] < idx[0] < min(sweeps)):
        raise Unsupported(f"collect: {CURRENT_CHECK} is not between the metadata refresh and the first sweep")
    return True, -1


# ----------------------------------------------------------------------------- Avro -> JSON fallback (pinned)
AVRO_CAUGHT = ["ValueError", "IndexError", "StopIteration", "OSError"]


def check_avro_fallback(fm: ast.Module, name: str) -> None:
    """read_manifest(_list)_file: `exists` guard, then ONE try around the Avro attempt whose handler catches exactly
    AVRO_CAUGHT and falls through to the JSON fallback (Model/GC.v read_one: OSError-class failures and non-Avro bytes fall
    back, anything else propagates), then read_file + json.loads inside a try whose handler raises."""
    fn = find_function(fm, name, cls="FileManager")
    body = strip_docstring(fn.body)
    tries = [s for s in body if isinstance(s, ast.Try)]
    if len(tries) != 2 or not isinstance(body[0], ast.If):
        raise Unsupported(f"{name}: expected `if not exists: raise`, an Avro try and a JSON try; got {[type(s).__name__ for s in body]}")
    avro, js = tries
    if len(avro.handlers) != 1 or not isinstance(avro.handlers[0].type, ast.Tuple):
        raise Unsupported(f"{name}: the Avro attempt must have one handler with a tuple of exception types")
    names = [e.id for e in avro.handlers[0].type.elts if isinstance(e, ast.Name)]
    if names != AVRO_CAUGHT:
        raise Unsupported(f"{name}: the Avro attempt catches {names}, the model assumes {AVRO_CAUGHT}")
    if not all(isinstance(s, ast.Pass) or (isinstance(s, ast.Expr) and isinstance(s.value, ast.Constant)) for s in avro.handlers[0].body):
        raise Unsupported(f"{name}: the Avro handler no longer just falls through to the JSON fallback")
    if len(js.handlers) != 1 or not any(isinstance(s, ast.Raise) for s in js.handlers[0].body):
        raise Unsupported(f"{name}: the JSON fallback's handler no longer raises")


def json_missing_section_reads_empty(fm: ast.Module, name: str) -> bool:
    """The JSON fallback of read_manifest(_list)_file iterates ONE section of the decoded document:
        for x in DOC.get("key", [])     a document without the key reads as an EMPTY list / manifest     -> True
        for x in DOC["key"]             a document without the key is refused (KeyError -> ValueError)    -> False
    (Model/GC.v json_parse on CJsonEmpty).  Any other loop form: Unsupported."""
    fn = find_function(fm, name, cls="FileManager")
    js = [s for s in strip_docstring(fn.body) if isinstance(s, ast.Try)][1]
    first = js.body[0]
    if not (isinstance(first, ast.Assign) and len(first.targets) == 1 and isinstance(first.targets[0], ast.Name)
            and isinstance(first.value, ast.Call) and ast.unparse(first.value.func) == "json.loads"):
        raise Unsupported(f"{name}: the JSON fallback does not start with X = json.loads(..)")
    doc = first.targets[0].id
    loops = [s for s in js.body if isinstance(s, ast.For)]
    if len(loops) != 1:
        raise Unsupported(f"{name}: the JSON fallback has {len(loops)} loops, expected one over the document's section")
    it = loops[0].iter
    if (isinstance(it, ast.Call) and isinstance(it.func, ast.Attribute) and it.func.attr == "get" and isinstance(it.func.value, ast.Name)
            and it.func.value.id == doc and len(it.args) == 2 and isinstance(it.args[0], ast.Constant)
            and isinstance(it.args[1], ast.List) and not it.args[1].elts and not it.keywords):
        return True
    if isinstance(it, ast.Subscript) and isinstance(it.value, ast.Name) and it.value.id == doc and isinstance(it.slice, ast.Constant) \
            and isinstance(it.slice.value, str):
        return False
    raise Unsupported(f"{name}: the JSON fallback iterates {ast.unparse(it)}: neither DOC.get(key, []) nor DOC[key]")


# ----------------------------------------------------------------------------- generator
def marker_fallback_term(fn: ast.FunctionDef, consts: Optional[Dict[str, str]] = None) -> str:
    """The statements before the `try:` of _marker_targets define `fallback` (a str or a set of str)."""
    body = strip_docstring(fn.body)
    pre: List[ast.stmt] = []
    for s in body:
        if isinstance(s, ast.Try):
            break
        pre.append(s)
    else:
        raise Unsupported(f"{fn.name}: no try block")
    env = Env({"basename": "basename_", "marker_path": "marker_path"}, consts or {})
    lets: List[Tuple[str, str]] = []
    fallback: Optional[str] = None

    def paths(v: ast.expr) -> str:
        """a set display of str, a str, or `<set> if <condition> else <set>` -> list string"""
        if isinstance(v, ast.Set):
            return "[" + "; ".join(sexpr(e, env) for e in v.elts) + "]"
        if isinstance(v, ast.IfExp):
            return f"(if {bexpr(v.test, env)} then {paths(v.body)} else {paths(v.orelse)})"
        return "[" + sexpr(v, env) + "]"
    for s in pre:
        if not (isinstance(s, ast.Assign) and len(s.targets) == 1 and isinstance(s.targets[0], ast.Name)):
            raise Unsupported(f"{fn.name}: statement before try not an assignment: {dump(s)}")
        name = s.targets[0].id
        if name == "fallback":
            fallback = paths(s.value)
        else:
            lets.append((name, sexpr(s.value, env)))
            env = env.bind(name)
    if fallback is None:
        raise Unsupported(f"{fn.name}: `fallback` not assigned before the try block")
    out = fallback
    for name, val in reversed(lets):
        out = f"(let {name} := {val} in {out})"
    return out


def register_terms(fn: ast.FunctionDef, consts: Dict[str, str]) -> Tuple[str, str]:
    body = strip_docstring(fn.body)
    env = Env({"file_path": "file_path"}, consts)
    lets: List[Tuple[str, str]] = []
    path_term = payload_term = None
    for s in body:
        if isinstance(s, ast.Assign) and len(s.targets) == 1 and isinstance(s.targets[0], ast.Name):
            name = s.targets[0].id
            if name == "marker_payload":
                # json.dumps({"file_path": <expr>}).encode("utf-8")
                v = s.value
                try:
                    assert isinstance(v, ast.Call) and v.func.attr == "encode"
                    d = v.func.value
                    assert isinstance(d, ast.Call) and d.func.attr == "dumps" and d.func.value.id == "json" and len(d.args) == 1
                    dct = d.args[0]
                    assert isinstance(dct, ast.Dict) and len(dct.keys) == 1 and dct.keys[0].value == "file_path"
                except (AssertionError, AttributeError):
                    raise Unsupported(f"_register_inflight: payload shape changed: {dump(v)}")
                payload_term = sexpr(dct.values[0], env)
            else:
                val = sexpr(s.value, env)
                lets.append((name, val))
                env = env.bind(name)
                if name == "marker_path":
                    path_term = name
        elif isinstance(s, ast.Expr) and isinstance(s.value, ast.Call):
            ch = _self_chain(s.value.func)
            if ch == "file_manager.storage.write_file":
                a = s.value.args
                if not (len(a) == 2 and isinstance(a[0], ast.Name) and a[0].id == "marker_path" and isinstance(a[1], ast.Name) and a[1].id == "marker_payload"):
                    raise Unsupported("_register_inflight: write_file arguments changed")
            elif ch == "_inflight_markers.append":
                pass
            else:
                raise Unsupported(f"_register_inflight: unexpected call {ch}")
        else:
            raise Unsupported(f"_register_inflight: statement not supported: {dump(s)}")
    if path_term is None or payload_term is None:
        raise Unsupported("_register_inflight: marker_path / marker_payload not found")

    def wrap(t: str) -> str:
        for name, val in reversed(lets):
            t = f"(let {name} := {val} in {t})"
        return t
    return wrap(path_term), wrap(payload_term)


# ----------------------------------------------------------------------------- append_files acceptance guards
def guard_term(body: List[ast.stmt], env: Env, fname: str) -> str:
    """Body of a guard method: (imports,) assignments and `if <test>: raise ...` only -> `true` iff no raise is reached."""
    if not body:
        return "true"
    s, rest = body[0], body[1:]
    if isinstance(s, ast.Import):
        return guard_term(rest, env, fname)
    if isinstance(s, ast.Assign) and len(s.targets) == 1 and isinstance(s.targets[0], ast.Name):
        name = s.targets[0].id
        return f"(let {name} := {sexpr(s.value, env)} in\n   {guard_term(rest, env.bind(name), fname)})"
    if isinstance(s, ast.If) and not s.orelse and len(s.body) == 1 and isinstance(s.body[0], ast.Raise):
        return f"(negb {bexpr(s.test, env)}\n   && {guard_term(rest, env, fname)})"
    raise Unsupported(f"{fname}: statement not supported in a path guard: {dump(s)}")


def acceptance_term(tx: ast.Module) -> Tuple[str, List[str]]:
    """Transaction.append_files: what is demanded of data_file.file_path for EVERY file, before the operation is queued."""
    fn = find_function(tx, "append_files", cls="Transaction")
    names = [a.arg for a in fn.args.args]
    # (self, files) plus optional trailing keyword parameters with defaults (e.g. the private flag append_data passes)
    if names[:2] != ["self", "files"] or len(fn.args.defaults) != len(names) - 2:
        raise Unsupported(f"append_files signature changed: {names}")
    body = strip_docstring(fn.body)
    loops = [s for s in body if isinstance(s, ast.For)]
    if len(loops) != 1:
        raise Unsupported(f"append_files: expected one loop over the files, found {len(loops)}")
    loop = loops[0]
    if not (isinstance(loop.target, ast.Name) and isinstance(loop.iter, ast.Name) and loop.iter.id == "files" and not loop.orelse):
        raise Unsupported("append_files: the loop is no longer `for <name> in files`")
    var = loop.target.id
    queued = [i for i, s in enumerate(body) if isinstance(s, ast.Expr) and isinstance(s.value, ast.Call)
              and _self_chain(s.value.func) == "_operations.append"]
    if len(queued) != 1 or queued[0] < body.index(loop):
        raise Unsupported("append_files: the operation is not queued exactly once, after the loop over the files")
    for s in body[:queued[0]]:
        # nothing before the queueing statement may leave the function normally (a `return` would skip the guards' effect)
        for n in ast.walk(s):
            if isinstance(n, ast.Return):
                raise Unsupported("append_files: a return before the operation is queued")
    for n in ast.walk(loop):
        if isinstance(n, (ast.Continue, ast.Break)):
            raise Unsupported("append_files: continue / break in the loop over the files (a file could skip its guards)")
    terms: List[str] = []
    names: List[str] = []
    for s in loop.body:
        if not (isinstance(s, ast.Expr) and isinstance(s.value, ast.Call)):
            continue                      # existence, format and schema tests: not path guards (existence is has_key in the model)
        c = s.value
        ch = _self_chain(c.func)
        if ch is None or "." in ch or c.keywords or len(c.args) != 1:
            continue
        a = c.args[0]
        if not (isinstance(a, ast.Attribute) and isinstance(a.value, ast.Name) and a.value.id == var and a.attr == "file_path"):
            continue
        g = find_function(tx, ch, cls="Transaction")
        params = [x.arg for x in g.args.args]
        if params and params[0] == "self":
            params = params[1:]
        if len(params) != 1:
            raise Unsupported(f"{ch}: a path guard takes the path only")
        env = Env({params[0]: "file_path"}, funcs={"posixpath.normpath": "normpath"})
        terms.append(guard_term(strip_docstring(g.body), env, ch))
        names.append(ch)
    out = "true"
    for t in reversed(terms):
        out = f"({t}\n   && {out})"
    return out, names


@generator("GenNorm.v")
def gen_norm(src: str) -> str:
    gc = parse_module(src, "garbage_collector.py")
    tx = parse_module(src, "transaction.py")

    inflight = str_const(module_const(gc, "INFLIGHT_PATH"))
    tx_inflight = str_const(module_const(tx, "_INFLIGHT_PATH"))
    timeout = int_const(module_const(gc, "DEFAULT_INFLIGHT_TIMEOUT_MS"))

    collect = find_function(gc, "collect", cls="GarbageCollector")
    grace = int_const(arg_default(collect, "grace_period_ms"))
    tmo_default = arg_default(collect, "inflight_timeout_ms")
    if not (isinstance(tmo_default, ast.Name) and tmo_default.id == "DEFAULT_INFLIGHT_TIMEOUT_MS"):
        raise Unsupported("collect: inflight_timeout_ms default is no longer DEFAULT_INFLIGHT_TIMEOUT_MS")
    table_gc = find_function(tx, "garbage_collect", cls="Table")
    table_grace = int_const(arg_default(table_gc, "grace_period_ms"))

    norm = find_function(gc, "_normalize_path", cls="GarbageCollector")
    if [a.arg for a in norm.args.args] != ["self", "path"]:
        raise Unsupported("_normalize_path signature changed")
    norm_term = stmts(strip_docstring(norm.body), Env({"path": "path"}))

    try:
        mt = find_function(gc, "_marker_targets", cls="GarbageCollector")
    except Unsupported:
        mt = find_function(gc, "_marker_target", cls="GarbageCollector")
    if [a.arg for a in mt.args.args] != ["self", "marker_path", "basename"]:
        raise Unsupported(f"{mt.name} signature changed")
    fallback_term = marker_fallback_term(mt, {"INFLIGHT_PATH": "INFLIGHT_PATH"})

    reg = find_function(tx, "_register_inflight", cls="Transaction")
    if [a.arg for a in reg.args.args] != ["self", "file_path"]:
        raise Unsupported("_register_inflight signature changed")
    try:
        reg_path, reg_payload = register_terms(reg, {"_INFLIGHT_PATH": "TX_INFLIGHT_PATH"})
    except Unsupported as e:
        raise Unsupported(f"Transaction._register_inflight (how a marker is NAMED and what its payload says must be a function of the "
                          f"registered file path alone: the collector's fallback for an unreadable payload derives the protected paths "
                          f"from the marker's name -- C07_registered_marker_fallback_covers): {e}")
    accept_term, accept_names = acceptance_term(tx)

    # hand-modelled control structure: pinned
    fm = parse_module(src, "file_manager.py")
    check_avro_fallback(fm, "read_manifest_list_file")
    check_avro_fallback(fm, "read_manifest_file")
    check_skeleton(collect, "collect")
    mfirst = markers_first(collect)
    checks_current, unset_num = current_snapshot_check(gc, collect)
    list_json_empty = json_missing_section_reads_empty(fm, "read_manifest_list_file")
    manifest_json_empty = json_missing_section_reads_empty(fm, "read_manifest_file")
    check_skeleton(find_function(gc, "_load_inflight_protection", cls="GarbageCollector"), "_load_inflight_protection")
    check_skeleton(mt, "_marker_targets")
    check_skeleton(find_function(gc, "_gc_prefix", cls="GarbageCollector"), "_gc_prefix")

    return f"""(* GENERATED by translator/gen_norm.py from src/datashard/garbage_collector.py and transaction.py -- do not edit *)
From Coq Require Import ZArith List String Ascii Bool.
Require Import DS.Model.PyStr.
Import ListNotations.
Open Scope string_scope.

Definition INFLIGHT_PATH : string := {coq_str(inflight)}.
Definition TX_INFLIGHT_PATH : string := {coq_str(tx_inflight)}.
(* transaction._INFLIGHT_PATH must equal garbage_collector.INFLIGHT_PATH: checked by conversion *)
Definition inflight_paths_equal : INFLIGHT_PATH = TX_INFLIGHT_PATH := eq_refl.

(* collect(): is _load_inflight_protection called before metadata_manager.refresh()?  (Model/GC.v gc_run_from) *)
Definition MARKERS_FIRST : bool := {"true" if mfirst else "false"}.

(* collect(): does it refuse (GarbageCollectionAborted, before the first sweep) a metadata whose current_snapshot_id is set
   -- not None, not CURRENT_UNSET_NUM -- and equals the snapshot_id of none of the snapshots it lists?  (Model/GCDoc.v) *)
Definition COLLECT_CHECKS_CURRENT_SNAPSHOT : bool := {"true" if checks_current else "false"}.
Definition CURRENT_UNSET_NUM : Z := ({unset_num})%Z.

(* FileManager.read_manifest_list_file / read_manifest_file, JSON fallback: does a JSON document WITHOUT its section
   (`manifests` / `files`) read as an EMPTY list / manifest (`DOC.get(key, [])`), or is it refused (`DOC[key]`)?  (Model/GC.v) *)
Definition LIST_JSON_MISSING_SECTION_READS_EMPTY : bool := {"true" if list_json_empty else "false"}.
Definition MANIFEST_JSON_MISSING_SECTION_READS_EMPTY : bool := {"true" if manifest_json_empty else "false"}.

Definition DEFAULT_INFLIGHT_TIMEOUT_MS : Z := ({timeout})%Z.
Definition DEFAULT_GRACE_MS : Z := ({grace})%Z.
Definition TABLE_DEFAULT_GRACE_MS : Z := ({table_grace})%Z.

(* GarbageCollector._normalize_path(self, path) with self.table_path = table_path *)
Definition normalize_path (table_path path : string) : string :=
  {norm_term}.

(* {mt.name}: the paths protected when the marker's payload cannot be used *)
Definition marker_fallback (marker_path basename_ : string) : list string :=
  {fallback_term}.

(* Transaction._register_inflight(file_path): key of the marker written, and the payload's "file_path" *)
Definition register_marker_path (file_path : string) : string :=
  {reg_path}.
Definition register_marker_payload (file_path : string) : string :=
  {reg_payload}.

(* Transaction.append_files: the path guards applied to every file unconditionally ({", ".join(accept_names) or "none"});
   posixpath.normpath is a parameter *)
Definition append_accepts_path (normpath : string -> string) (file_path : string) : bool :=
  {accept_term}.
"""
