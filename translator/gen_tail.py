"""GenTail.v -- the post-commit-point TAIL of every commit path, read off the source (C04).

Once the version-hint write has landed, the rest of the call -- what is left of _write_hint_at_commit_point,
MetadataManager.commit (the `finally` that releases the lock), SnapshotManager.create_snapshot,
Transaction._commit_file_ops and Transaction.commit (`_finish_committed`) -- still runs INSIDE the `try` of
Transaction.commit, whose `except Exception` arm deletes every file the transaction wrote.  Whether that arm can be
reached after the flip is a fact about the source: which storage / lock calls (and `raise` statements) the tail contains
and whether an Exception raised by each of them is swallowed before it reaches Transaction.commit's handlers.

For every commit path the generator follows the chain of call sites from the commit-point write outwards and emits the
continuation as a regular expression (coq/Model/TailBase.v `tre`) over `TCall kind guarded`:

    gen_tail_file_ops          append / delete-files commits:  ... -> create_snapshot -> _commit_file_ops -> Transaction.commit
    gen_tail_meta_only         expire_snapshots alone:          ... -> MetadataManager.commit -> Transaction.commit
    gen_tail_delete_snapshot   SnapshotManager.delete_snapshot: ... -> MetadataManager.commit -> delete_snapshot

  * sequencing, `if` (alternative), loops (star), `try` (handler bodies are optional continuations) are kept, so the
    harness can check that the calls a real commit issues after its flip are a word of the expression;
  * methods of the library's own classes reached from the tail (self.m(), self.snapshot_manager.m(), ...) are inlined;
  * `guarded` = some enclosing `try` between the call and Transaction.commit's handlers catches Exception (or wider)
    and its handler does not raise;
  * storage calls through a local alias (`storage = self.metadata_manager.storage`) are followed;
  * anything the walk cannot classify (a call outside the vocabulary, a tail that re-enters a loop, a commit call that
    is not where the chain says) raises Unsupported: the file does not compile and every C04 theorem breaks.

Coq then proves (Proofs/TailProofs.v, Props/C04.v) that with these tails and the regenerated handler table gen_tx_on
no file referenced by a committed version is ever deleted, and that ANY unguarded call in a tail yields a damaging run.
"""
from __future__ import annotations

import ast
from typing import Dict, List, Optional, Tuple

from core import Unsupported, find_function, generator, parse_module

CLASS_FILE = {"Transaction": "transaction.py", "SnapshotManager": "snapshot_manager.py",
              "MetadataManager": "metadata_manager.py", "FileManager": "file_manager.py"}
ATTR_CLASS = {"snapshot_manager": "SnapshotManager", "metadata_manager": "MetadataManager", "file_manager": "FileManager"}

COMPUTE = "TKCompute"      # fallible code that touches neither storage nor the lock (see `Walker.compute`)

STORAGE_KIND = {
    "delete_file": "TKDelete", "exists": "TKExists",
    "read_file": "TKRead", "read_file_with_etag": "TKRead", "open_file": "TKRead", "open_seekable": "TKRead", "read_json": "TKRead",
    "get_size": "TKRead", "get_modified_time": "TKRead",
    "write_file": "TKWrite", "write_file_cas": "TKWrite", "write_json": "TKWrite", "makedirs": "TKWrite",
    "list_files": "TKList",
}
# calls that touch neither storage nor the lock.  INSIDE a `try` that swallows Exception they leave no trace in the tail;
# OUTSIDE one they are emitted as `TCall TKCompute false`: Transaction.commit's `except Exception` arm does not ask WHY
# something raised -- int("x"), next() of an empty iterator, json.loads of a damaged document, d[k] after the flip
# reach the deleting rollback exactly like a storage error.
PURE_NAMES = {
    "len", "int", "str", "list", "dict", "set", "tuple", "sorted", "max", "min", "any", "all", "next", "iter", "range", "enumerate",
    "isinstance", "getattr", "hasattr", "repr", "bool", "float", "zip", "map", "filter", "reversed", "sum", "abs", "id", "type",
    "deepcopy", "copy.deepcopy", "uuid.uuid4", "time.sleep", "time.time", "random.uniform", "datetime.now", "(datetime.now).timestamp",
    "json.dumps", "json.loads", "os.path.join", "os.path.basename", "os.path.dirname",
}
FLOW = (ast.Return, ast.Continue, ast.Break)

# ---------------------------------------------------------------------------------------------- regular expressions
EPS = ("eps",)


def seq(*rs):
    out = []
    for r in rs:
        if r == EPS:
            continue
        if r[0] == "seq":
            out.extend(r[1])
        else:
            out.append(r)
    if not out:
        return EPS
    return out[0] if len(out) == 1 else ("seq", out)


def alt(a, b):
    if a == b:
        return a
    return ("alt", a, b)


def opt(r):
    return r if r == EPS else alt(r, EPS)


def star(r):
    return r if r == EPS else ("star", r)


def to_coq(r) -> str:
    if r == EPS:
        return "TEps"
    if r[0] == "call":
        return f"TCall {r[1]} {'true' if r[2] else 'false'}"
    if r[0] == "seq":
        items = r[1]
        s = to_coq(items[-1])
        for it in reversed(items[:-1]):
            s = f"TSeq ({to_coq(it)}) ({s})"
        return s
    if r[0] == "alt":
        return f"TAlt ({to_coq(r[1])}) ({to_coq(r[2])})"
    if r[0] == "star":
        return f"TStar ({to_coq(r[1])})"
    raise AssertionError(r)


def calls_of(r) -> List[tuple]:
    if r == EPS:
        return []
    if r[0] == "call":
        return [r]
    if r[0] == "seq":
        return [c for x in r[1] for c in calls_of(x)]
    if r[0] == "alt":
        return calls_of(r[1]) + calls_of(r[2])
    return calls_of(r[1])


# ---------------------------------------------------------------------------------------------- the walk
def _dotted(f: ast.AST) -> str:
    parts = []
    while isinstance(f, ast.Attribute):
        parts.append(f.attr)
        f = f.value
    if isinstance(f, ast.Name):
        parts.append(f.id)
    elif isinstance(f, ast.Call):
        parts.append("(" + _dotted(f.func) + ")")
    else:
        parts.append("?")
    return ".".join(reversed(parts))


def _handler_names(h: ast.ExceptHandler) -> List[str]:
    if h.type is None:
        return ["BaseException"]
    if isinstance(h.type, ast.Tuple):
        return [ast.unparse(x) for x in h.type.elts]
    return [ast.unparse(h.type)]


def swallows_exception(t: ast.Try) -> bool:
    """Does this try keep an arbitrary Exception raised in its body from propagating?  The first handler that catches
    Exception (or wider) decides; handlers for specific subclasses do not catch a generic storage error."""
    for h in t.handlers:
        if any(n in ("Exception", "BaseException") for n in _handler_names(h)):
            return not any(isinstance(n, ast.Raise) for s in h.body for n in ast.walk(s))
    return False


SAFE_CMP = (ast.Is, ast.IsNot, ast.Eq, ast.NotEq)
# expression nodes that cannot raise for a reason worth modelling when their operands do not: names, constants, attribute
# reads, displays, `not` / and / or, identity and (in)equality tests, conditional expressions, f-strings (formatting a local
# value for a log record is trusted not to raise)
SAFE_NODES = (ast.Name, ast.Constant, ast.Attribute, ast.List, ast.Tuple, ast.Set, ast.Dict, ast.BoolOp, ast.IfExp,
              ast.JoinedStr, ast.FormattedValue, ast.keyword, ast.expr_context, ast.boolop, ast.cmpop, ast.unaryop, ast.operator)


def node_is_safe(n: ast.AST) -> bool:
    if isinstance(n, ast.UnaryOp):
        return isinstance(n.op, ast.Not) or isinstance(n.operand, ast.Constant)
    if isinstance(n, ast.Compare):
        return all(isinstance(o, SAFE_CMP) for o in n.ops)
    return isinstance(n, SAFE_NODES)


def target_is_safe(t: ast.AST) -> bool:
    """`x = ...` / `self.a = ...`: binding a name or setting an attribute of a plain object."""
    while isinstance(t, ast.Attribute):
        t = t.value
    return isinstance(t, ast.Name)


class Walker:
    def compute(self, what: str, guarded: bool, where: str):
        """Code that touches neither storage nor the lock but can raise.  Swallowed by an enclosing try: no trace.  Otherwise
        a fallible, unguarded step of the tail."""
        if guarded:
            return EPS
        self.notes.append(f"{COMPUTE} UNGUARDED  {what[:70]}  at {where}")
        return ("call", COMPUTE, False)

    def __init__(self, src: str):
        self.src = src
        self.mods: Dict[str, ast.Module] = {}
        self.notes: List[str] = []
        self.bound: Dict[int, Tuple[set, Dict[str, str]]] = {}      # id(FunctionDef) -> aliases bound through its parameters

    def module_of(self, cls: str) -> ast.Module:
        fn = CLASS_FILE.get(cls)
        if fn is None:
            raise Unsupported(f"post-commit tail: class {cls} is outside the known classes")
        if fn not in self.mods:
            self.mods[fn] = parse_module(self.src, fn)
        return self.mods[fn]

    def method(self, cls: str, name: str) -> ast.FunctionDef:
        mod = self.module_of(cls)
        for node in ast.walk(mod):
            if isinstance(node, ast.ClassDef) and node.name == cls:
                for ch in node.body:
                    if isinstance(ch, ast.FunctionDef) and ch.name == name:
                        return ch
        raise Unsupported(f"post-commit tail: method {cls}.{name} not found")

    def module_function(self, cls: str, name: str) -> Optional[ast.FunctionDef]:
        for ch in self.module_of(cls).body:
            if isinstance(ch, ast.FunctionDef) and ch.name == name:
                return ch
        return None

    # ---- aliases of the storage backend / the managers held in local variables of a function
    def aliases(self, fn: ast.FunctionDef) -> Tuple[set, Dict[str, str]]:
        b = self.bound.get(id(fn), (set(), {}))
        storage, managers = set(b[0]), dict(b[1])
        # a parameter / local that is NAMED like the backend is taken to be the backend
        for a in list(fn.args.args) + list(fn.args.kwonlyargs):
            if a.arg in ("storage", "backend", "storage_backend") or a.arg.endswith(("_storage", "_backend")):
                storage.add(a.arg)
        for n in ast.walk(fn):
            if isinstance(n, ast.Assign) and len(n.targets) == 1 and isinstance(n.targets[0], ast.Name):
                d = _dotted(n.value) if isinstance(n.value, (ast.Attribute, ast.Name)) else ""
                if d.endswith(".storage") or d == "storage":
                    storage.add(n.targets[0].id)
                elif d.startswith("self.") and d.split(".")[-1] in ATTR_CLASS and d.count(".") == 1:
                    managers[n.targets[0].id] = ATTR_CLASS[d.split(".")[-1]]
                elif d.endswith(".lock_provider"):
                    managers[n.targets[0].id] = "<lock>"
        return storage, managers

    # ---- one call
    def call(self, c: ast.Call, guarded: bool, cls: str, fn: ast.FunctionDef, stack: Tuple[Tuple[str, str], ...]):
        name = _dotted(c.func)
        parts = name.split(".")
        st_alias, mgr_alias = self.aliases(fn)
        where = f"{cls}.{fn.name}:{c.lineno}"
        # storage backend
        if len(parts) >= 2 and (parts[-2] == "storage" or (len(parts) == 2 and parts[0] in st_alias)):
            kind = STORAGE_KIND.get(parts[-1], "TKOther")
            self.notes.append(f"{kind} {'guarded' if guarded else 'UNGUARDED'}  {name}  at {where}")
            return ("call", kind, guarded)
        # lock provider
        if (len(parts) >= 2 and parts[-2] == "lock_provider") or (len(parts) == 2 and mgr_alias.get(parts[0]) == "<lock>"):
            kind = "TKRelease" if parts[-1] == "release" else "TKLock"
            self.notes.append(f"{kind} {'guarded' if guarded else 'UNGUARDED'}  {name}  at {where}")
            return ("call", kind, guarded)
        # methods of the library's own classes: inlined
        target: Optional[Tuple[str, str]] = None
        if len(parts) == 2 and parts[0] == "self":
            target = (cls, parts[1])
        elif len(parts) == 3 and parts[0] == "self" and parts[1] in ATTR_CLASS:
            target = (ATTR_CLASS[parts[1]], parts[2])
        elif len(parts) == 2 and parts[0] in mgr_alias and mgr_alias[parts[0]] != "<lock>":
            target = (mgr_alias[parts[0]], parts[1])
        elif len(parts) == 2 and parts[0] in CLASS_FILE:                 # Class.staticmethod(...)
            target = (parts[0], parts[1])
        if target is not None:
            if target in stack:
                raise Unsupported(f"post-commit tail: recursive call {target[0]}.{target[1]} at {where}")
            m = self.method(*target)
            self._bind(c, m, st_alias, mgr_alias, skip_self=not any(isinstance(d, ast.Name) and d.id == "staticmethod" for d in m.decorator_list))
            return self.region(m.body, guarded, target[0], m, stack + (target,))[0]
        if len(parts) == 1:
            mf = self.module_function(cls, parts[0])
            if mf is not None:
                if (cls, "::" + parts[0]) in stack:
                    raise Unsupported(f"post-commit tail: recursive call {parts[0]} at {where}")
                self._bind(c, mf, st_alias, mgr_alias, skip_self=False)
                return self.region(mf.body, guarded, cls, mf, stack + ((cls, "::" + parts[0]),))[0]
        # known to touch neither storage nor the lock
        if parts[0] == "logger" and len(parts) == 2:
            return EPS                           # a logging statement: `logging` reports errors of handlers itself, never raises them
        if name in PURE_NAMES or (parts[-1][:1].isupper() and len(parts) <= 2):
            return self.compute(name + "(...)", guarded, where)
        if len(parts) >= 2 and parts[0] != "self":
            root = parts[0]
            local_names = {a.arg for a in fn.args.args} | {n.id for n in ast.walk(fn) if isinstance(n, ast.Name) and isinstance(n.ctx, ast.Store)}
            if (root in local_names or root.startswith("(")) and root not in st_alias and root not in mgr_alias:
                return self.compute(name + "(...)", guarded, where)      # a method of a local value (list / dict / str / dataclass ...)
        if len(parts) >= 2 and parts[0] != "self":
            mod = self.module_of(cls)
            consts = {t.id for st in mod.body if isinstance(st, (ast.Assign, ast.AnnAssign))
                      for t in (st.targets if isinstance(st, ast.Assign) else [st.target]) if isinstance(t, ast.Name)}
            imported = {(a.asname or a.name).split(".")[0] for st in ast.walk(mod) if isinstance(st, (ast.Import, ast.ImportFrom)) for a in st.names}
            if parts[0] in consts:
                return self.compute(name + "(...)", guarded, where)      # a method of a module-level constant (compiled regex ...)
            if parts[0] in imported:
                if parts[0] in ("os", "shutil", "io", "tempfile", "fcntl", "boto3", "pathlib", "subprocess") and not name.startswith("os.path."):
                    self.notes.append(f"TKOther {'guarded' if guarded else 'UNGUARDED'}  {name}  at {where}")
                    return ("call", "TKOther", guarded)      # I/O that bypasses the storage backend
                return self.compute(name + "(...)", guarded, where)
        if name == "open":
            self.notes.append(f"TKOther {'guarded' if guarded else 'UNGUARDED'}  {name}  at {where}")
            return ("call", "TKOther", guarded)
        if len(parts) >= 3 and parts[0] == "self" and parts[1].startswith("_") and parts[1] not in ("_lock",):
            return self.compute(name + "(...)", guarded, where)          # a method of a private container attribute (self._operations.append ...)
        raise Unsupported(f"post-commit tail: call outside the known vocabulary: {name} at {where}")

    def _bind(self, c: ast.Call, callee: ast.FunctionDef, st_alias: set, mgr_alias: Dict[str, str], skip_self: bool) -> None:
        """An argument that IS the storage backend / the lock provider / a manager makes the callee's parameter an alias."""
        params = [a.arg for a in callee.args.args]
        if skip_self and params:
            params = params[1:]
        pairs = list(zip(params, c.args)) + [(k.arg, k.value) for k in c.keywords if k.arg]
        st, mg = self.bound.setdefault(id(callee), (set(), {}))
        for name, arg in pairs:
            d = _dotted(arg) if isinstance(arg, (ast.Attribute, ast.Name)) else ""
            if not d:
                continue
            if d.endswith(".storage") or d in st_alias:
                st.add(name)
            elif d.endswith(".lock_provider") or mgr_alias.get(d) == "<lock>":
                mg[name] = "<lock>"
            elif d.startswith("self.") and d.count(".") == 1 and d.split(".")[1] in ATTR_CLASS:
                mg[name] = ATTR_CLASS[d.split(".")[1]]
            elif d in mgr_alias:
                mg[name] = mgr_alias[d]

    def exprs(self, node: Optional[ast.AST], guarded: bool, cls: str, fn: ast.FunctionDef, stack) -> tuple:
        """Calls of an expression in evaluation (post-) order."""
        if node is None:
            return EPS
        out = []

        def visit(n: ast.AST) -> None:
            if isinstance(n, (ast.Lambda, ast.FunctionDef)):
                return
            for ch in ast.iter_child_nodes(n):
                visit(ch)
            if isinstance(n, ast.Call):
                out.append(self.call(n, guarded, cls, fn, stack))
            elif not node_is_safe(n) and not isinstance(n, ast.comprehension):
                # a subscript, arithmetic, `in`, an ordering test, a comprehension, unpacking ...: can raise
                out.append(self.compute(ast.unparse(n), guarded, f"{cls}.{fn.name}:{getattr(n, 'lineno', '?')}"))
        visit(node)
        return seq(*out)

    def targets(self, ts: List[ast.AST], guarded: bool, cls: str, fn: ast.FunctionDef, stack) -> tuple:
        """What binding the targets of an assignment / a loop can add: subscripted targets and unpacking can raise."""
        out = []
        for t in ts:
            if not target_is_safe(t):
                out.append(self.exprs(t, guarded, cls, fn, stack) if isinstance(t, ast.Subscript)
                           else self.compute("unpack " + ast.unparse(t), guarded, f"{cls}.{fn.name}:{t.lineno}"))
        return seq(*out)

    # ---- a whole block executed in the tail
    def region(self, stmts: List[ast.stmt], guarded: bool, cls: str, fn: ast.FunctionDef, stack) -> Tuple[tuple, bool]:
        """(expression, may control jump out of the block: return / continue / break)."""
        parts: List[Tuple[tuple, bool]] = [self.stmt(s, guarded, cls, fn, stack) for s in stmts]
        r, jumps = EPS, False
        for pr, pj in reversed(parts):
            r = seq(pr, opt(r) if pj else r)       # after a statement that may jump, the rest is optional
            jumps = jumps or pj
        return r, jumps

    def stmt(self, s: ast.stmt, guarded: bool, cls: str, fn: ast.FunctionDef, stack) -> Tuple[tuple, bool]:
        E = lambda n: self.exprs(n, guarded, cls, fn, stack)          # noqa: E731
        R = lambda b, g=guarded: self.region(b, g, cls, fn, stack)    # noqa: E731
        if isinstance(s, ast.Expr):
            if isinstance(s.value, ast.Constant):
                return EPS, False
            return E(s.value), False
        if isinstance(s, ast.AugAssign):
            return seq(E(s.value), self.compute(ast.unparse(s), guarded, f"{cls}.{fn.name}:{s.lineno}")), False
        if isinstance(s, (ast.Assign, ast.AnnAssign)):
            tg = s.targets if isinstance(s, ast.Assign) else [s.target]
            return seq(E(s.value), self.targets(tg, guarded, cls, fn, stack)), False
        if isinstance(s, ast.Return):
            return E(s.value), True
        if isinstance(s, (ast.Continue, ast.Break)):
            return EPS, True
        if isinstance(s, ast.Raise):
            self.notes.append(f"TKRaise {'guarded' if guarded else 'UNGUARDED'}  {ast.unparse(s)[:60]}  at {cls}.{fn.name}:{s.lineno}")
            return seq(E(s.exc), ("call", "TKRaise", guarded)), True
        if isinstance(s, ast.If):
            (a, ja), (b, jb) = R(s.body), R(s.orelse)
            return seq(E(s.test), alt(a, b)), ja or jb
        if isinstance(s, ast.For):
            (a, _ja), (b, jb) = R(s.body), R(s.orelse)
            a = seq(self.targets([s.target], guarded, cls, fn, stack), a)
            return seq(E(s.iter), star(a), b), jb or any(isinstance(n, ast.Return) for x in s.body for n in ast.walk(x))
        if isinstance(s, ast.While):
            (a, _ja), (b, jb) = R(s.body), R(s.orelse)
            return seq(star(seq(E(s.test), a)), E(s.test), b), jb or any(isinstance(n, ast.Return) for x in s.body for n in ast.walk(x))
        if isinstance(s, ast.Try):
            inner = guarded or swallows_exception(s)
            body, jb = R(s.body, inner)
            hs, jh = EPS, False
            first = True
            for h in s.handlers:
                hr, hj = R(h.body)
                hs = hr if first else alt(hs, hr)
                first = False
                jh = jh or hj
            (o, jo), (f, jf) = R(s.orelse), R(s.finalbody)
            if body == EPS:
                # nothing in the body can fail for a storage reason: no handler is entered
                return seq(o, f), jb or jo or jf
            # the body may be cut short by the exception that a handler then deals with
            return seq(self._prefixes(body) if s.handlers else body, opt(hs), opt(o), f), jb or jh or jo or jf
        if isinstance(s, ast.With):
            items = EPS
            for it in s.items:
                if ast.unparse(it.context_expr) != "self._lock":
                    raise Unsupported(f"post-commit tail: `with {ast.unparse(it.context_expr)}` at {cls}.{fn.name}:{s.lineno} (only the in-process RLock is known not to fail on exit)")
            body, jb = R(s.body)
            return seq(items, body), jb
        if isinstance(s, (ast.Pass, ast.Import, ast.ImportFrom, ast.Global, ast.Nonlocal, ast.FunctionDef)):
            return EPS, False
        raise Unsupported(f"post-commit tail: statement kind {type(s).__name__} at {cls}.{fn.name}:{s.lineno}")

    @staticmethod
    def _prefixes(r: tuple) -> tuple:
        """Every prefix of a sequence (a try body interrupted by a handled exception stops anywhere)."""
        if r == EPS or r[0] != "seq":
            return opt(r) if r != EPS and r[0] != "call" else r
        items = r[1]
        out = EPS
        for it in reversed(items[1:]):
            out = opt(seq(it, out))
        return seq(items[0], out)

    # ---- the continuation of a call site inside one function
    def continuation(self, cls: str, fname: str, is_target, outer_guard: bool, boundary: bool = False) -> Tuple[tuple, bool]:
        """What `cls.fname` executes after the (unique) call selected by `is_target` has returned normally, until the
        function returns; and whether that call site is guarded inside this function.
        boundary: the function is Transaction.commit -- the `try` of its retry loop is where the tail ENDS: its except-arms
        are the handler table gen_tx_on (translator/gen_commit.py), not part of the tail."""
        fn = self.method(cls, fname)
        boundary_try: Optional[ast.Try] = None
        if boundary:
            loops = [n for n in ast.walk(fn) if isinstance(n, ast.While)]
            if not (len(loops) == 1 and len(loops[0].body) == 1 and isinstance(loops[0].body[0], ast.Try)
                    and not loops[0].body[0].finalbody and not loops[0].body[0].orelse):
                raise Unsupported(f"post-commit tail: {cls}.{fname} is not `while ...: try: ... except ...` (retry loop shape changed)")
            boundary_try = loops[0].body[0]
        sites = [n for n in ast.walk(fn) if isinstance(n, ast.Call) and is_target(n)]
        if len(sites) != 1:
            raise Unsupported(f"post-commit tail: {cls}.{fname} contains {len(sites)} call sites of the next link of the commit chain (expected 1)")
        site = sites[0]
        stack = ((cls, fname),)

        def contains(n: ast.AST) -> bool:
            return any(x is site for x in ast.walk(n))

        def block(stmts: List[ast.stmt], guarded: bool) -> Optional[Tuple[tuple, bool, bool]]:
            """(expression after the site, control completes the block normally, site guarded)."""
            for i, s in enumerate(stmts):
                if not contains(s):
                    continue
                r, completes, g = one(s, guarded)
                if completes:
                    rest, _jumps = self.region(stmts[i + 1:], guarded, cls, fn, stack)
                    definitely_returns = bool(stmts[i + 1:]) and isinstance(stmts[-1], (ast.Return, ast.Raise))
                    for x in stmts[i + 1:]:
                        loops = [n for n in ast.walk(x) if isinstance(n, (ast.For, ast.While))]
                        inner = {id(m) for lp in loops for m in ast.walk(lp)}
                        if any(isinstance(n, (ast.Continue, ast.Break)) and id(n) not in inner for n in ast.walk(x)):
                            raise Unsupported(f"post-commit tail: {cls}.{fname} may `continue` / `break` an enclosing loop after the commit point")
                    return seq(r, rest), not definitely_returns, g
                return r, False, g
            return None

        def one(s: ast.stmt, guarded: bool) -> Tuple[tuple, bool, bool]:
            if isinstance(s, (ast.Expr, ast.Assign, ast.AnnAssign, ast.AugAssign, ast.Return)):
                # calls of the same statement evaluated after the site returns
                order: List[ast.Call] = []

                def visit(n: ast.AST) -> None:
                    for ch in ast.iter_child_nodes(n):
                        visit(ch)
                    if isinstance(n, ast.Call):
                        order.append(n)
                visit(s)
                later = order[[k for k, c in enumerate(order) if c is site][0] + 1:]
                r = seq(*[self.call(c, guarded, cls, fn, stack) for c in later])
                tg = s.targets if isinstance(s, ast.Assign) else ([s.target] if isinstance(s, (ast.AnnAssign, ast.AugAssign)) else [])
                if s.value is not site or isinstance(s, ast.AugAssign) or not all(target_is_safe(t) for t in tg):
                    # the result of the commit call is used by a larger expression / a non-trivial binding, evaluated after the flip
                    r = seq(r, self.compute(ast.unparse(s), guarded, f"{cls}.{fname}:{s.lineno}"))
                return r, not isinstance(s, ast.Return), guarded
            if isinstance(s, ast.If):
                if contains(s.test):
                    raise Unsupported(f"post-commit tail: the commit call of {cls}.{fname} sits in an `if` test")
                got = block(s.body, guarded) or block(s.orelse, guarded)
                assert got is not None
                return got
            if isinstance(s, ast.Try):
                if not any(contains(x) for x in s.body):
                    raise Unsupported(f"post-commit tail: the commit call of {cls}.{fname} sits in a handler / else / finally")
                if s is boundary_try:
                    r, completes, g = block(s.body, guarded)     # type: ignore[misc]
                    if completes:
                        raise Unsupported(f"post-commit tail: {cls}.{fname} leaves the retry `try` without returning after the commit point")
                    return r, False, g
                inner = guarded or swallows_exception(s)
                r, completes, g = block(s.body, inner)       # type: ignore[misc]
                o, jo = self.region(s.orelse, guarded, cls, fn, stack) if completes else (EPS, False)
                f, _jf = self.region(s.finalbody, guarded, cls, fn, stack)
                # handler bodies run only if the rest of the body raises: they are part of the faulty continuations
                hs = EPS
                if r != EPS:
                    for k, h in enumerate(s.handlers):
                        hr, _ = self.region(h.body, guarded, cls, fn, stack)
                        hs = hr if k == 0 else alt(hs, hr)
                if completes and s.orelse and isinstance(s.orelse[-1], ast.Return):
                    completes = False
                return seq(r, opt(hs), o, f), completes, g
            if isinstance(s, ast.With):
                for it in s.items:
                    if ast.unparse(it.context_expr) != "self._lock":
                        raise Unsupported(f"post-commit tail: `with {ast.unparse(it.context_expr)}` around the commit call of {cls}.{fname}")
                got = block(s.body, guarded)
                assert got is not None
                return got
            if isinstance(s, (ast.While, ast.For)):
                got = block(s.body, guarded)
                if got is None:
                    raise Unsupported(f"post-commit tail: the commit call of {cls}.{fname} sits in a loop header / else")
                r, completes, g = got
                if completes:
                    raise Unsupported(f"post-commit tail: after the commit point {cls}.{fname} runs on into the next loop iteration")
                return r, False, g
            raise Unsupported(f"post-commit tail: the commit call of {cls}.{fname} sits in a {type(s).__name__}")

        got = block(fn.body, outer_guard)
        assert got is not None
        r, _completes, g = got
        return r, g


def _is_call(name: str):
    return lambda c: _dotted(c.func) == name


def _is_hint_write(c: ast.Call) -> bool:
    return _dotted(c.func) in ("self.storage.write_file", "self.storage.write_file_cas") and bool(c.args) and ast.unparse(c.args[0]) == "self.HINT_PATH"


def _flip_sites(w: Walker) -> List[ast.Call]:
    fn = w.method("MetadataManager", "_write_hint_at_commit_point")
    return [n for n in ast.walk(fn) if isinstance(n, ast.Call) and _is_hint_write(n)]


def tail_of(w: Walker, chain: List[Tuple[str, str, object]]) -> tuple:
    """chain: (class, function, selector of the call site of the next-inner link), innermost link (the function that calls
    _write_hint_at_commit_point) first.  The tail starts with what is left of _write_hint_at_commit_point itself."""
    # pass 1: is the site of each link guarded inside its function?  (guards of OUTER links enclose the inner tails)
    bnd = [(cls, f) == ("Transaction", "commit") for cls, f, _sel in chain]
    site_guard = [w.continuation(cls, f, sel, False, b)[1] for (cls, f, sel), b in zip(chain, bnd)]
    w.notes.clear()
    out = [flip_tail(w, any(site_guard))]
    for i, (cls, f, sel) in enumerate(chain):
        outer = any(site_guard[i + 1:])
        out.append(w.continuation(cls, f, sel, outer, bnd[i])[0])
    return seq(*out)


def flip_tail(w: Walker, outer_guard: bool) -> tuple:
    """The rest of _write_hint_at_commit_point after the pointer write, which must be the same for every write site."""
    sites = _flip_sites(w)
    if not sites:
        raise Unsupported("post-commit tail: no version-hint write found in _write_hint_at_commit_point")
    tails = []
    for k, s in enumerate(sites):
        keep = list(w.notes)
        tails.append(w.continuation("MetadataManager", "_write_hint_at_commit_point", lambda c, s=s: c is s, outer_guard)[0])
        if k > 0:
            w.notes[:] = keep
    if any(t != tails[0] for t in tails):
        raise Unsupported("post-commit tail: the version-hint write sites of _write_hint_at_commit_point are followed by different code")
    return tails[0]


@generator("GenTail.v")
def gen(src: str) -> str:
    mm_commit = ("MetadataManager", "commit", _is_call("self._write_hint_at_commit_point"))
    paths = {
        "gen_tail_file_ops": [mm_commit,
                              ("SnapshotManager", "create_snapshot", _is_call("self.metadata_manager.commit")),
                              ("Transaction", "_commit_file_ops", _is_call("self.snapshot_manager.create_snapshot")),
                              ("Transaction", "commit", _is_call("self._commit_file_ops"))],
        "gen_tail_meta_only": [mm_commit, ("Transaction", "commit", _is_call("self.metadata_manager.commit"))],
        "gen_tail_delete_snapshot": [mm_commit, ("SnapshotManager", "delete_snapshot", _is_call("self.metadata_manager.commit"))],
    }
    out = [
        "(* GENERATED by translator/gen_tail.py from metadata_manager.py / snapshot_manager.py / transaction.py -- do not edit. *)",
        "From Coq Require Import List Bool.",
        "Require Import DS.Model.TailBase.",
        "Import ListNotations.",
        "",
    ]
    for name, chain in paths.items():
        w = Walker(src)
        r = tail_of(w, chain)
        out.append(f"(* {name}: storage / lock calls and raises after the commit-point write, in program order:")
        for n in w.notes:
            out.append("     " + n.replace("*)", "* )").replace("(*", "( *"))
        out.append("*)")
        out.append(f"Definition {name} : tre :=\n  {to_coq(r)}.")
        out.append("")
    return "\n".join(out)


if __name__ == "__main__":
    import sys
    print(gen(sys.argv[1]))
