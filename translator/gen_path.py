"""GenPath.v -- the path-guard structure of the local storage backend and the parquet read path (C17).

What is regenerated from the source on every run:

  gen_table_dirs      the tuple `first_component in ("data", "metadata")` of DataFileManager._get_arrow_path,
                      as component codes (Model/Path.v: 3 = "data", 4 = "metadata");
  gen_entry_guards    for every public LocalStorageBackend method taking a path, and for the DataFileManager
                      read / write entry points, WHICH guard the raw path string goes through.  This is a
                      syntactic taint check: the parameter may only be loaded (a) as the sole argument of a
                      known guard (`self._resolve_path`, `self._resolve_file_target`, `self._get_arrow_path`,
                      `self._get_arrow_write_path`, or a delegating entry point), or (b) inside an f-string
                      (log / error text), or (e) as the receiver of `.endswith("<literal>")` (a predicate of the
                      spelling that names no location).  Any other use -- e.g. `open(path)` or `os.path.join(base, path)` in
                      an entry point -- makes the translator fail closed.  Proofs/PathProofs.v proves that the
                      model's run_entry uses exactly these guards (gen_guards_agree);
  gen_handle_fields / gen_handle_writes / gen_guard_reads
                      the STATE of a long-lived handle: which attributes LocalStorageBackend / DataFileManager objects carry
                      (assigned in __init__ or in the class body), which (method, attribute) pairs STORE into an attribute
                      outside __init__ (assignment, augmented assignment, item assignment / deletion, a mutating method call
                      such as self.x.append / update / setdefault / pop), and which attributes the path guards and the
                      entry points of the local backend READ.  Model/Path.v takes a handle to be its base string (run_entry,
                      run_history, run_session have no other handle argument); Proofs/HandleState.v proves from these tables
                      that no attribute a guard reads is ever written after construction.  setattr / __dict__ / vars() on
                      self, decorators on a guard (functools caches) and `global` / `nonlocal` in a guard fail closed;
  golden shapes       canonical_path, _real_base_path, _resolve_path, _resolve_file_target, list_files,
                      _get_arrow_path, _get_arrow_write_path, open_parquet_source are modelled by hand in
                      Model/Path.v; their normalised AST must equal the shape the model was written against
                      (sha256 of ast.dump without docstrings / messages), else the translator fails closed and
                      prints the new shape.
"""
from __future__ import annotations

import ast
import hashlib
from typing import Dict, List, Optional, Tuple

from core import Unsupported, dump, find_function, generator, parse_module, strip_docstring

CODES = {"data": 3, "metadata": 4}

# entry point (Model/Path.v `entry` constructor) <- (class, method, path parameter)
STORAGE_ENTRIES: List[Tuple[str, str, str]] = [
    ("EpRead", "read_file", "path"), ("EpOpen", "open_file", "path"), ("EpOpenSeekable", "open_seekable", "path"),
    ("EpWrite", "write_file", "path"), ("EpWriteJson", "write_json", "path"), ("EpExists", "exists", "path"),
    ("EpList", "list_files", "prefix"), ("EpDelete", "delete_file", "path"), ("EpMakedirs", "makedirs", "path"),
    ("EpSize", "get_size", "path"), ("EpMtime", "get_modified_time", "path"), ("EpLock", "create_lock", "path"),
]
DFM_ENTRIES: List[Tuple[str, str, str]] = [
    ("EpParquetSource", "open_parquet_source", "file_path"), ("EpReadDataFile", "read_data_file", "file_path"),
    ("EpWriteDataFile", "write_data_file", "file_path"),
]
GUARDS = {"_resolve_path": "GResolve", "_resolve_file_target": "GFileTarget", "_get_arrow_path": "GArrow",
          "_get_arrow_write_path": "GArrowWrite"}
# an entry point may hand its path to another entry point unchanged; the guard is then that one's
DELEGATES = {"read_file", "write_file", "open_parquet_source"}

# sha256 of the normalised shapes the hand-written model follows (see Model/Path.v)
GOLDEN: Dict[str, str] = {
    "storage_backend.canonical_path": "efd9c134aafd982f4d34cf7c6b814d6a66f24274da5cdcd3c1074a79aa7be2e9",
    "storage_backend.LocalStorageBackend._real_base_path": "994a50317039dd3e2cd80e26671438c0be897c80549be64e776a81bf4656e441",
    "storage_backend.LocalStorageBackend._resolve_path": "0934474f56a05ee5de8a0e0bc2d6544a58f8c5ccdaa6b086d3059fcd25b715e8",
    "storage_backend.LocalStorageBackend._resolve_file_target": "89f19d9b588277cfdcfeb690b896bcd90fad50ebce52b410600c9d7a93a2b512",
    "storage_backend.LocalStorageBackend.list_files": "6a4e66d99a0487573359094306c6b01bfc9cbf7202f5f5ae17cfbfeb93bde71b",
    "data_operations.DataFileManager._get_arrow_path": "3981732dafe5c86fddc0ebb862d66f493ee3775eb70e83873cfbb97d329ecba9",
    "data_operations.DataFileManager._get_arrow_write_path": "2a05f66524b32af68001f2707b193c09b6385347a543a25b651beda7cf779e62",
    "data_operations.DataFileManager.open_parquet_source": "90aaf6d70612c56bb8948dc4a75810d29f8e7a5899762e83fc0b4e35c3d98706",
}


class _Scrub(ast.NodeTransformer):
    """Message text is not behaviour: f-strings and string constants inside raise/log calls become ''."""

    def visit_JoinedStr(self, node: ast.JoinedStr) -> ast.AST:
        return ast.Constant(value="")

    def visit_Raise(self, node: ast.Raise) -> ast.AST:
        self.generic_visit(node)
        if isinstance(node.exc, ast.Call):
            node.exc.args = [ast.Constant(value="") for _ in node.exc.args]
        return node


def shape(fn: ast.FunctionDef) -> str:
    body = strip_docstring(list(fn.body))
    mod = ast.Module(body=[_Scrub().visit(ast.parse(ast.unparse(s)).body[0]) for s in body], type_ignores=[])
    args = [a.arg for a in fn.args.args]
    return repr(args) + dump(mod.body)


def check_golden(key: str, fn: ast.FunctionDef) -> None:
    sh = shape(fn)
    got = hashlib.sha256(sh.encode()).hexdigest()
    if GOLDEN.get(key) != got:
        raise Unsupported(f"{key}: source shape changed (the hand-written model in Model/Path.v follows the old one).\n"
                          f"  expected sha256 {GOLDEN.get(key)}\n  got      sha256 {got}\n  new shape: {sh}")


def _param_uses(fn: ast.FunctionDef, param: str) -> List[str]:
    """How the raw path parameter is used. Returns the guard / delegate names; raises on any other use."""
    parents: Dict[ast.AST, ast.AST] = {}
    for node in ast.walk(fn):
        for ch in ast.iter_child_nodes(node):
            parents[ch] = node
    uses: List[str] = []
    for node in ast.walk(fn):
        if isinstance(node, ast.Name) and node.id == param:
            if isinstance(node.ctx, ast.Store):
                raise Unsupported(f"{fn.name}: parameter {param} is reassigned")
            par = parents.get(node)
            # (b) inside an f-string
            anc: Optional[ast.AST] = par
            in_fstring = False
            while anc is not None and anc is not fn:
                if isinstance(anc, ast.JoinedStr):
                    in_fstring = True
                    break
                anc = parents.get(anc)
            if in_fstring:
                continue
            # (a) sole positional argument of self.<guard>(param) / self.storage.<...> is NOT accepted
            if (isinstance(par, ast.Call) and par.args and par.args[0] is node and isinstance(par.func, ast.Attribute)
                    and isinstance(par.func.value, ast.Name) and par.func.value.id == "self"):
                name = par.func.attr
                if name in GUARDS or name in DELEGATES:
                    uses.append(name)
                    continue
            # (c) `param.lstrip("/")` inside an `isinstance(self.storage, S3StorageBackend)` branch (object-store key, C20)
            if isinstance(par, ast.Attribute) and par.attr == "lstrip":
                anc = par
                s3 = False
                while anc is not None and anc is not fn:
                    if isinstance(anc, ast.If) and "S3StorageBackend" in ast.unparse(anc.test):
                        s3 = True
                        break
                    anc = parents.get(anc)
                if s3:
                    continue
            # (d) recorded as a NAME in the returned DataFile(file_path=...): not an access
            if isinstance(par, ast.keyword) and par.arg == "file_path":
                continue
            # (e) `param.endswith("<literal>")`: a predicate of the spelling (a trailing "/" asks for a directory, C20);
            #     it selects between two stat calls on the GUARDED location and never names a location itself
            gp = parents.get(par) if par is not None else None
            if (isinstance(par, ast.Attribute) and par.attr == "endswith" and isinstance(gp, ast.Call) and gp.func is par
                    and len(gp.args) == 1 and not gp.keywords and isinstance(gp.args[0], ast.Constant) and isinstance(gp.args[0].value, str)):
                continue
            raise Unsupported(f"{fn.name}: raw path parameter {param!r} used outside a guard: {ast.unparse(par) if par is not None else '?'}")
    if not uses:
        raise Unsupported(f"{fn.name}: path parameter {param!r} never reaches a guard")
    return uses


def _guard_of(cls_fns: Dict[str, ast.FunctionDef], method: str, param: str, depth: int = 0) -> str:
    if depth > 3:
        raise Unsupported(f"{method}: delegation chain too long")
    fn = cls_fns.get(method)
    if fn is None:
        raise Unsupported(f"entry point {method} not found")
    if param not in [a.arg for a in fn.args.args]:
        raise Unsupported(f"{method}: no parameter {param}")
    uses = _param_uses(fn, param)
    guards = set()
    for u in uses:
        if u in GUARDS:
            guards.add(GUARDS[u])
        else:
            sub = cls_fns[u]
            guards.add(_guard_of(cls_fns, u, [a.arg for a in sub.args.args][1], depth + 1))
    if len(guards) != 1:
        raise Unsupported(f"{method}: path goes through several different guards {sorted(guards)}")
    return guards.pop()


MUTATORS = {"append", "add", "update", "pop", "popitem", "setdefault", "clear", "extend", "insert", "remove", "discard", "sort", "reverse",
            "__setitem__", "__delitem__", "move_to_end", "appendleft", "popleft", "put", "put_nowait", "cache_clear"}
# the functions whose attribute reads decide where a path goes
LOCAL_GUARDS = ("_real_base_path", "_resolve_path", "_resolve_file_target")
DFM_GUARDS = ("_get_arrow_path", "_get_arrow_write_path", "open_parquet_source")


def _self_root(node: ast.AST) -> Optional[str]:
    """`self.X`, `self.X[...]`, `self.X.y[...]` ... -> "X" (the attribute of self the expression is rooted at)."""
    cur = node
    while True:
        if isinstance(cur, ast.Attribute) and isinstance(cur.value, ast.Name) and cur.value.id == "self":
            return cur.attr
        if isinstance(cur, (ast.Attribute, ast.Subscript)):
            cur = cur.value
            continue
        if isinstance(cur, ast.Starred):
            cur = cur.value
            continue
        return None


def _targets(t: ast.AST) -> List[ast.AST]:
    if isinstance(t, (ast.Tuple, ast.List)):
        out: List[ast.AST] = []
        for e in t.elts:
            out += _targets(e)
        return out
    return [t]


def _handle_state(cls_name: str, cls: ast.ClassDef) -> Tuple[List[str], List[Tuple[str, str]], Dict[str, List[str]]]:
    """(attributes set up at construction, (method, attribute) stores outside __init__, method -> attributes it loads)."""
    fns = {f.name: f for f in cls.body if isinstance(f, ast.FunctionDef)}
    for f in cls.body:
        if isinstance(f, ast.AsyncFunctionDef):
            raise Unsupported(f"{cls_name}.{f.name}: async method")
    fields: List[str] = []
    for st in cls.body:                                   # class-level attributes are shared handle state as well
        if isinstance(st, (ast.Assign, ast.AnnAssign)):
            for t in (st.targets if isinstance(st, ast.Assign) else [st.target]):
                for x in _targets(t):
                    if isinstance(x, ast.Name) and x.id not in fields:
                        fields.append(x.id)
    writes: List[Tuple[str, str]] = []
    reads: Dict[str, List[str]] = {}
    for name, fn in fns.items():
        stores: List[str] = []
        loads: List[str] = []
        for node in ast.walk(fn):
            if isinstance(node, (ast.AsyncFunctionDef,)):
                raise Unsupported(f"{cls_name}.{name}: nested async function")
            if isinstance(node, ast.Call):
                fx = node.func
                if isinstance(fx, ast.Name) and fx.id in ("setattr", "delattr", "vars") and node.args and isinstance(node.args[0], ast.Name) and node.args[0].id == "self":
                    raise Unsupported(f"{cls_name}.{name}: {fx.id}(self, ...) -- handle state written by a computed name")
                if isinstance(fx, ast.Attribute) and fx.attr in ("__setattr__", "__delattr__"):
                    raise Unsupported(f"{cls_name}.{name}: {fx.attr} call -- handle state written by a computed name")
                if isinstance(fx, ast.Attribute) and fx.attr in MUTATORS:
                    root = _self_root(fx.value)
                    if root is not None:
                        stores.append(root)
            if isinstance(node, ast.Attribute) and isinstance(node.value, ast.Name) and node.value.id == "self":
                if node.attr == "__dict__":
                    raise Unsupported(f"{cls_name}.{name}: self.__dict__ -- handle state accessed by a computed name")
                if isinstance(node.ctx, ast.Load) and node.attr not in fns:
                    loads.append(node.attr)
            tg: List[ast.AST] = []
            if isinstance(node, ast.Assign):
                for t in node.targets:
                    tg += _targets(t)
            elif isinstance(node, (ast.AugAssign, ast.AnnAssign)):
                tg += _targets(node.target)
            elif isinstance(node, ast.Delete):
                for t in node.targets:
                    tg += _targets(t)
            elif isinstance(node, (ast.For, ast.AsyncFor)):
                tg += _targets(node.target)
            elif isinstance(node, (ast.With, ast.AsyncWith)):
                for it in node.items:
                    if it.optional_vars is not None:
                        tg += _targets(it.optional_vars)
            elif isinstance(node, ast.NamedExpr):
                tg += _targets(node.target)
            for x in tg:
                root = _self_root(x)
                if root is not None:
                    stores.append(root)
        if name == "__init__":
            for a in stores:
                if a not in fields:
                    fields.append(a)
        else:
            for a in dict.fromkeys(stores):
                writes.append((name, a))
        reads[name] = list(dict.fromkeys(loads))
    return fields, writes, reads


def _no_hidden_state(key: str, fn: ast.FunctionDef) -> None:
    """A guard keeps nothing between calls outside the handle: no decorator (functools.lru_cache / cache ...), no global / nonlocal."""
    if fn.decorator_list:
        raise Unsupported(f"{key}: decorated ({', '.join(ast.unparse(d) for d in fn.decorator_list)}) -- a caching decorator keeps validated paths between calls")
    for node in ast.walk(fn):
        if isinstance(node, (ast.Global, ast.Nonlocal)):
            raise Unsupported(f"{key}: `{ast.unparse(node)}` -- module-level state in a path guard")


def _class_def(mod: ast.Module, cls: str) -> ast.ClassDef:
    for node in ast.walk(mod):
        if isinstance(node, ast.ClassDef) and node.name == cls:
            return node
    raise Unsupported(f"class {cls} not found")


def _class_functions(mod: ast.Module, cls: str) -> Dict[str, ast.FunctionDef]:
    for node in ast.walk(mod):
        if isinstance(node, ast.ClassDef) and node.name == cls:
            return {f.name: f for f in node.body if isinstance(f, ast.FunctionDef)}
    raise Unsupported(f"class {cls} not found")


def _table_dirs(fn: ast.FunctionDef) -> List[int]:
    found: List[List[str]] = []
    for node in ast.walk(fn):
        if (isinstance(node, ast.Compare) and len(node.ops) == 1 and isinstance(node.ops[0], ast.In)
                and isinstance(node.left, ast.Name) and node.left.id == "first_component"
                and isinstance(node.comparators[0], ast.Tuple)):
            names = []
            for e in node.comparators[0].elts:
                if not (isinstance(e, ast.Constant) and isinstance(e.value, str)):
                    raise Unsupported("_get_arrow_path: table directory tuple holds a non-literal")
                names.append(e.value)
            found.append(names)
    if len(found) != 1:
        raise Unsupported(f"_get_arrow_path: expected one `first_component in (...)` test, found {len(found)}")
    out = []
    for n in found[0]:
        if n not in CODES:
            raise Unsupported(f"_get_arrow_path: table directory {n!r} has no component code in Model/Path.v")
        out.append(CODES[n])
    return out


@generator("GenPath.v")
def gen_path(src: str) -> str:
    sb = parse_module(src, "storage_backend.py")
    do = parse_module(src, "data_operations.py")
    local = _class_functions(sb, "LocalStorageBackend")
    dfm = _class_functions(do, "DataFileManager")

    check_golden("storage_backend.canonical_path", find_function(sb, "canonical_path"))
    _no_hidden_state("storage_backend.canonical_path", find_function(sb, "canonical_path"))
    for m in ("_real_base_path", "_resolve_path", "_resolve_file_target", "list_files"):
        if m not in local:
            raise Unsupported(f"LocalStorageBackend.{m} not found")
        check_golden(f"storage_backend.LocalStorageBackend.{m}", local[m])
        _no_hidden_state(f"storage_backend.LocalStorageBackend.{m}", local[m])
    for m in ("_get_arrow_path", "_get_arrow_write_path", "open_parquet_source"):
        if m not in dfm:
            raise Unsupported(f"DataFileManager.{m} not found")
        check_golden(f"data_operations.DataFileManager.{m}", dfm[m])
        _no_hidden_state(f"data_operations.DataFileManager.{m}", dfm[m])

    # the state of a long-lived handle
    l_fields, l_writes, l_reads = _handle_state("LocalStorageBackend", _class_def(sb, "LocalStorageBackend"))
    d_fields, d_writes, d_reads = _handle_state("DataFileManager", _class_def(do, "DataFileManager"))
    fields_rows = [("LocalStorageBackend", f) for f in l_fields] + [("DataFileManager", f) for f in d_fields]
    write_rows = [("LocalStorageBackend", m, f) for m, f in l_writes] + [("DataFileManager", m, f) for m, f in d_writes]
    read_rows: List[Tuple[str, str, str]] = []
    for m in local:                                        # every method of the local backend: guards, entry points, helpers
        if m == "__init__":
            continue
        read_rows += [("LocalStorageBackend", m, f) for f in l_reads.get(m, [])]
    for m in DFM_GUARDS:
        read_rows += [("DataFileManager", m, f) for f in d_reads.get(m, [])]
    for c, m, f in read_rows:
        if (c, f) not in fields_rows:
            raise Unsupported(f"{c}.{m} reads self.{f}, which is not set up by {c}.__init__ (state of unknown origin in a path guard)")

    # every public method of the local backend that takes a path-like first parameter must be in the table
    known = {m for _, m, _ in STORAGE_ENTRIES} | {"read_json"}
    for name, fn in local.items():
        if name.startswith("_"):
            continue
        params = [a.arg for a in fn.args.args][1:]
        if params and params[0] in ("path", "prefix", "file_path", "key") and name not in known:
            raise Unsupported(f"LocalStorageBackend.{name}: new path-taking entry point not covered by Model/Path.v run_entry")
    rows: List[Tuple[str, str]] = []
    for ep, method, param in STORAGE_ENTRIES:
        rows.append((ep, _guard_of(local, method, param)))
    # read_json delegates to read_file (same model entry as EpRead)
    if _guard_of(local, "read_json", "path") != "GResolve":
        raise Unsupported("read_json no longer goes through _resolve_path")
    for ep, method, param in DFM_ENTRIES:
        fn = dfm.get(method)
        if fn is None:
            raise Unsupported(f"DataFileManager.{method} not found")
        rows.append((ep, _guard_of(dfm, method, param)))
    dirs = _table_dirs(dfm["_get_arrow_path"])
    table = ";\n   ".join(f"({ep}, {g})" for ep, g in rows)

    def q(x: str) -> str:
        if not x.isidentifier():
            raise Unsupported(f"attribute / method name {x!r} is not an identifier")
        return '"' + x + '"'
    fields_c = ";\n   ".join(f"({q(c)}, {q(f)})" for c, f in fields_rows)
    writes_c = ";\n   ".join(f"({q(c)}, {q(m)}, {q(f)})" for c, m, f in write_rows)
    reads_c = ";\n   ".join(f"({q(c)}, {q(m)}, {q(f)})" for c, m, f in read_rows)
    return f"""(* GENERATED by translator/gen_path.py from src/datashard/storage_backend.py and data_operations.py -- do not edit *)
From Coq Require Import ZArith List String.
Require Import DS.Model.Path.
Import ListNotations.
Open Scope Z_scope.

(* `first_component in (...)` of DataFileManager._get_arrow_path, as component codes *)
Definition gen_table_dirs : list comp := [{'; '.join(str(d) for d in dirs)}].

(* which guard the raw path string of each entry point goes through (syntactic taint check) *)
Inductive guard := GResolve | GFileTarget | GArrow | GArrowWrite.

Definition gen_entry_guards : list (entry * guard) :=
  [{table}].

(* ---- the state of a long-lived handle (class, attribute) / (class, method, attribute) ---- *)
(* attributes an object carries: assigned in __init__ or in the class body *)
Definition gen_handle_fields : list (String.string * String.string) :=
  [{fields_c}]%string.

(* stores into an attribute of self outside __init__ (assignment, item assignment / deletion, mutating method call) *)
Definition gen_handle_writes : list (String.string * String.string * String.string) :=
  [{writes_c}]%string.

(* attributes of self that the path guards (DataFileManager) / all methods (LocalStorageBackend) load *)
Definition gen_guard_reads : list (String.string * String.string * String.string) :=
  [{reads_c}]%string.
"""
