"""GenOpen.v -- what OBTAINING a Table handle does, read off the source (C11: handle provenance).

    iceberg.create_table(path, schema=..., partition_spec=...)      -> gen_open_create
    iceberg.load_table(path)                                         -> gen_open_load
    Table(path, schema=...)   (Table.__init__, defaults)             -> gen_open_ctor

Each is the list of `oaction`s (coq/Model/OpenBase.v) the code performs, in program order, on the path that is
taken when the table already exists.  The walk follows calls INTO functions of iceberg.py and methods of Table
(inlined, parameters bound to where their arguments come from), so a helper that is added to create_table is
read like the code it is.  What the model cares about is per-handle state that outlives the call: the
DataFileManager's Arrow-schema cache.  Every call of create_arrow_schema reached from an opening function is
emitted as `OADerive <source of its schema argument>`; the schema argument must be traceable to the caller's
schema= argument (SrcArg) or to Table._get_current_schema() (SrcPersisted).

Fail closed (Unsupported), because the model has no vocabulary for it:
  * any call on the handle's managers other than metadata_manager.refresh(), any call on the DataFileManager other
    than create_arrow_schema, any store to an attribute / subscript outside Table.__init__'s own `self.x = ...`;
  * a loop, comprehension or lambda on the opening path; an unknown function;
  * `_initialize_table` anywhere but under `if create_if_not_exists and self.metadata_manager.refresh() is None`
    (an existing table must never be re-initialised: the append machine assumes the table it opens exists);
  * Table._get_current_schema doing anything but refresh() and reading;
  * `_arrow_schema_cache` touched anywhere in the package outside DataFileManager.__init__ (where it must start
    as the empty dict: a NEW handle knows no layout) and DataFileManager.create_arrow_schema (pinned by gen_schema.py).

Proofs/SchemaOpenProofs.v proves, over whatever is emitted here, that no opening derives a layout from the
unvalidated argument (open_actions_safe); the handle-provenance theorems of Props/C11.v rest on that lemma, so a
change of the opening code is re-checked on every run.
"""
from __future__ import annotations

import ast
import os
from typing import Dict, List, Optional, Tuple

from core import Unsupported, find_function, generator, parse_module, strip_docstring

INIT_GUARD = "create_if_not_exists and self.metadata_manager.refresh() is None"
INIT_CALL = "self._initialize_table(schema, partition_spec)"
QUIET_NAMES = {"bool", "isinstance", "len", "str", "repr", "int", "ValueError", "TypeError", "RuntimeError",
               "create_storage_backend", "MetadataManager", "SnapshotManager", "FileManager", "TransactionManager"}
PURE_METHODS = {"equals", "get", "keys", "items", "values", "format", "startswith", "endswith", "lower", "upper", "strip"}
MAX_DEPTH = 6


def _u(n: ast.AST) -> str:
    return ast.unparse(n)


class _Walk:
    def __init__(self, mods: Dict[str, ast.Module]):
        self.mods = mods
        self.actions: List[str] = []
        self.depth = 0

    # ------------------------------------------------------------------ emission
    def emit(self, act: str, ctx: Tuple[str, ...]) -> None:
        norm: List[str] = []
        for c in ctx:
            if c == "arg" and "arg" in norm:
                continue
            if c == "maybe" and norm and norm[-1] == "maybe":
                continue
            norm.append(c)
        for c in reversed(norm):
            act = f"{'OAWhenArg' if c == 'arg' else 'OAMaybe'} ({act})" if " " in act else f"{'OAWhenArg' if c == 'arg' else 'OAMaybe'} {act}"
        self.actions.append(act)

    # ------------------------------------------------------------------ functions
    def table_method(self, name: str) -> Optional[ast.FunctionDef]:
        for node in ast.walk(self.mods["transaction"]):
            if isinstance(node, ast.ClassDef) and node.name == "Table":
                for ch in node.body:
                    if isinstance(ch, ast.FunctionDef) and ch.name == name:
                        return ch
        return None

    def module_function(self, module: str, name: str) -> Optional[ast.FunctionDef]:
        for ch in self.mods[module].body:
            if isinstance(ch, ast.FunctionDef) and ch.name == name:
                return ch
        return None

    def bind(self, fn: ast.FunctionDef, call: Optional[ast.Call], env: Dict[str, str], ctx: Tuple[str, ...], module: str,
             first: Optional[str], where: str) -> Dict[str, str]:
        a = fn.args
        if a.vararg or a.kwarg or a.kwonlyargs or a.posonlyargs:
            raise Unsupported(f"{where}: parameter kinds of {fn.name} outside the subset")
        names = [x.arg for x in a.args]
        new: Dict[str, str] = {}
        if first is not None:
            new[names[0]] = first
            names = names[1:]
        defaults = dict(zip([x.arg for x in a.args][len(a.args) - len(a.defaults):], a.defaults))
        if call is not None:
            if len(call.args) > len(names):
                raise Unsupported(f"{where}: too many positional arguments for {fn.name}")
            for n, v in zip(names, call.args):
                new[n] = self.ev(v, env, ctx, module, False)
            for k in call.keywords:
                if k.arg is None or k.arg not in names or k.arg in new:
                    raise Unsupported(f"{where}: keyword argument {k.arg!r} of {fn.name}")
                new[k.arg] = self.ev(k.value, env, ctx, module, False)
        for n in names:
            if n not in new:
                if n not in defaults:
                    raise Unsupported(f"{where}: argument {n} of {fn.name} not supplied")
                new[n] = self.ev(defaults[n], {}, ctx, module, False)
        return new

    def inline(self, fn: ast.FunctionDef, env: Dict[str, str], ctx: Tuple[str, ...], module: str, in_ctor: bool) -> str:
        self.depth += 1
        if self.depth > MAX_DEPTH:
            raise Unsupported(f"opening path: calls nested deeper than {MAX_DEPTH} (recursion?) at {fn.name}")
        rets: List[str] = []
        self.body(strip_docstring(list(fn.body)), env, ctx, module, in_ctor, rets)
        self.depth -= 1
        if not rets:
            return "const:None"
        return rets[0] if all(r == rets[0] for r in rets) else "other"

    # ------------------------------------------------------------------ expressions
    def ev(self, e: Optional[ast.AST], env: Dict[str, str], ctx: Tuple[str, ...], module: str, in_ctor: bool) -> str:
        if e is None:
            return "const:None"
        if isinstance(e, ast.Constant):
            return f"const:{e.value!r}" if e.value is None or isinstance(e.value, bool) else "other"
        if isinstance(e, ast.Name):
            return env.get(e.id, "global:" + e.id)
        if isinstance(e, ast.Attribute):
            base = self.ev(e.value, env, ctx, module, in_ctor)
            if e.attr == "data_file_manager":
                return "dfm"
            if base == "table" or base.startswith("table."):
                return base + "." + e.attr
            if base == "dfm":
                raise Unsupported(f"opening path reads DataFileManager.{e.attr}")
            return "other"
        if isinstance(e, ast.Call):
            return self.call(e, env, ctx, module, in_ctor)
        if isinstance(e, (ast.JoinedStr, ast.FormattedValue, ast.BoolOp, ast.UnaryOp, ast.Compare, ast.BinOp, ast.IfExp,
                          ast.Tuple, ast.List, ast.Dict, ast.Set, ast.Subscript)):
            if isinstance(e, ast.Subscript) and not isinstance(e.ctx, ast.Load):
                raise Unsupported(f"opening path stores into {_u(e)}")
            for ch in ast.iter_child_nodes(e):
                if isinstance(ch, (ast.expr_context, ast.boolop, ast.operator, ast.unaryop, ast.cmpop)):
                    continue
                self.ev(ch, env, ctx, module, in_ctor)
            return "other"
        raise Unsupported(f"opening path: expression kind {type(e).__name__}: {_u(e)[:80]}")

    def call(self, c: ast.Call, env: Dict[str, str], ctx: Tuple[str, ...], module: str, in_ctor: bool) -> str:
        f = c.func
        where = f"opening path ({_u(c)[:70]})"
        if any(isinstance(a, ast.Starred) for a in c.args) or any(k.arg is None for k in c.keywords):
            raise Unsupported(f"{where}: star arguments")
        if isinstance(f, ast.Name):
            if f.id in env:
                raise Unsupported(f"{where}: call of a local value")
            if f.id == "Table":
                fn = self.table_method("__init__")
                if fn is None:
                    raise Unsupported("Table.__init__ not found")
                new = self.bind(fn, c, env, ctx, module, "table", where)
                self.inline(fn, new, ctx, "transaction", True)
                return "table"
            fn = self.module_function(module, f.id)
            if fn is not None:
                new = self.bind(fn, c, env, ctx, module, None, where)
                return self.inline(fn, new, ctx, module, False)
            if f.id in QUIET_NAMES:
                for a in list(c.args) + [k.value for k in c.keywords]:
                    self.ev(a, env, ctx, module, in_ctor)
                return "other"
            raise Unsupported(f"{where}: unknown function {f.id}")
        if not isinstance(f, ast.Attribute):
            raise Unsupported(f"{where}: callee {type(f).__name__}")
        m = f.attr
        if isinstance(f.value, ast.Name) and f.value.id == "logger" and "logger" not in env:
            for a in list(c.args) + [k.value for k in c.keywords]:
                self.ev(a, env, ctx, module, in_ctor)
            return "other"
        recv = self.ev(f.value, env, ctx, module, in_ctor)
        args = [self.ev(a, env, ctx, module, in_ctor) for a in c.args] + [self.ev(k.value, env, ctx, module, in_ctor) for k in c.keywords]
        if m == "create_arrow_schema":
            if len(args) != 1 or c.keywords:
                raise Unsupported(f"{where}: create_arrow_schema takes one positional schema")
            src = {"arg": "SrcArg", "persisted": "SrcPersisted"}.get(args[0])
            if src is None:
                raise Unsupported(f"{where}: the schema handed to create_arrow_schema cannot be traced to the caller's "
                                  f"argument or the persisted schema (it is {args[0]})")
            self.emit(f"OADerive {src}", ctx)
            return "other"
        if recv == "table":
            if m == "_get_current_schema":
                if args:
                    raise Unsupported(f"{where}: _get_current_schema takes no argument")
                self.emit("OAReadSchema", ctx)
                return "persisted"
            if m == "_initialize_table":
                raise Unsupported(f"{where}: _initialize_table outside `if {INIT_GUARD}`")
            fn = self.table_method(m)
            if fn is None:
                raise Unsupported(f"{where}: Table has no method {m}")
            new = self.bind(fn, c, env, ctx, module, "table", where)
            return self.inline(fn, new, ctx, "transaction", False)
        if recv == "table.metadata_manager" and m == "refresh" and not args:
            self.emit("OARefresh", ctx)
            return "other"
        if recv == "dfm" or recv.startswith("table."):
            raise Unsupported(f"{where}: call of {recv}.{m} on the opening path")
        if recv.startswith("global:"):
            raise Unsupported(f"{where}: call on the global {recv[7:]}")
        if m in PURE_METHODS:
            return "other"
        raise Unsupported(f"{where}: method {m} on a value ({recv})")

    # ------------------------------------------------------------------ statements
    def store(self, t: ast.AST, tag: str, env: Dict[str, str], in_ctor: bool) -> None:
        if isinstance(t, ast.Name):
            env[t.id] = tag
        elif in_ctor and isinstance(t, ast.Attribute) and isinstance(t.value, ast.Name) and t.value.id == "self":
            pass                                              # the handle's own fields, set while it is built
        else:
            raise Unsupported(f"opening path stores into {_u(t)}")

    def body(self, stmts: List[ast.stmt], env: Dict[str, str], ctx: Tuple[str, ...], module: str, in_ctor: bool, rets: List[str]) -> None:
        for s in stmts:
            if isinstance(s, ast.If) and any(isinstance(n, ast.Attribute) and n.attr == "_initialize_table" for n in ast.walk(s)):
                if not (in_ctor and _u(s.test) == INIT_GUARD and not s.orelse and len(s.body) == 1 and _u(s.body[0]) == INIT_CALL):
                    raise Unsupported(f"Table.__init__: the initialisation is not `if {INIT_GUARD}: {INIT_CALL}`")
                cine = env.get("create_if_not_exists", "other")
                if cine == "const:False":
                    continue
                if cine != "const:True":
                    raise Unsupported(f"Table.__init__: create_if_not_exists is not a constant on this path ({cine})")
                self.emit("OARefresh", ctx)
                self.emit("OAInitIfAbsent", ctx)
                continue
            if isinstance(s, ast.Assign):
                tag = self.ev(s.value, env, ctx, module, in_ctor)
                for t in s.targets:
                    self.store(t, tag, env, in_ctor)
            elif isinstance(s, ast.AnnAssign):
                tag = self.ev(s.value, env, ctx, module, in_ctor)
                self.store(s.target, tag, env, in_ctor)
            elif isinstance(s, ast.Expr):
                self.ev(s.value, env, ctx, module, in_ctor)
            elif isinstance(s, ast.Return):
                rets.append(self.ev(s.value, env, ctx, module, in_ctor))
            elif isinstance(s, ast.Raise):
                self.ev(s.exc, env, ctx, module, in_ctor)
            elif isinstance(s, (ast.Pass, ast.Import, ast.ImportFrom)):
                pass
            elif isinstance(s, ast.If):
                self.ev(s.test, env, ctx, module, in_ctor)
                t = s.test
                kind = "maybe"
                if (isinstance(t, ast.Compare) and isinstance(t.left, ast.Name) and env.get(t.left.id) == "arg" and len(t.ops) == 1
                        and isinstance(t.ops[0], ast.IsNot) and _u(t.comparators[0]) == "None"):
                    kind = "arg"
                self.body(s.body, env, ctx + (kind,), module, in_ctor, rets)
                self.body(s.orelse, env, ctx + ("maybe",), module, in_ctor, rets)
            elif isinstance(s, ast.Try):
                self.body(s.body, env, ctx, module, in_ctor, rets)
                for h in s.handlers:
                    self.body(h.body, env, ctx + ("maybe",), module, in_ctor, rets)
                self.body(s.orelse, env, ctx, module, in_ctor, rets)
                self.body(s.finalbody, env, ctx, module, in_ctor, rets)
            elif isinstance(s, ast.With):
                for it in s.items:
                    self.ev(it.context_expr, env, ctx, module, in_ctor)
                    if it.optional_vars is not None:
                        self.store(it.optional_vars, "other", env, in_ctor)
                self.body(s.body, env, ctx, module, in_ctor, rets)
            else:
                raise Unsupported(f"opening path: statement kind {type(s).__name__}: {_u(s)[:80]}")


# ------------------------------------------------------------------ pins
def check_get_current_schema(tx: ast.Module) -> None:
    fn = find_function(tx, "_get_current_schema", cls="Table")
    for n in ast.walk(fn):
        if isinstance(n, ast.Call) and _u(n.func) != "self.metadata_manager.refresh":
            raise Unsupported(f"Table._get_current_schema calls {_u(n.func)} (expected only self.metadata_manager.refresh())")
        if isinstance(n, (ast.Attribute, ast.Subscript)) and not isinstance(n.ctx, ast.Load):
            raise Unsupported(f"Table._get_current_schema stores into {_u(n)}")
        if isinstance(n, (ast.Global, ast.Nonlocal, ast.Delete)):
            raise Unsupported("Table._get_current_schema: global / nonlocal / del")


def check_cache_sites(src: str) -> None:
    """`_arrow_schema_cache` may be touched only by DataFileManager.__init__ (starts empty) and create_arrow_schema."""
    seen_init = False
    for name in sorted(os.listdir(src)):
        if not name.endswith(".py"):
            continue
        mod = parse_module(src, name)

        def visit(node: ast.AST, cls: Optional[str], fn: Optional[str]) -> None:
            nonlocal seen_init
            for ch in ast.iter_child_nodes(node):
                if isinstance(ch, ast.ClassDef):
                    visit(ch, ch.name, None)
                elif isinstance(ch, (ast.FunctionDef, ast.AsyncFunctionDef)):
                    visit(ch, cls, fn or ch.name)
                else:
                    # the attribute itself, or its name in a string that is not a docstring / comment (getattr, __dict__[...])
                    if (isinstance(ch, ast.Attribute) and ch.attr == "_arrow_schema_cache") or \
                            (isinstance(ch, ast.Constant) and isinstance(ch.value, str) and "_arrow_schema_cache" in ch.value
                             and not isinstance(node, ast.Expr)):
                        if not (name == "data_operations.py" and cls == "DataFileManager" and fn in ("__init__", "create_arrow_schema")):
                            raise Unsupported(f"_arrow_schema_cache is touched in {name}:{cls}.{fn} (line {ch.lineno})")
                    if (isinstance(ch, (ast.Assign, ast.AnnAssign)) and name == "data_operations.py" and cls == "DataFileManager" and fn == "__init__"):
                        tg = ch.targets[0] if isinstance(ch, ast.Assign) else ch.target
                        if _u(tg) == "self._arrow_schema_cache":
                            if ch.value is None or _u(ch.value) != "{}":
                                raise Unsupported(f"a new DataFileManager's _arrow_schema_cache does not start empty: {_u(ch)}")
                            seen_init = True
                    visit(ch, cls, fn)

        visit(mod, None, None)
    if not seen_init:
        raise Unsupported("DataFileManager.__init__ no longer sets self._arrow_schema_cache = {}")


def _actions(mods: Dict[str, ast.Module], which: str) -> List[str]:
    w = _Walk(mods)
    if which == "ctor":
        fn = w.table_method("__init__")
        if fn is None:
            raise Unsupported("Table.__init__ not found")
        # Table(path, schema=<the caller's schema>) with every other parameter at its default
        a = fn.args
        defaults = dict(zip([x.arg for x in a.args][len(a.args) - len(a.defaults):], a.defaults))
        env = {"self": "table", "table_path": "other", "schema": "arg"}
        for x in a.args[1:]:
            if x.arg not in env:
                if x.arg not in defaults:
                    raise Unsupported(f"Table.__init__: parameter {x.arg} without default")
                env[x.arg] = w.ev(defaults[x.arg], {}, (), "transaction", True)
        w.inline(fn, env, (), "transaction", True)
        return w.actions
    fn = w.module_function("iceberg", which)
    if fn is None:
        raise Unsupported(f"iceberg.{which} not found")
    names = [x.arg for x in fn.args.args]
    env = {n: ("arg" if n == "schema" else "other") for n in names}
    if which == "create_table" and "schema" not in names:
        raise Unsupported("create_table has no `schema` parameter")
    ret = w.inline(fn, env, (), "iceberg", False)
    if ret != "table":
        raise Unsupported(f"iceberg.{which} does not return the Table it built on every path ({ret})")
    return w.actions


@generator("GenOpen.v")
def gen(src: str) -> str:
    mods = {"iceberg": parse_module(src, "iceberg.py"), "transaction": parse_module(src, "transaction.py")}
    check_get_current_schema(mods["transaction"])
    check_cache_sites(src)
    create = _actions(mods, "create_table")
    load = _actions(mods, "load_table")
    ctor = _actions(mods, "ctor")
    out = [
        "(* GENERATED by translator/gen_open.py from iceberg.py / transaction.py (Table.__init__) -- do not edit. *)",
        "From Coq Require Import List.",
        "Require Import DS.Model.OpenBase.",
        "Import ListNotations.",
        "",
        "(* iceberg.create_table(path, schema=arg, ...) on a table that exists *)",
        f"Definition gen_open_create : list oaction :=\n  [{'; '.join(create)}].",
        "(* iceberg.load_table(path) *)",
        f"Definition gen_open_load : list oaction :=\n  [{'; '.join(load)}].",
        "(* Table(path, schema=arg) *)",
        f"Definition gen_open_ctor : list oaction :=\n  [{'; '.join(ctor)}].",
        "",
    ]
    return "\n".join(out)


if __name__ == "__main__":
    import sys
    print(gen(sys.argv[1]))
