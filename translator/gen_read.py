"""GenRead.v -- the read path's literal decisions, regenerated; its call order, pinned.

Generated (proofs and the model in Model/Read.v are stated over these):
  list_fallback / manifest_fallback   the exception classes in `except (...)` after the Avro attempt of
                                      FileManager.read_manifest_list_file / read_manifest_file: exactly
                                      these classes (and their subclasses) send the reader to the JSON
                                      fallback; anything else propagates.
  json_reraises_as                    the class raised when the JSON attempt fails too (ValueError)
  checksum_algorithm                  IntegrityChecker.verify_checksum's default algorithm
  verify_default_on                   Table._resolve_verify_checksums: env default "true"

Pinned by golden AST (translator/gen_read_golden.json): every function on the read path whose control
flow and storage-call order Model/Read.v reproduces by hand.  Docstrings, log calls and exception
message texts are normalised away; any other change makes the translator fail closed (GenRead.v
then does not compile and every C14 theorem is reported as unchecked).  After a deliberate library
change:  python translator/gen_read.py --update <repo>/src/datashard
"""
from __future__ import annotations

import ast
import copy
import json
import os
import sys
from typing import Dict, List, Tuple

from core import Unsupported, coq_str, dump, find_function, generator, parse_module, strip_docstring

GOLDEN = os.path.join(os.path.dirname(os.path.abspath(__file__)), "gen_read_golden.json")

# (module file, class, function)
PINNED: List[Tuple[str, str, str]] = [
    ("transaction.py", "Table", "_get_all_data_files"),
    ("transaction.py", "Table", "_data_files_of"),
    ("transaction.py", "Table", "_get_current_schema"),
    ("transaction.py", "Table", "_read_datafile_table"),
    ("transaction.py", "Table", "_scan_table"),
    ("transaction.py", "Table", "scan"),
    ("transaction.py", "Table", "scan_batches"),
    ("transaction.py", "Table", "_iter_file_batches"),
    ("transaction.py", "Table", "iter_records"),
    ("transaction.py", "Table", "row_count"),
    ("transaction.py", "Table", "current_snapshot"),
    ("transaction.py", "Table", "_resolve_verify_checksums"),
    ("file_manager.py", "FileManager", "read_manifest_list_file"),
    ("file_manager.py", "FileManager", "read_manifest_file"),
    ("metadata_manager.py", "MetadataManager", "refresh"),
    ("metadata_manager.py", "MetadataManager", "get_current_snapshot"),
    ("metadata_manager.py", "MetadataManager", "_current_version_info"),
    ("metadata_manager.py", "MetadataManager", "_read_version_hint"),
    ("metadata_manager.py", "MetadataManager", "_read_metadata_file"),
    ("snapshot_manager.py", "SnapshotManager", "get_current_snapshot"),
    ("integrity.py", "IntegrityChecker", "verify_checksum"),
    ("integrity.py", "IntegrityChecker", "compute_checksum"),
    ("storage_backend.py", "LocalStorageBackend", "read_file"),
    ("storage_backend.py", "LocalStorageBackend", "open_file"),
    ("storage_backend.py", "LocalStorageBackend", "exists"),
    ("storage_backend.py", "LocalStorageBackend", "read_json"),
    ("data_operations.py", "DataFileManager", "open_parquet_source"),
]


class _Normalise(ast.NodeTransformer):
    """Drop what cannot change behaviour on the read path: docstrings, logger calls, message texts."""

    def visit_FunctionDef(self, node: ast.FunctionDef):
        node.body = strip_docstring(node.body) or [ast.Pass()]
        node.returns = None
        for a in node.args.args + node.args.kwonlyargs:
            a.annotation = None
        self.generic_visit(node)
        node.body = [s for s in node.body if s is not None] or [ast.Pass()]
        return node

    def visit_Expr(self, node: ast.Expr):
        v = node.value
        if isinstance(v, ast.Constant) and isinstance(v.value, str):
            return None
        if (isinstance(v, ast.Call) and isinstance(v.func, ast.Attribute) and isinstance(v.func.value, ast.Name)
                and v.func.value.id == "logger"):
            return None
        return self.generic_visit(node)

    def visit_AnnAssign(self, node: ast.AnnAssign):
        self.generic_visit(node)
        if node.value is None:
            return None
        return ast.Assign(targets=[node.target], value=node.value)

    def visit_Raise(self, node: ast.Raise):
        # keep the class, drop the message
        if isinstance(node.exc, ast.Call):
            node.exc = ast.Call(func=node.exc.func, args=[ast.Constant("<msg>")], keywords=[])
        return node

    def visit_JoinedStr(self, node: ast.JoinedStr):
        # f-strings that build *paths* matter; keep their structure
        return self.generic_visit(node)


def normalised_dump(fn: ast.FunctionDef) -> str:
    fn = copy.deepcopy(fn)
    fn = _Normalise().visit(fn)
    # empty bodies left by removed statements
    for node in ast.walk(fn):
        for field in ("body", "orelse", "finalbody"):
            b = getattr(node, field, None)
            if isinstance(b, list) and field == "body" and not b and not isinstance(node, ast.Module):
                setattr(node, field, [ast.Pass()])
    return dump(fn)


def collect(src: str) -> Dict[str, str]:
    out = {}
    mods: Dict[str, ast.Module] = {}
    for modname, cls, fname in PINNED:
        if modname not in mods:
            mods[modname] = parse_module(src, modname)
        fn = find_function(mods[modname], fname, cls)
        out[f"{modname}::{cls}.{fname}"] = normalised_dump(fn)
    return out


def _exc_names(handler: ast.ExceptHandler) -> List[str]:
    t = handler.type
    if isinstance(t, ast.Name):
        return [t.id]
    if isinstance(t, ast.Tuple) and all(isinstance(e, ast.Name) for e in t.elts):
        return [e.id for e in t.elts]
    raise Unsupported(f"except clause not a tuple of names: {dump(t) if t is not None else 'bare except'}")


def avro_fallback(fn: ast.FunctionDef) -> Tuple[List[str], str]:
    """(classes caught after the Avro attempt, class raised when JSON fails too)."""
    tries = [s for s in strip_docstring(fn.body) if isinstance(s, ast.Try)]
    if len(tries) != 2:
        raise Unsupported(f"{fn.name}: expected exactly two top-level try statements (Avro, JSON), found {len(tries)}")
    avro, js = tries
    if len(avro.handlers) != 1 or avro.orelse or avro.finalbody:
        raise Unsupported(f"{fn.name}: Avro try must have exactly one handler and no else/finally")
    h = avro.handlers[0]
    body = [s for s in h.body if not (isinstance(s, ast.Expr) and isinstance(s.value, ast.Constant))]
    if not (len(body) == 1 and isinstance(body[0], ast.Pass)):
        raise Unsupported(f"{fn.name}: Avro fallback handler must be `pass` (fall through to JSON)")
    classes = _exc_names(h)
    # the Avro attempt must open the file through the storage backend and parse with fastavro.reader
    w = avro.body[0]
    if not (isinstance(w, ast.With) and len(w.items) == 1 and isinstance(w.items[0].context_expr, ast.Call)
            and dump(w.items[0].context_expr.func) == "Attribute(Attribute(Name('self', Load()), 'storage', Load()), 'open_file', Load())"):
        raise Unsupported(f"{fn.name}: Avro attempt does not start with `with self.storage.open_file(...)`")
    if len(js.handlers) != 1 or _exc_names(js.handlers[0]) != ["Exception"]:
        raise Unsupported(f"{fn.name}: JSON attempt must be guarded by a single `except Exception`")
    r = js.handlers[0].body[-1]
    if not (isinstance(r, ast.Raise) and isinstance(r.exc, ast.Call) and isinstance(r.exc.func, ast.Name)):
        raise Unsupported(f"{fn.name}: JSON failure handler must end in `raise <Class>(...)`")
    return classes, r.exc.func.id


def default_of(fn: ast.FunctionDef, arg: str):
    names = [a.arg for a in fn.args.args]
    if arg not in names:
        raise Unsupported(f"{fn.name}: no argument {arg}")
    idx = names.index(arg) - (len(names) - len(fn.args.defaults))
    if idx < 0:
        raise Unsupported(f"{fn.name}: argument {arg} has no default")
    d = fn.args.defaults[idx]
    if not isinstance(d, ast.Constant):
        raise Unsupported(f"{fn.name}: default of {arg} is not a literal")
    return d.value


def verify_default(fn: ast.FunctionDef) -> bool:
    """_resolve_verify_checksums: `os.getenv("DATASHARD_VERIFY_CHECKSUMS", <default>)...in (<truthy>...)`."""
    for node in ast.walk(fn):
        if (isinstance(node, ast.Call) and isinstance(node.func, ast.Attribute) and node.func.attr == "getenv"
                and len(node.args) == 2 and isinstance(node.args[0], ast.Constant)
                and node.args[0].value == "DATASHARD_VERIFY_CHECKSUMS" and isinstance(node.args[1], ast.Constant)):
            default = str(node.args[1].value).strip().lower()
            for cmp_ in ast.walk(fn):
                if (isinstance(cmp_, ast.Compare) and len(cmp_.ops) == 1 and isinstance(cmp_.ops[0], ast.In)
                        and isinstance(cmp_.comparators[0], ast.Tuple)):
                    truthy = [e.value for e in cmp_.comparators[0].elts if isinstance(e, ast.Constant)]
                    return default in truthy
    raise Unsupported("_resolve_verify_checksums: default lookup not recognised")


def entry_checksum(fn: ast.FunctionDef) -> Tuple[str, str]:
    """FileManager.create_manifest_file: what is written into an entry's "checksum" field, per entry status.

    Returns (term for ADDED entries, term for EXISTING entries) over the variable c = df.checksum.
    Accepted shapes: the field is `df.checksum` itself, or a local name assigned in both branches of
    `if status == ENTRY_STATUS_ADDED: ... else: ...` to `df.checksum` or to the constant None.
    The entry order ([ADDED for data_files] + [EXISTING for existing_files]) is checked as well."""
    loop = None
    for node in ast.walk(fn):
        if isinstance(node, ast.For) and isinstance(node.target, ast.Tuple) and [getattr(e, "id", None) for e in node.target.elts] == ["df", "status"]:
            loop = node
    if loop is None:
        raise Unsupported("create_manifest_file: `for df, status in ...` loop not found")
    want_iter = ("BinOp(ListComp(Tuple([Name('f', Load()), Name('ENTRY_STATUS_ADDED', Load())], Load()), "
                 "[comprehension(Name('f', Store()), Name('data_files', Load()), [], 0)]), Add(), "
                 "ListComp(Tuple([Name('f', Load()), Name('ENTRY_STATUS_EXISTING', Load())], Load()), "
                 "[comprehension(Name('f', Store()), Name('existing_files', Load()), [], 0)]))")
    if dump(loop.iter) != want_iter:
        raise Unsupported(f"create_manifest_file: entry order changed: {dump(loop.iter)}")

    def is_df_checksum(n: ast.AST) -> bool:
        return dump(n) == "Attribute(Name('df', Load()), 'checksum', Load())"

    field = None
    for node in ast.walk(loop):
        if isinstance(node, ast.Dict):
            for k, v in zip(node.keys, node.values):
                if isinstance(k, ast.Constant) and k.value == "checksum":
                    field = v
    if field is None:
        raise Unsupported("create_manifest_file: no \"checksum\" field in the entry record")
    if is_df_checksum(field):
        return "c", "c"
    if not isinstance(field, ast.Name):
        raise Unsupported(f"create_manifest_file: checksum field is {dump(field)}")
    branch = None
    for st in loop.body:
        if (isinstance(st, ast.If) and dump(st.test) == "Compare(Name('status', Load()), [Eq()], [Name('ENTRY_STATUS_ADDED', Load())])"):
            branch = st
    if branch is None:
        raise Unsupported("create_manifest_file: `if status == ENTRY_STATUS_ADDED` not found")

    def value_in(body: List[ast.stmt]) -> str:
        val = None
        for st in body:
            tgt = st.targets[0] if isinstance(st, ast.Assign) and len(st.targets) == 1 else getattr(st, "target", None) if isinstance(st, ast.AnnAssign) else None
            if isinstance(tgt, ast.Name) and tgt.id == field.id:
                v = st.value
                if v is not None and is_df_checksum(v):
                    val = "c"
                elif isinstance(v, ast.Constant) and v.value is None:
                    val = "None"
                else:
                    raise Unsupported(f"create_manifest_file: {field.id} = {dump(v) if v is not None else '?'}")
        if val is None:
            raise Unsupported(f"create_manifest_file: {field.id} not assigned in a status branch")
        return val
    return value_in(branch.body), value_in(branch.orelse)


def batch_guard(fn: ast.FunctionDef) -> None:
    """Table._iter_file_batches: the rows read from a file are compared with the FILE-LEVEL count of its footer
    (`rows_read != pf.metadata.num_rows` -> raise).  Anything else fails closed."""
    want = "Compare(Name('rows_read', Load()), [NotEq()], [Attribute(Attribute(Name('pf', Load()), 'metadata', Load()), 'num_rows', Load())])"
    for node in ast.walk(fn):
        if isinstance(node, ast.If) and isinstance(node.test, ast.Compare) and dump(node.test.left) == "Name('rows_read', Load())":
            if dump(node.test) != want:
                raise Unsupported(f"_iter_file_batches: the row-count guard is {dump(node.test)}")
            if not (node.body and isinstance(node.body[-1], ast.Raise)):
                raise Unsupported("_iter_file_batches: the row-count guard does not raise")
            return
    raise Unsupported("_iter_file_batches: no row-count guard (rows_read != pf.metadata.num_rows)")


def coq_list(xs: List[str]) -> str:
    return "[" + "; ".join(coq_str(x) for x in xs) + "]"


@generator("GenRead.v")
def gen_read(src: str) -> str:
    got = collect(src)
    try:
        with open(GOLDEN) as f:
            golden = json.load(f)
    except FileNotFoundError:
        raise Unsupported("translator/gen_read_golden.json missing")
    for name in sorted(set(got) | set(golden)):
        if got.get(name) != golden.get(name):
            g, e = got.get(name, "<absent>"), golden.get(name, "<absent>")
            # first differing position, for the log
            i = next((j for j, (a, b) in enumerate(zip(g, e)) if a != b), min(len(g), len(e)))
            raise Unsupported(f"read path: {name} changed shape (golden AST mismatch at char {i}):\n"
                              f"  expected ...{e[max(0, i - 80):i + 160]}...\n  got      ...{g[max(0, i - 80):i + 160]}...")
    fm = parse_module(src, "file_manager.py")
    lst_classes, lst_raise = avro_fallback(find_function(fm, "read_manifest_list_file", "FileManager"))
    man_classes, man_raise = avro_fallback(find_function(fm, "read_manifest_file", "FileManager"))
    if lst_raise != man_raise:
        raise Unsupported(f"the two readers re-raise different classes: {lst_raise} vs {man_raise}")
    integ = parse_module(src, "integrity.py")
    algo = default_of(find_function(integ, "verify_checksum", "IntegrityChecker"), "algorithm")
    tx = parse_module(src, "transaction.py")
    vdef = verify_default(find_function(tx, "_resolve_verify_checksums", "Table"))
    ck_added, ck_existing = entry_checksum(find_function(fm, "create_manifest_file", "FileManager"))
    batch_guard(find_function(tx, "_iter_file_batches", "Table"))
    return f"""(* GENERATED by translator/gen_read.py from src/datashard/{{file_manager,integrity,transaction}}.py -- do not edit *)
From Coq Require Import NArith List String.
Import ListNotations.
Open Scope string_scope.

(* `except (...)` after the Avro attempt: these classes (and subclasses) fall back to JSON *)
Definition list_fallback : list string := {coq_list(lst_classes)}.
Definition manifest_fallback : list string := {coq_list(man_classes)}.
(* raised when the JSON attempt fails as well *)
Definition json_reraises_as : string := {coq_str(lst_raise)}.
(* IntegrityChecker.verify_checksum(data, expected, algorithm=...) *)
Definition checksum_algorithm : string := {coq_str(str(algo))}.
(* Table._resolve_verify_checksums(None) with the environment variable unset *)
Definition verify_default_on : bool := {"true" if vdef else "false"}.
(* FileManager.create_manifest_file: the "checksum" field written for an entry whose DataFile carries checksum c;
   added = true for files this commit adds (status ADDED), false for files carried over by a manifest rewrite
   (status EXISTING).  Entries are written in the order [ADDED...] ++ [EXISTING...]. *)
Definition gen_entry_checksum (added : bool) (c : option N) : option N :=
  if added then {ck_added} else {ck_existing}.
(* Table._iter_file_batches raises unless the rows it read from a file number exactly the footer's FILE-LEVEL
   num_rows (checked on the source: `rows_read != pf.metadata.num_rows`) *)
Definition batch_guard_is_file_level_count : bool := true.
(* number of read-path functions whose normalised AST equals the golden copy *)
Definition pinned_functions : nat := {len(PINNED)}.
"""


if __name__ == "__main__":
    if len(sys.argv) == 3 and sys.argv[1] == "--update":
        data = collect(sys.argv[2])
        with open(GOLDEN, "w") as f:
            json.dump(data, f, indent=1, sort_keys=True)
        print(f"wrote {GOLDEN}: {len(data)} functions")
    else:
        print(__doc__)
