"""Shared helpers for the fail-closed Python->Gallina translator (see py2coq.py)."""
from __future__ import annotations

import ast
import os
from typing import Callable, Dict, List


class Unsupported(Exception):
    pass


def parse_module(src_dir: str, name: str) -> ast.Module:
    path = os.path.join(src_dir, name)
    with open(path, "r", encoding="utf-8") as f:
        return ast.parse(f.read(), filename=path)


def find_function(mod: ast.AST, name: str, cls: str | None = None) -> ast.FunctionDef:
    scope = mod
    if cls is not None:
        for node in ast.walk(mod):
            if isinstance(node, ast.ClassDef) and node.name == cls:
                scope = node
                break
        else:
            raise Unsupported(f"class {cls} not found")
    for node in ast.iter_child_nodes(scope):
        if isinstance(node, ast.FunctionDef) and node.name == name:
            return node
    # nested search (function inside function)
    for node in ast.walk(scope):
        if isinstance(node, ast.FunctionDef) and node.name == name:
            return node
    raise Unsupported(f"function {name} not found")


def strip_docstring(body: List[ast.stmt]) -> List[ast.stmt]:
    if body and isinstance(body[0], ast.Expr) and isinstance(body[0].value, ast.Constant) and isinstance(body[0].value.value, str):
        return body[1:]
    return body


def dump(node: ast.AST | List[ast.AST]) -> str:
    if isinstance(node, list):
        return "[" + ", ".join(dump(n) for n in node) + "]"
    return ast.dump(node, annotate_fields=False)


def expect_dump(node, expected: str, what: str) -> None:
    got = dump(node)
    if got != expected:
        raise Unsupported(f"{what}: source shape changed.\n  expected: {expected}\n  got:      {got}")


def coq_str(s: str) -> str:
    if any(ord(c) < 32 or ord(c) > 126 or c == '"' for c in s):
        raise Unsupported(f"string literal not printable ASCII: {s!r}")
    return '"' + s + '"'


GENERATORS: Dict[str, Callable[[str], str]] = {}


def generator(filename: str):
    def deco(fn):
        GENERATORS[filename] = fn
        return fn
    return deco


