"""GenFieldKey.v -- what Schema.__post_init__ demands of a field id, read off the source (C13).

    data_structures.Schema.__post_init__
      gen_id_rejected f_id seen_ids      the disjunction, in source order, of the tests of the `if <test>: raise ...` guards of
                                         the field loop that look at the field's id (`f_id = field_def["id"]`):
                                         type tests (isinstance / type(...) is) and the duplicate test `f_id in seen_ids`

over Model/Value.v values (a field id is whatever Python object the caller's dict carries: None, bool, int, float, str),
Model/BoundPrim.v's isinstance tests and Model/FieldKey.v's py_set_mem.  The loop around it (every field in list order, the
id added to seen_ids after the guards) is Model/SchemaIds.v, pinned here.

Field ids are the KEYS of every DataFile's statistics maps; create_manifest_file stores them as str(id) and
read_manifest_file reads int(key) (pinned in gen_manifest13.py / gen_entrycodec.py).  Proofs/SchemaIdsProofs.v proves from
THIS definition that an accepted schema's ids are pairwise different ints -- the hypothesis under which the key trip is the
identity (Proofs/FieldKeyProofs.v).  A constructor that only tests `f_id in seen_ids` yields a gen_id_rejected for which that
proof fails: ids 1 and "1" are accepted and meet under str().

Fail closed: any other statement of the loop that reads f_id, a guard test outside the small vocabulary, an id that is
re-bound, a loop that skips fields.
"""
from __future__ import annotations

import ast
from typing import List

from core import Unsupported, dump, find_function, generator, parse_module


def _u(n: ast.AST) -> str:
    return ast.unparse(n)


TYPE_TEST = {"int": "inst_int", "bool": "inst_bool", "str": "inst_str", "float": "inst_float"}
EXACT_TYPE = {"int": "is_int_id", "bool": "is_bool", "float": "is_float"}


def _is_fid(n: ast.AST) -> bool:
    return isinstance(n, ast.Name) and n.id == "f_id"


def test_to_coq(n: ast.AST) -> str:
    """A guard's test -> Gallina bool over `f_id : value` and `seen_ids : list value`."""
    if isinstance(n, ast.BoolOp):
        op = "||" if isinstance(n.op, ast.Or) else "&&"
        return "(" + f" {op} ".join(test_to_coq(v) for v in n.values) + ")"
    if isinstance(n, ast.UnaryOp) and isinstance(n.op, ast.Not):
        return f"(negb {test_to_coq(n.operand)})"
    if isinstance(n, ast.Call) and isinstance(n.func, ast.Name) and n.func.id == "isinstance" and len(n.args) == 2 and not n.keywords \
            and _is_fid(n.args[0]):
        t = n.args[1]
        ts = list(t.elts) if isinstance(t, ast.Tuple) else [t]
        if not ts or not all(isinstance(x, ast.Name) and x.id in TYPE_TEST for x in ts):
            raise Unsupported(f"Schema.__post_init__: isinstance against {_u(t)}")
        return "(" + " || ".join(f"{TYPE_TEST[x.id]} f_id" for x in ts) + ")"
    if isinstance(n, ast.Compare) and len(n.ops) == 1:
        l, op, r = n.left, n.ops[0], n.comparators[0]
        if _is_fid(l) and isinstance(op, (ast.In, ast.NotIn)) and isinstance(r, ast.Name) and r.id == "seen_ids":
            e = "(py_set_mem f_id seen_ids)"
            return e if isinstance(op, ast.In) else f"(negb {e})"
        if isinstance(l, ast.Call) and isinstance(l.func, ast.Name) and l.func.id == "type" and len(l.args) == 1 and not l.keywords \
                and _is_fid(l.args[0]) and isinstance(r, ast.Name) and r.id in EXACT_TYPE \
                and isinstance(op, (ast.Is, ast.IsNot, ast.Eq, ast.NotEq)):
            e = f"({EXACT_TYPE[r.id]} f_id)"
            return e if isinstance(op, (ast.Is, ast.Eq)) else f"(negb {e})"
    raise Unsupported(f"Schema.__post_init__: a guard on the field id outside the vocabulary: {_u(n)}")


def id_guards(src: str) -> List[str]:
    mod = parse_module(src, "data_structures.py")
    fn = find_function(mod, "__post_init__", cls="Schema")
    loops = [s for s in fn.body if isinstance(s, ast.For)]
    if len(loops) != 1 or _u(loops[0].target) != "field_def" or _u(loops[0].iter) != "self.fields" or loops[0].orelse:
        raise Unsupported("Schema.__post_init__: expected exactly one `for field_def in self.fields` loop")
    loop = loops[0]
    li = fn.body.index(loop)
    pre = [_u(s) for s in fn.body[:li]]
    if not any(p in ("seen_ids: set[int] = set()", "seen_ids = set()", "seen_ids: Set[int] = set()") for p in pre):
        raise Unsupported("Schema.__post_init__: `seen_ids = set()` not found before the field loop")
    for s in ast.walk(loop):
        if isinstance(s, (ast.Continue, ast.Break, ast.Return)):
            raise Unsupported("Schema.__post_init__: the field loop skips / leaves early")
    body = loop.body
    binds = [s for s in body if isinstance(s, ast.Assign) and len(s.targets) == 1 and _is_fid(s.targets[0])]
    stores = [x for x in ast.walk(fn) if isinstance(x, ast.Name) and x.id == "f_id" and isinstance(x.ctx, ast.Store)]
    if len(binds) != 1 or len(stores) != 1 or _u(binds[0].value) != "field_def['id']":
        raise Unsupported("Schema.__post_init__: `f_id = field_def['id']` is not the one binding of f_id")
    bi = body.index(binds[0])
    adds = [s for s in body if _u(s) == "seen_ids.add(f_id)"]
    if len(adds) != 1:
        raise Unsupported("Schema.__post_init__: `seen_ids.add(f_id)` not found exactly once in the field loop")
    ai = body.index(adds[0])
    seen_uses = [x for x in ast.walk(fn) if isinstance(x, ast.Name) and x.id == "seen_ids"]
    guards: List[str] = []
    allowed: List[ast.AST] = list(ast.walk(adds[0]))
    for i, s in enumerate(body):
        reads = [x for x in ast.walk(s.test if isinstance(s, ast.If) else s) if _is_fid(x) and isinstance(x.ctx, ast.Load)]
        if s is binds[0] or s is adds[0]:
            continue
        if isinstance(s, ast.If) and reads:
            if s.orelse or len(s.body) != 1 or not isinstance(s.body[0], ast.Raise):
                raise Unsupported(f"Schema.__post_init__: a test on the field id that does not raise: {_u(s)[:120]}")
            if not (bi < i < ai):
                raise Unsupported("Schema.__post_init__: a guard on the field id outside `f_id = ...` .. `seen_ids.add(f_id)`")
            guards.append(test_to_coq(s.test))
            allowed += list(ast.walk(s))
        elif isinstance(s, ast.If):
            # a guard on something else (name, type ...): it may mention f_id in its message only
            if any(_is_fid(x) for x in ast.walk(s.test)):
                raise Unsupported(f"Schema.__post_init__: {_u(s.test)}")
            allowed += [x for r in ast.walk(s) if isinstance(r, ast.Raise) for x in ast.walk(r)]
    for x in ast.walk(loop):
        if _is_fid(x) and isinstance(x.ctx, ast.Load) and not any(x is a for a in allowed):
            raise Unsupported("Schema.__post_init__: the field id is used outside its guards, error messages and seen_ids.add(f_id)")
    # seen_ids: the initialisation, the add, and the guards' tests -- nothing else (no removal, no reset)
    in_guards = sum(1 for g in guards for _ in [0] if "py_set_mem" in g)
    if len(seen_uses) != 2 + in_guards:
        raise Unsupported("Schema.__post_init__: seen_ids is used outside its initialisation, the duplicate test and the add")
    return guards


@generator("GenFieldKey.v")
def gen_fieldkey(src: str) -> str:
    guards = id_guards(src)
    body = " || ".join(guards) if guards else "false"
    return f"""(* GENERATED by translator/gen_fieldkey.py from src/datashard/data_structures.py::Schema.__post_init__ -- do not edit *)
From Coq Require Import ZArith List Bool.
Require Import DS.Model.Value DS.Model.BoundPrim DS.Model.FieldKey.
Import ListNotations.
Open Scope Z_scope.

(* the guards of the field loop that look at the field's id, in source order: true = the constructor raises ValueError *)
Definition gen_id_rejected (f_id : value) (seen_ids : list value) : bool :=
  {body}.
Definition gen_id_guard_count : nat := {len(guards)}.
"""


if __name__ == "__main__":
    import sys
    print(gen_fieldkey(sys.argv[1]))
