"""Python <-> Coq term I/O used by the correspondence harness.

to_coq(obj)      : render a Python value as a Gallina term
parse_coq(text)  : parse the term printed by `Eval vm_compute in ...` back into Python

Conventions
  int            -> (n)%Z                      Z
  N(n)           -> (n)%N                      N
  Nat(n)         -> (n)%nat                    nat
  bool           -> true / false
  str            -> "..."%string  (only printable ASCII; others via Str(codes))
  list           -> [a; b; c]
  tuple          -> (a, b, c)
  None           -> None ;  Some(x) -> (Some x)
  C("Ctor", a, b)-> (Ctor a b)
  Raw("text")    -> text verbatim
"""
from __future__ import annotations

import re
from dataclasses import dataclass
from typing import Any, List


@dataclass(frozen=True)
class N:
    n: int


@dataclass(frozen=True)
class Nat:
    n: int


@dataclass(frozen=True)
class Some:
    x: Any


@dataclass(frozen=True)
class Raw:
    text: str


class C:
    """Constructor application."""

    def __init__(self, name: str, *args: Any):
        self.name = name
        self.args = args

    def __repr__(self) -> str:
        return f"C({self.name!r}, {', '.join(map(repr, self.args))})"

    def __eq__(self, other: object) -> bool:
        return isinstance(other, C) and self.name == other.name and tuple(self.args) == tuple(other.args)

    def __hash__(self) -> int:
        return hash((self.name, tuple(map(_hashable, self.args))))


def _hashable(x: Any) -> Any:
    if isinstance(x, list):
        return tuple(_hashable(i) for i in x)
    if isinstance(x, tuple):
        return tuple(_hashable(i) for i in x)
    return x


def coq_string(s: str) -> str:
    """A Coq string literal for an arbitrary unicode string, as a list of bytes (UTF-8).

    Coq strings are byte strings; printable ASCII is emitted literally, the rest via
    String (Ascii.ascii_of_nat n) constructors.
    """
    bs = s.encode("utf-8") if isinstance(s, str) else bytes(s)
    if all(32 <= b < 127 and b != 34 for b in bs):
        return '"' + bs.decode("ascii") + '"%string'
    # mixed: build by concatenation
    parts: List[str] = []
    run = bytearray()
    for b in bs:
        if 32 <= b < 127 and b != 34:
            run.append(b)
        else:
            if run:
                parts.append('"' + run.decode("ascii") + '"%string')
                run = bytearray()
            parts.append(f"(String (Ascii.ascii_of_nat {b}) EmptyString)")
    if run:
        parts.append('"' + run.decode("ascii") + '"%string')
    out = parts[0]
    for p in parts[1:]:
        out = f"(String.append {out} {p})"
    return out


def to_coq(x: Any) -> str:
    if isinstance(x, Raw):
        return x.text
    if isinstance(x, bool):
        return "true" if x else "false"
    if isinstance(x, int):
        return f"({x})%Z"
    if isinstance(x, N):
        return f"({x.n})%N"
    if isinstance(x, Nat):
        return f"({x.n})%nat"
    if x is None:
        return "None"
    if isinstance(x, Some):
        return f"(Some {to_coq(x.x)})"
    if isinstance(x, (str, bytes)):
        return coq_string(x)
    if isinstance(x, list):
        return "[" + "; ".join(to_coq(i) for i in x) + "]"
    if isinstance(x, tuple):
        if len(x) == 0:
            return "tt"
        return "(" + ", ".join(to_coq(i) for i in x) + ")"
    if isinstance(x, C):
        if not x.args:
            return x.name
        return "(" + x.name + " " + " ".join(to_coq(a) for a in x.args) + ")"
    raise TypeError(f"to_coq: unsupported {type(x)}: {x!r}")


# ---------------------------------------------------------------------------
# Parser for printed terms
# ---------------------------------------------------------------------------

_TOKEN = re.compile(
    r"""\s*(?:
        (?P<str>"(?:[^"]|"")*")        |
        (?P<num>-?\d+)                   |
        (?P<id>[A-Za-z_][A-Za-z0-9_'.]*) |
        (?P<sym>[\[\]();,#]|%|::)
    )""",
    re.X,
)


def _tokenize(text: str) -> List[tuple]:
    toks = []
    pos = 0
    text = text.strip()
    while pos < len(text):
        m = _TOKEN.match(text, pos)
        if not m:
            raise ValueError(f"cannot tokenize Coq output at {text[pos:pos+40]!r}")
        pos = m.end()
        if m.group("str") is not None:
            toks.append(("str", m.group("str")[1:-1].replace('""', '"')))
        elif m.group("num") is not None:
            toks.append(("num", int(m.group("num"))))
        elif m.group("id") is not None:
            toks.append(("id", m.group("id")))
        else:
            toks.append(("sym", m.group("sym")))
    return toks


class _P:
    def __init__(self, toks: List[tuple]):
        self.t = toks
        self.i = 0

    def peek(self) -> tuple:
        return self.t[self.i] if self.i < len(self.t) else ("eof", None)

    def next(self) -> tuple:
        tok = self.peek()
        self.i += 1
        return tok

    def expect(self, sym: str) -> None:
        tok = self.next()
        if tok != ("sym", sym):
            raise ValueError(f"expected {sym!r}, got {tok!r} at {self.i}")

    def scope(self) -> None:
        # swallow %Z %N %nat %string %char ... suffixes
        while self.peek() == ("sym", "%"):
            self.next()
            self.next()

    def atom(self) -> Any:
        k, v = self.next()
        if k == "num":
            self.scope()
            return v
        if k == "str":
            self.scope()
            return v
        if k == "id":
            self.scope()
            if v == "true":
                return True
            if v == "false":
                return False
            if v == "None":
                return None
            if v == "tt":
                return ()
            return C(v)
        if (k, v) == ("sym", "["):
            items = []
            if self.peek() == ("sym", "]"):
                self.next()
                self.scope()
                return items
            while True:
                items.append(self.term())
                tok = self.next()
                if tok == ("sym", "]"):
                    break
                if tok != ("sym", ";"):
                    raise ValueError(f"bad list separator {tok!r}")
            self.scope()
            return items
        if (k, v) == ("sym", "("):
            first = self.term()
            if self.peek() == ("sym", "#"):
                self.next()
                den = self.atom()
                self.expect(")")
                self.scope()
                from fractions import Fraction
                return Fraction(first, den)
            if self.peek() == ("sym", ","):
                items = [first]
                while self.peek() == ("sym", ","):
                    self.next()
                    items.append(self.term())
                self.expect(")")
                self.scope()
                return tuple(items)
            self.expect(")")
            self.scope()
            return first
        raise ValueError(f"unexpected token {(k, v)!r}")

    def term(self) -> Any:
        head = self.atom()
        args = []
        while True:
            k, v = self.peek()
            if k in ("num", "str", "id") or (k, v) in (("sym", "("), ("sym", "[")):
                args.append(self.atom())
            else:
                break
        if args:
            if isinstance(head, C) and not head.args:
                if head.name == "Some" and len(args) == 1:
                    res: Any = Some(args[0])
                else:
                    res = C(head.name, *args)
            else:
                raise ValueError(f"application of non-constructor {head!r}")
        else:
            res = head
        if self.peek() == ("sym", "::"):
            self.next()
            tail = self.term()
            if not isinstance(tail, list):
                raise ValueError("cons onto non-list")
            return [res] + tail
        return res


def parse_coq(text: str) -> Any:
    """Parse `= term : type` or a bare term."""
    text = text.strip()
    if text.startswith("="):
        text = text[1:]
    # strip the trailing ': type' at top level
    depth = 0
    cut = None
    in_str = False
    for idx, ch in enumerate(text):
        if ch == '"':
            in_str = not in_str
        if in_str:
            continue
        if ch in "([":
            depth += 1
        elif ch in ")]":
            depth -= 1
        elif ch == ":" and depth == 0 and text[idx:idx + 2] != "::" and (idx == 0 or text[idx - 1] != ":"):
            cut = idx
            break
    if cut is not None:
        text = text[:cut]
    p = _P(_tokenize(text))
    res = p.term()
    if p.peek()[0] != "eof":
        raise ValueError(f"trailing tokens after term: {p.t[p.i:p.i+5]!r}")
    return res
