"""Minimal strongly consistent in-memory S3 client (boto3 surface used by DataShard) for the scheduler
harness: ETags, If-Match / If-None-Match, ranged GET, LastModified from a virtual clock, paginated
listing, and per-key request hooks (yield points / fault injection).

`make_s3_backend(client, prefix, conditional)` builds a real datashard S3StorageBackend over it without
touching the network.
"""
from __future__ import annotations

import datetime as _dt
import io
from typing import Any, Callable, Dict, List, Optional

from botocore.exceptions import ClientError


def _err(code: str, op: str, status: int = 400) -> ClientError:
    return ClientError({"Error": {"Code": code, "Message": code}, "ResponseMetadata": {"HTTPStatusCode": status}}, op)


class _Body:
    def __init__(self, data: bytes):
        self._b = io.BytesIO(data)

    def read(self, n: Optional[int] = None) -> bytes:
        return self._b.read() if n is None else self._b.read(n)

    def close(self) -> None:
        self._b.close()


class MemS3:
    def __init__(self, now_ms: Callable[[], int]):
        self.objects: Dict[str, Dict[str, Any]] = {}
        self.now_ms = now_ms
        self.etag_counter = 0
        self.hook: Optional[Callable[[str, str, Dict[str, Any]], None]] = None   # hook(op, key, kwargs) before the effect
        self.after_hook: Optional[Callable[[str, str], None]] = None             # after_hook(op, key) AFTER the effect: may raise
        #   (the request was applied, the response is lost: read timeout, connection reset, 5xx on the way back)
        self.requests: List[tuple] = []
        self.real_clock_ages = False
        # how a failed precondition of a conditional PUT is answered: "412" (PreconditionFailed), "409"
        # (ConditionalRequestConflict: what S3 answers when a conflicting write landed while the request was in flight),
        # or "alt" (alternating).  Both mean: the write did NOT happen.
        self.conflict_code = "412"
        self._conflicts = 0
        # every APPLIED put, in order: {"key", "replaced" (previous body or None), "body", "etag"} -- what the store itself
        # did, whatever the client was told about it (a lost response, a request landing after the client gave up)
        self.history: List[Dict[str, Any]] = []

    # ------------------------------------------------------------------ helpers
    def _call(self, op: str, key: str, kw: Dict[str, Any]) -> None:
        self.requests.append((op, key))
        if self.hook is not None:
            self.hook(op, key, kw)

    def _put(self, key: str, body: bytes) -> str:
        self.etag_counter += 1
        etag = f'"e{self.etag_counter}"'
        self.objects[key] = {"body": bytes(body), "etag": etag, "written_ms": self.now_ms(),
                             "lm": _dt.datetime.fromtimestamp(self.now_ms() / 1000.0, _dt.timezone.utc)}
        return etag

    def _lm(self, o: Dict[str, Any]) -> Any:
        """LastModified as seen by code that compares it with the REAL wall clock (the S3 lock's lease test reads
        datetime.now(timezone.utc)): the object's VIRTUAL age is presented as a real age."""
        if not self.real_clock_ages:
            return o["lm"]
        age_ms = self.now_ms() - o.get("written_ms", self.now_ms())
        return _dt.datetime.now(_dt.timezone.utc) - _dt.timedelta(milliseconds=age_ms)

    # ------------------------------------------------------------------ boto3 surface
    def get_object(self, Bucket: str, Key: str, Range: Optional[str] = None, **kw: Any) -> Dict[str, Any]:
        self._call("get_object", Key, {"Range": Range})
        o = self.objects.get(Key)
        if o is None:
            raise _err("NoSuchKey", "GetObject", 404)
        data = o["body"]
        if Range:
            first, last = Range.split("=")[1].split("-")
            data = data[int(first): int(last) + 1]
        return {"Body": _Body(data), "ETag": o["etag"], "LastModified": o["lm"], "ContentLength": len(data)}

    def head_object(self, Bucket: str, Key: str, **kw: Any) -> Dict[str, Any]:
        self._call("head_object", Key, {})
        o = self.objects.get(Key)
        if o is None:
            raise _err("404", "HeadObject", 404)
        return {"ETag": o["etag"], "LastModified": self._lm(o), "ContentLength": len(o["body"])}

    def put_object(self, Bucket: str, Key: str, Body: Any = b"", IfMatch: Optional[str] = None,
                   IfNoneMatch: Optional[str] = None, **kw: Any) -> Dict[str, Any]:
        if hasattr(Body, "read"):
            Body = Body.read()
        self._call("put_object", Key, {"IfMatch": IfMatch, "IfNoneMatch": IfNoneMatch, "Body": Body})
        return self.apply_put(Key, Body, IfMatch, IfNoneMatch)

    def apply_put(self, Key: str, Body: Any, IfMatch: Optional[str] = None, IfNoneMatch: Optional[str] = None) -> Dict[str, Any]:
        """The store's side of a PUT: evaluate the precondition and apply, atomically (also used for a request that lands
        after its client has given up on it)."""
        o = self.objects.get(Key)
        if (IfNoneMatch == "*" and o is not None) or (IfMatch is not None and (o is None or o["etag"] != IfMatch)):
            self._conflicts += 1
            use409 = self.conflict_code == "409" or (self.conflict_code == "alt" and self._conflicts % 2 == 1)
            if use409:
                raise _err("ConditionalRequestConflict", "PutObject", 409)
            raise _err("PreconditionFailed", "PutObject", 412)
        out = {"ETag": self._put(Key, Body)}
        self.history.append({"key": Key, "replaced": o["body"] if o is not None else None, "body": bytes(Body), "etag": out["ETag"]})
        if self.after_hook is not None:
            self.after_hook("put_object", Key)
        return out

    def delete_object(self, Bucket: str, Key: str, **kw: Any) -> Dict[str, Any]:
        self._call("delete_object", Key, {})
        self.objects.pop(Key, None)
        if self.after_hook is not None:
            self.after_hook("delete_object", Key)
        return {}

    SERVER_PAGE = 2         # the service never returns more keys than this per response (S3: 1000): small, to exercise paging

    def _list_page(self, Prefix: str, MaxKeys: int, token: Optional[str]) -> Dict[str, Any]:
        keys = sorted(k for k in self.objects if k.startswith(Prefix))
        if token is not None:
            keys = [k for k in keys if k > token]
        limit = max(0, min(MaxKeys, self.SERVER_PAGE))
        page, rest = keys[:limit], keys[limit:]
        if not page:
            return {"KeyCount": 0, "IsTruncated": False}
        out: Dict[str, Any] = {"Contents": [{"Key": k, "Size": len(self.objects[k]["body"]), "LastModified": self.objects[k]["lm"]} for k in page],
                               "KeyCount": len(page), "IsTruncated": bool(rest)}
        if rest:
            out["NextContinuationToken"] = page[-1]
        return out

    def list_objects_v2(self, Bucket: str, Prefix: str = "", MaxKeys: int = 1000, ContinuationToken: Optional[str] = None,
                        **kw: Any) -> Dict[str, Any]:
        self._call("list_objects_v2", Prefix, {})
        return self._list_page(Prefix, MaxKeys, ContinuationToken)

    def get_paginator(self, name: str) -> Any:
        outer = self

        class _P:
            def paginate(self, Bucket: str, Prefix: str = "", **kw: Any):
                # one scheduling point per listing (as before); the pages are taken from ONE consistent view, each
                # capped by the server-side page size, following the continuation token like botocore's paginator
                # PaginationConfig as botocore's paginator understands it: PageSize = keys asked per request, MaxItems = cap
                # on the TOTAL number of keys handed out over all pages (the last page is cut short, nothing follows it)
                outer._call("list_objects_v2", Prefix, {})
                cfg = kw.get("PaginationConfig") or {}
                max_items, page_size = cfg.get("MaxItems"), int(cfg.get("PageSize") or 1000)
                handed = 0
                token = None
                while True:
                    resp = outer._list_page(Prefix, page_size, token)
                    if max_items is not None and "Contents" in resp and handed + len(resp["Contents"]) >= int(max_items):
                        resp = dict(resp, Contents=resp["Contents"][: max(0, int(max_items) - handed)])
                        resp["KeyCount"] = len(resp["Contents"])
                        yield resp
                        return
                    handed += len(resp.get("Contents", []))
                    yield resp
                    if not resp.get("IsTruncated"):
                        return
                    token = resp["NextContinuationToken"]
        return _P()


def make_s3_backend(client: MemS3, prefix: str = "tbl", conditional: bool = True) -> Any:
    from datashard.storage_backend import S3StorageBackend
    b = S3StorageBackend.__new__(S3StorageBackend)
    b.bucket = "bkt"
    b.prefix = prefix.rstrip("/")
    b.endpoint_url = None
    b.access_key = None
    b.secret_key = None
    b.region = "us-east-1"
    b.use_conditional_writes = conditional
    b.s3 = client
    return b
