"""Data sizes as a dimension of C16's durability traces.

A writer whose durability calls depend on HOW MUCH was written (flush every c rows / bytes / batches, skip the last
flush when a counter sits on a boundary, ...) behaves identically on the 0..40-row appends of the basic scenarios.  The
boundaries such logic can have are the integer literals of the writer modules, so they are harvested from the source
(ast walk, nothing hard-coded) and every public write path is run with row counts k*c - 1, k*c, k*c + 1:

    harvest_constants(repo)      {c: ["data_operations.py:708", ...]} for every int literal c >= 2 of WRITER_MODULES
    size_points(consts, cap, kmax)  [{"c", "k", "d", "n"}]: n = k*c + d rows, d in (-1, 0, 1), 0 < n <= cap
    sized_scenarios(...)         scenario step lists for harness/lib/c16_driver.py

Write paths (c16_driver step kinds): "append_records" (Table.append_records), "append" (Transaction.append_data in an
explicit transaction), "append_pandas" (Table.append_pandas -> write_pandas_file: one write_batch of n rows; skipped
when pandas is not installed), "append_prebuilt" (the public DataFileWriter driven directly with chosen batch sizes --
one batch of n rows is what write_pandas_file does --, adopted with Transaction.append_files).
"""
from __future__ import annotations

import ast
import os
from typing import Any, Dict, List, Tuple

WRITER_MODULES = ("data_operations.py", "file_manager.py")
BIG = 20_000          # sizes from here on get a scenario of their own (trace memory, run time)


def harvest_constants(repo: str) -> Dict[int, List[str]]:
    out: Dict[int, List[str]] = {}
    for mod in WRITER_MODULES:
        path = os.path.join(repo, "src", "datashard", mod)
        with open(path, encoding="utf-8") as f:
            tree = ast.parse(f.read())
        for n in ast.walk(tree):
            if isinstance(n, ast.Constant) and type(n.value) is int and n.value >= 2:
                out.setdefault(n.value, []).append(f"{mod}:{n.lineno}")
    return dict(sorted(out.items()))


def size_points(consts: List[int], cap: int, kmax: int) -> List[Dict[str, int]]:
    pts, seen = [], set()
    for c in consts:
        for k in range(1, kmax + 1):
            for d in (0, -1, 1):
                n = k * c + d
                if 0 < n <= cap and n not in seen:
                    seen.add(n)
                    pts.append({"c": c, "k": k, "d": d, "n": n})
    return pts


def have_pandas() -> bool:
    try:
        import pandas  # noqa: F401
        return True
    except ImportError:
        return False


def sized_scenarios(consts: List[int], cap: int, kmax: int, every_path: bool) -> Tuple[List[List[Any]], List[List[Any]], Dict[str, Any]]:
    """(modelled scenarios, oracle-only scenarios, stats).  Modelled = the write paths whose OS-call trace the Coq model
    describes (append_records / append / append_pandas: marker, then data file); oracle-only = append_prebuilt (the file
    is adopted, its marker comes after it: outside Durable.trace_of, judged by the power-loss oracle alone).
    Exact multiples k*c go through EVERY path; the neighbours k*c -+ 1 through every path when `every_path`, otherwise
    through one path each (rotating)."""
    paths = ["append_records", "append"] + (["append_pandas"] if have_pandas() else [])
    pts = size_points(consts, cap, kmax)
    modelled: List[List[Any]] = []
    oracle_only: List[List[Any]] = []
    small: Dict[int, List[Any]] = {}
    small_pre: Dict[int, List[Any]] = {}
    rot = 0
    for p in pts:
        n = p["n"]
        exact = p["d"] == 0
        if exact or every_path:
            mine = list(paths)
        else:
            mine = [paths[rot % len(paths)]]
            rot += 1
        # batch shapes for the caller-driven writer: one batch of n rows; for an exact multiple also k batches of c rows
        shapes = [[n]] + ([[p["c"]] * p["k"]] if exact and p["k"] > 1 else [])
        if not exact and not every_path:
            shapes = shapes if rot % 2 else []
        if n >= BIG:
            modelled += [[["create"], [path, n]] for path in mine]
            oracle_only += [[["create"], ["append_prebuilt", sh]] for sh in shapes]
        else:
            small.setdefault(p["c"], [["create"]]).extend([path, n] for path in mine)
            small_pre.setdefault(p["c"], [["create"]]).extend(["append_prebuilt", sh] for sh in shapes)
    modelled += [s for s in small.values() if len(s) > 1]
    oracle_only += [s for s in small_pre.values() if len(s) > 1]
    skipped = [c for c in consts if c > cap]
    stats = {"constants": consts, "row_cap": cap, "kmax": kmax, "constants_above_cap": skipped,
             "size_points": len(pts), "largest_rows": max([p["n"] for p in pts], default=0),
             "paths": paths + ["append_prebuilt"], "pandas": have_pandas(),
             "modelled_scenarios": len(modelled), "oracle_only_scenarios": len(oracle_only)}
    return modelled, oracle_only, stats


def unsynced_tails(raw: List[Dict[str, Any]]) -> List[Dict[str, Any]]:
    """The durable-prefix rule read directly off a raw OS-call trace, independent of the power-loss evaluator: when a
    file is renamed, an fsync of it must lie between the LAST write it received and the rename.  Returns one record per
    rename that breaks it (bytes written after the last fsync, or no fsync at all)."""
    last_write: Dict[str, int] = {}
    last_fsync: Dict[str, int] = {}
    written: Dict[str, int] = {}
    synced: Dict[str, int] = {}
    bad: List[Dict[str, Any]] = []
    for k, ev in enumerate(raw):
        op, p = ev["op"], ev.get("path")
        if op in ("write", "pwrite") and len(ev["data"]) > 0:
            last_write[p] = k
            written[p] = written.get(p, 0) + len(ev["data"])
        elif op == "fsync" and not ev.get("isdir"):
            last_fsync[p] = k
            synced[p] = written.get(p, 0)
        elif op == "rename":
            if p in last_write and last_fsync.get(p, -1) < last_write[p]:
                bad.append({"rename_index": k, "from": p, "to": ev["path2"], "bytes_written": written.get(p, 0),
                            "bytes_synced": synced.get(p, 0), "last_write_index": last_write[p],
                            "last_fsync_index": last_fsync.get(p)})
            for dct in (last_write, last_fsync, written, synced):
                if p in dct:
                    dct[ev["path2"]] = dct.pop(p)
        elif op == "unlink":
            for dct in (last_write, last_fsync, written, synced):
                dct.pop(p, None)
    return bad
