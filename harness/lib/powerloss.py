"""Power-loss evaluator and independent durable-tree reader (oracle of C16).

Independent of coq/Model/Durable.v and of `datashard`: works on the RAW observed trace
(harness/lib/ostrace.py), keeps a volatile and a durable tree over inodes, and judges a durable tree
by reading it the way a fresh process would: pointer bytes -> metadata JSON (json) -> manifest
lists and manifests (fastavro) -> parquet files (pyarrow).

  PLFS                 the evaluator: apply(raw event); background persistence of one entry / one
                       inode's content; snapshot of the durable tree
  Reader               parse + validity of file bytes by kind, cached by content hash
  judge_tree(...)      the property: a surviving pointer never references a missing / empty /
                       partially written file
  sweep(...)           every prefix of a raw trace x a set of power-loss outcomes
"""
from __future__ import annotations

import hashlib
import io
import json
import os
import re
from typing import Any, Callable, Dict, Iterable, List, Optional, Tuple

POINTER = "metadata.version-hint.text"


# ------------------------------------------------------------------------------------------------
class PLFS:
    def __init__(self, root: str):
        self.root = os.path.realpath(root)
        self.vol_e: Dict[str, int] = {}
        self.dur_e: Dict[str, int] = {}
        self.vol_d: Dict[int, bytes] = {}
        self.dur_d: Dict[int, bytes] = {}
        self.nxt = 0
        self.problems: List[str] = []
        self.n = 0                                  # raw events applied so far
        self.hist: List[Tuple[int, str, Optional[int]]] = []   # (index of the raw event, name, inode it had BEFORE)

    def _set(self, q: str, i: Optional[int]) -> None:
        self.hist.append((self.n - 1, q, self.vol_e.get(q)))
        if i is None:
            self.vol_e.pop(q, None)
        else:
            self.vol_e[q] = i

    def entries_as_of(self, k: int) -> Dict[str, int]:
        """the visible entries after the first k raw events (k <= events applied)"""
        e = dict(self.vol_e)
        for idx, q, old in reversed(self.hist):
            if idx < k:
                break
            if old is None:
                e.pop(q, None)
            else:
                e[q] = old
        return e

    def rel(self, p: str) -> str:
        return os.path.relpath(p, self.root) if p != self.root else ""

    def apply(self, ev: Dict[str, Any]) -> None:
        op = ev["op"]
        self.n += 1
        if op in ("mark", "mkdir"):
            return
        p = self.rel(ev["path"]) if ev.get("path", "").startswith(self.root) else ev.get("path")
        if op == "open":
            fl = ev["flags"]
            if "O_CREAT" in fl and p not in self.vol_e:
                self._set(p, self.nxt)
                self.vol_d[self.nxt] = b""
                self.dur_d[self.nxt] = b""
                self.nxt += 1
            elif "O_TRUNC" in fl and p in self.vol_e:
                self.vol_d[self.vol_e[p]] = b""        # truncation reaches the disk only with the next flush
        elif op == "write":
            if p in self.vol_e:
                self.vol_d[self.vol_e[p]] += ev["data"]
            else:
                self.problems.append(f"write to unknown file {p}")
        elif op == "pwrite":
            if p in self.vol_e:
                i = self.vol_e[p]
                cur = self.vol_d[i]
                off = ev["offset"]
                cur = cur.ljust(off, b"\0")
                self.vol_d[i] = cur[:off] + ev["data"] + cur[off + len(ev["data"]):]
            else:
                self.problems.append(f"pwrite to unknown file {p}")
        elif op == "fsync":
            if ev.get("isdir"):
                d = p
                # a directory fsync persists the entries the directory had when the call was ISSUED; in a
                # multi-threaded trace other threads' renames may lie between its issue (raw index issued_at) and
                # its return (this event): they are NOT covered by it
                k = ev.get("issued_at")
                if k is None or k >= self.n - 1:
                    for q in list(self.dur_e):
                        if os.path.dirname(q) == d and q not in self.vol_e:
                            del self.dur_e[q]
                    for q, i in self.vol_e.items():
                        if os.path.dirname(q) == d:
                            self.dur_e[q] = i
                else:
                    then = self.entries_as_of(k)
                    later = {q for idx, q, _ in self.hist if idx >= k}
                    for q in {q for q in list(self.dur_e) + list(then) + list(self.vol_e) if os.path.dirname(q) == d}:
                        if q in later and self.dur_e.get(q) == self.vol_e.get(q):
                            continue          # a change made after the issue is durable already (somebody else's fsync)
                        i = then.get(q) if q in later else self.vol_e.get(q)
                        if i is None:
                            self.dur_e.pop(q, None)
                        else:
                            self.dur_e[q] = i
            elif p in self.vol_e:
                i = self.vol_e[p]
                self.dur_d[i] = self.vol_d[i]
        elif op == "rename":
            q = self.rel(ev["path2"])
            if p in self.vol_e:
                i = self.vol_e[p]
                self._set(p, None)
                self._set(q, i)
            else:
                self.problems.append(f"rename of unknown file {p}")
        elif op == "unlink":
            self._set(p, None)
        else:
            self.problems.append(f"unexpected call {ev.get('call')} on {p}")

    # background persistence
    def bg_entry(self, p: str) -> None:
        if p in self.vol_e:
            self.dur_e[p] = self.vol_e[p]
        else:
            self.dur_e.pop(p, None)

    def bg_data(self, i: int, nbytes: Optional[int] = None) -> None:
        v = self.vol_d.get(i, b"")
        cur = self.dur_d.get(i, b"")
        k = len(v) if nbytes is None else nbytes
        if k >= len(cur):
            self.dur_d[i] = v[:k]

    def durable(self) -> Tuple[Dict[str, int], Dict[int, bytes]]:
        return dict(self.dur_e), dict(self.dur_d)

    def volatile_content(self, p: str) -> Optional[bytes]:
        i = self.vol_e.get(p)
        return None if i is None else self.vol_d[i]


# ------------------------------------------------------------------------------------------------
def kind_of(rel: str) -> str:
    base = os.path.basename(rel)
    d = os.path.dirname(rel)
    if rel == POINTER:
        return "pointer"
    if d == "metadata" and re.match(r"^v\d+-?.*\.metadata\.json$", base):
        return "metadata"
    if d == "metadata/manifests" and base.startswith("manifest_list_"):
        return "list"
    if d == "metadata/manifests" and base.startswith("manifest_"):
        return "manifest"
    if d == "data":
        return "data"
    if d == "metadata/inflight" or d.startswith("metadata/inflight/"):
        return "marker"
    return "unknown"


class Reader:
    """Reads file bytes the way a fresh process would.  parse(kind, bytes) -> (ok, refs, detail)."""

    def __init__(self) -> None:
        self.cache: Dict[Tuple[str, str], Tuple[bool, List[str], str]] = {}
        self.parses = 0

    def parse(self, kind: str, b: bytes) -> Tuple[bool, List[str], str]:
        key = (kind, hashlib.sha1(b).hexdigest())
        hit = self.cache.get(key)
        if hit is None:
            self.parses += 1
            hit = self._parse(kind, b)
            self.cache[key] = hit
        return hit

    def _parse(self, kind: str, b: bytes) -> Tuple[bool, List[str], str]:
        if len(b) == 0 and kind != "unknown":
            return False, [], "empty file"
        try:
            if kind == "pointer":
                name = b.decode("utf-8").strip()
                if not re.match(r"^v\d+.*\.metadata\.json$", name):
                    return False, [], f"pointer content {name!r} is not a metadata file name"
                return True, ["metadata/" + name], ""
            if kind == "metadata":
                d = json.loads(b.decode("utf-8"))
                refs = [s["manifest_list"].lstrip("/") for s in d["snapshots"]]
                _ = d["current_snapshot_id"], d["table_uuid"]
                return True, refs, ""
            if kind in ("list", "manifest"):
                import fastavro
                recs = list(fastavro.reader(io.BytesIO(b)))
                if kind == "list":
                    return True, [r["manifest_path"].lstrip("/") for r in recs], ""
                return True, [r["data_file"]["file_path"].lstrip("/") for r in recs], ""
            if kind == "data":
                import pyarrow.parquet as pq
                t = pq.read_table(io.BytesIO(b))
                return True, [], f"rows={t.num_rows}"
            if kind == "marker":
                json.loads(b.decode("utf-8"))
                return True, [], ""
            return True, [], "unknown kind"
        except Exception as e:  # truncated / garbage
            return False, [], f"{type(e).__name__}: {str(e)[:120]}"


def judge_tree(reader: Reader, dur_e: Dict[str, int], dur_d: Dict[int, bytes],
               live: Callable[[str], Optional[bytes]]) -> List[Dict[str, Any]]:
    """The property on one durable tree.  `live(path)` = the content running processes saw under that
    name at the crash instant (None when the name is not visible); a durable file that is reachable
    from the durable pointer must exist, parse, and -- when the name is visible -- equal it."""
    out: List[Dict[str, Any]] = []
    if POINTER not in dur_e:
        return out
    seen = set()
    stack = [(POINTER, "pointer")]
    while stack:
        p, via = stack.pop()
        if p in seen:
            continue
        seen.add(p)
        if p not in dur_e:
            out.append({"file": p, "problem": "missing", "referenced_by": via})
            continue
        b = dur_d.get(dur_e[p], b"")
        kind = kind_of(p)
        ok, refs, detail = reader.parse(kind, b)
        if not ok:
            out.append({"file": p, "problem": "empty" if len(b) == 0 else "partial-or-corrupt", "detail": detail,
                        "durable_bytes": len(b), "referenced_by": via})
            continue
        lv = live(p)
        if p != POINTER and lv is not None and lv != b:
            out.append({"file": p, "problem": "partial (differs from the live file)", "durable_bytes": len(b),
                        "live_bytes": len(lv), "referenced_by": via})
            continue
        for r in refs:
            stack.append((r, p))
    return out


# ------------------------------------------------------------------------------------------------
OUTCOMES = ["drop_all", "entries_early", "entries_early_root_only", "data_only"]


def outcome_tree(fs: PLFS, outcome: str) -> Tuple[Dict[str, int], Dict[int, bytes]]:
    e, d = fs.durable()
    if outcome == "drop_all":
        return e, d
    if outcome == "entries_early":            # every rename / create / unlink reached the disk, no unsynced data did
        return dict(fs.vol_e), d
    if outcome == "entries_early_root_only":  # only the root directory (the pointer's rename) was written back
        for q in list(e):
            if os.path.dirname(q) == "" and q not in fs.vol_e:
                del e[q]
        for q, i in fs.vol_e.items():
            if os.path.dirname(q) == "":
                e[q] = i
        return e, d
    if outcome == "data_only":                # all data written back, no directory entry
        return e, dict(fs.vol_d)
    raise ValueError(outcome)


def sweep(raw: List[Dict[str, Any]], root: str, reader: Reader, outcomes: Iterable[str] = OUTCOMES,
          schedule: Optional[Dict[int, List[Any]]] = None, on_prefix: Optional[Callable[[int, PLFS], None]] = None
          ) -> Tuple[List[Dict[str, Any]], int]:
    """Evaluate every prefix of `raw` (prefix n = the first n events were issued) under each outcome.
    `schedule` maps a prefix length to background events [("entry", path) | ("data", inode, nbytes|None)]
    applied right after that prefix.  Returns (violations, evaluations)."""
    fs = PLFS(root)
    viol: List[Dict[str, Any]] = []
    evals = 0
    outcomes = list(outcomes)
    for n in range(len(raw) + 1):
        if n > 0:
            fs.apply(raw[n - 1])
        for b in (schedule or {}).get(n, []):
            if b[0] == "entry":
                fs.bg_entry(b[1])
            else:
                fs.bg_data(b[1], b[2])
        if on_prefix is not None:
            on_prefix(n, fs)
        if n > 0 and raw[n - 1]["op"] in ("mark",):
            continue
        for oc in outcomes:
            e, d = outcome_tree(fs, oc)
            evals += 1
            bad = judge_tree(reader, e, d, fs.volatile_content)
            if bad:
                viol.append({"prefix": n, "outcome": oc, "last_call": _describe(raw[n - 1], fs.root) if n else None,
                             "problems": bad[:4]})
    for pr in fs.problems:
        viol.append({"prefix": None, "outcome": "evaluator", "problems": [{"problem": pr}]})
    return viol, evals


def _describe(ev: Dict[str, Any], root: str) -> str:
    def r(p: Optional[str]) -> str:
        return os.path.relpath(p, root) if p and p.startswith(root) else str(p)
    op = ev["op"]
    if op == "rename":
        return f"rename {r(ev['path'])} -> {r(ev['path2'])}" + (f" [thread {ev['tid']}]" if "tid" in ev else "")
    if op in ("write", "pwrite"):
        return f"{op} {r(ev['path'])} ({len(ev['data'])} bytes)"
    if op == "fsync":
        return (f"fsync{'(dir)' if ev.get('isdir') else ''} {r(ev['path'])}"
                + (f" [issued before raw call #{ev['issued_at'] + 1}, returned here]" if ev.get("issued_at") is not None else "")
                + (f" [thread {ev['tid']}]" if "tid" in ev else ""))
    if op == "mark":
        return f"mark {ev['label']}"
    return f"{op} {r(ev.get('path'))}"


def describe_trace(raw: List[Dict[str, Any]], root: str) -> List[str]:
    root = os.path.realpath(root)
    return [_describe(e, root) for e in raw]
