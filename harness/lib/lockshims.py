"""Shims that route the primitives of datashard.file_lock and datashard.lock_provider through the
cooperative scheduler (harness/lib/coop.py).  The library is patched from outside only.

Clock convention (see coop.Clock): the virtual clock counts integer milliseconds.

  datashard.file_lock (monotonic clock only): time.monotonic() returns that count as a float (exact for
  integers), so the timeouts handed to FileLock are expressed in the same unit (timeout=50.0 means 50
  virtual ms); sleep(d) sleeps round(d*1000) virtual ms.

  datashard.lock_provider (wall clock): ONE realistic time line.  Virtual instant t ms is the real instant
  EPOCH + t ms, and every clock the library can read agrees on it the way an operating system's clocks do:
  time.time() = EPOCH_S + t/1000 (epoch seconds), datetime.now(tz) / utcnow() / today() are that instant
  in the requested zone (naive forms: in the PROCESS zone -- os.environ["TZ"] + time.tzset(), set by the
  run's "env" events), and everything else of `time` (mktime, localtime, gmtime, timezone ...) is the real
  module acting on those values.  So an age computed by ANY route (datetime subtraction, epoch seconds,
  struct_time round trips) is judged against the same instants.  Timeouts are handed over in seconds.
"""
from __future__ import annotations

import contextlib
import datetime as _dt
import fcntl as _real_fcntl
import os as _real_os
import time as _real_time
import types
from typing import Any, Dict, Iterator, List, Optional

from .coop import Scheduler

_RealDateTime = _dt.datetime
EPOCH = _RealDateTime(2026, 1, 1, tzinfo=_dt.timezone.utc)
EPOCH_S = 1767225600            # EPOCH as epoch seconds
assert int(EPOCH.timestamp()) == EPOCH_S


def vdatetime(ms: int) -> _dt.datetime:
    return EPOCH + _dt.timedelta(milliseconds=int(ms))


def tz_string(zone_s: int) -> str:
    """POSIX TZ value of a fixed zone `zone_s` seconds EAST of UTC (POSIX writes the offset west-positive);
    needs no tzdata."""
    zone_s = int(zone_s)
    if zone_s == 0:
        return "UTC0"
    a = abs(zone_s)
    return "VZN%s%d:%02d:%02d" % ("-" if zone_s > 0 else "+", a // 3600, a % 3600 // 60, a % 60)


def set_process_zone(zone_s: Optional[int]) -> None:
    """os.environ['TZ'] + time.tzset(); None restores 'no TZ variable'."""
    if zone_s is None:
        _real_os.environ.pop("TZ", None)
    else:
        _real_os.environ["TZ"] = tz_string(zone_s)
    _real_time.tzset()


def render_last_modified(ms: int, rep: Optional[int], flavour: str = "std") -> _dt.datetime:
    """The datetime object a client library hands back for the instant EPOCH + ms.
    rep = utcoffset in seconds of an aware rendering (0 = UTC, what boto3 yields for S3's GMT dates), or None =
    naive with UTC fields (a date header without zone).  flavour: which tzinfo class carries the offset --
    "std" datetime.timezone, "dateutil" dateutil.tz.tzutc / tzoffset (what botocore really uses)."""
    d = vdatetime(ms)
    if rep is None:
        return d.replace(tzinfo=None)
    if flavour == "dateutil":
        from dateutil import tz as _tz
        zone = _tz.tzutc() if rep == 0 else _tz.tzoffset(None, int(rep))
    else:
        zone = _dt.timezone.utc if rep == 0 else _dt.timezone(_dt.timedelta(seconds=int(rep)))
    return d.astimezone(zone)


class _Proxy:
    """Attribute proxy: everything not overridden comes from the real module."""

    def __init__(self, real: Any, **over: Any):
        object.__setattr__(self, "_real", real)
        object.__setattr__(self, "_over", over)

    def __getattr__(self, name: str) -> Any:
        over = object.__getattribute__(self, "_over")
        if name in over:
            return over[name]
        return getattr(object.__getattribute__(self, "_real"), name)


class FdTable:
    """Canonical numbering of the open file descriptions created by the actors (real fds are reused)."""

    def __init__(self) -> None:
        self.next = 0
        self.canon: Dict[int, int] = {}      # real fd -> canonical ofd (while open)
        self.owner: Dict[int, Any] = {}      # real fd -> actor id
        self.inodes: Dict[int, int] = {}     # st_ino -> canonical inode

    def opened(self, fd: int, aid: Any) -> int:
        n = self.next
        self.next += 1
        self.canon[fd] = n
        self.owner[fd] = aid
        return n

    def ino(self, fd: int) -> int:
        st = _real_os.fstat(fd)
        return self.inodes.setdefault(st.st_ino, len(self.inodes))

    def closed(self, fd: int) -> Optional[int]:
        self.owner.pop(fd, None)
        return self.canon.pop(fd, None)

    def fds_of(self, aid: Any) -> List[int]:
        return [fd for fd, a in self.owner.items() if a == aid]


def time_shim(sched: Scheduler, epoch_s: Optional[int] = None) -> Any:
    """epoch_s None: the unit-free monotonic convention (file_lock).  epoch_s given: time.time() is epoch
    seconds on the realistic time line, time.monotonic() seconds since the run began."""
    def read() -> int:
        if sched.current() is None:
            return sched.clock.now
        sched.yield_point("clock")
        t = sched.clock.now
        sched.log("clock", t)
        return t

    def now() -> float:
        return float(read())

    def wall() -> float:
        return epoch_s + read() / 1000.0

    def mono() -> float:
        return read() / 1000.0

    def sleep(d: float) -> None:
        if sched.current() is None:
            return
        until = sched.clock.now + int(round(d * 1000))
        sched.yield_point("sleep", until)
        sched.clock.advance_to(until)
        sched.log("sleep", sched.clock.now)

    if epoch_s is not None:
        return _Proxy(_real_time, monotonic=mono, time=wall, sleep=sleep)
    return _Proxy(_real_time, monotonic=now, time=now, sleep=sleep)


@contextlib.contextmanager
def patched_file_lock(sched: Scheduler, fds: FdTable) -> Iterator[None]:
    """Route os.open / os.close / fcntl.flock / time.monotonic / time.sleep of datashard.file_lock
    through the scheduler; the real syscalls run underneath (real flock on a real file)."""
    import datashard.file_lock as fl

    def v_open(path: Any, flags: int, mode: int = 0o777) -> int:
        a = sched.current()
        if a is None:
            return _real_os.open(path, flags, mode)
        inj = sched.yield_point("open", path)
        if inj == "openerr":
            sched.log("openerr")
            raise OSError(24, "Too many open files (injected)")
        fd = _real_os.open(path, flags, mode)
        n = fds.opened(fd, a.aid)
        sched.log("open", n, fds.ino(fd))
        return fd

    def v_close(fd: int) -> None:
        a = sched.current()
        if a is None:
            return _real_os.close(fd)
        sched.yield_point("close", fd)
        n = fds.closed(fd)
        _real_os.close(fd)
        sched.log("close", n)

    def v_flock(fd: int, op: int) -> None:
        a = sched.current()
        if a is None:
            return _real_fcntl.flock(fd, op)
        sched.yield_point("flock", (fd, op))
        n = fds.canon.get(fd)
        if op & _real_fcntl.LOCK_UN:
            _real_fcntl.flock(fd, op)
            sched.log("unlock", n)
            return
        try:
            _real_fcntl.flock(fd, op)
        except OSError:
            sched.log("flock", n, False)
            raise
        sched.log("flock", n, True)

    saved = (fl.os, fl.time, fl.fcntl)
    fl.os = _Proxy(_real_os, open=v_open, close=v_close)
    fl.time = time_shim(sched)
    fl.fcntl = _Proxy(_real_fcntl, flock=v_flock)
    try:
        yield
    finally:
        fl.os, fl.time, fl.fcntl = saved


class _Uniform:
    """random.uniform replacement: the jitter (seconds) is whatever the controller injected for the step."""

    def __init__(self, sched: Scheduler):
        self.sched = sched
        self.next_ms: Dict[Any, int] = {}

    def uniform(self, a: float, b: float) -> float:
        act = self.sched.current()
        ms = self.next_ms.get(act.aid if act else None, int(round(a * 1000)))
        return ms / 1000.0


@contextlib.contextmanager
def patched_lock_provider(sched: Scheduler) -> Iterator[_Uniform]:
    """time.time / time.monotonic / time.sleep / random.uniform of datashard.lock_provider and the clock
    reads of datetime.datetime (now / utcnow / today; the class is imported inside _try_takeover_expired) go
    through the scheduler, all on one time line (module docstring); the heartbeat thread is replaced by
    explicit renew events (S3LockProviderBase._start_heartbeat / _stop_heartbeat_thread only flip a flag; a renew
    event runs one iteration of the real _heartbeat_loop as an actor of its own, lockruns.S3Run._renew)."""
    import datashard.lock_provider as lp

    uni = _Uniform(sched)

    def read_clock() -> _dt.datetime:
        if sched.current() is not None:
            sched.yield_point("clock")
            sched.log("clock", sched.clock.now)
        return vdatetime(sched.clock.now)

    class VDateTime(_RealDateTime):
        @classmethod
        def now(cls, tz: Any = None) -> Any:   # type: ignore[override]
            d = read_clock()
            if tz is None:                      # naive, fields in the process's local zone
                return d.astimezone().replace(tzinfo=None)
            return d.astimezone(tz)

        @classmethod
        def utcnow(cls) -> Any:                 # type: ignore[override]
            return read_clock().replace(tzinfo=None)

        @classmethod
        def today(cls) -> Any:                  # type: ignore[override]
            return cls.now()

    def start_hb(self: Any) -> None:
        self._verif_hb = True

    def stop_hb(self: Any) -> None:
        self._verif_hb = False

    saved = (lp.time, lp.random, _dt.datetime, lp.S3LockProviderBase._start_heartbeat,
             lp.S3LockProviderBase._stop_heartbeat_thread)
    lp.time = time_shim(sched, EPOCH_S)
    lp.random = _Proxy(saved[1], uniform=uni.uniform)
    _dt.datetime = VDateTime  # type: ignore[misc]
    lp.S3LockProviderBase._start_heartbeat = start_hb      # type: ignore[assignment]
    lp.S3LockProviderBase._stop_heartbeat_thread = stop_hb  # type: ignore[assignment]
    try:
        yield uni
    finally:
        lp.time, lp.random = saved[0], saved[1]
        _dt.datetime = saved[2]  # type: ignore[misc]
        lp.S3LockProviderBase._start_heartbeat = saved[3]        # type: ignore[assignment]
        lp.S3LockProviderBase._stop_heartbeat_thread = saved[4]  # type: ignore[assignment]
