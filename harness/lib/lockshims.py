"""Shims that route the primitives of datashard.file_lock and datashard.lock_provider through the
cooperative scheduler (harness/lib/coop.py).  The library is patched from outside only.

Clock convention (see coop.Clock): the virtual clock counts integer milliseconds.  time.monotonic() and
time.time() return that count as a float (exact for integers), so the timeouts handed to the library
are expressed in the same unit (timeout=50.0 means 50 virtual ms).  The library is unit-agnostic except
for the arguments it passes to time.sleep (seconds): sleep(d) sleeps round(d*1000) virtual ms.
datetime.now() is the virtual clock mapped onto a fixed epoch, so `(now - LastModified).total_seconds()`
is in real seconds and is compared with lease_seconds as in production.
"""
from __future__ import annotations

import contextlib
import datetime as _dt
import fcntl as _real_fcntl
import os as _real_os
import time as _real_time
import types
from typing import Any, Dict, Iterator, List, Optional

from .coop import Scheduler

EPOCH = _dt.datetime(2026, 1, 1, tzinfo=_dt.timezone.utc)


def vdatetime(ms: int) -> _dt.datetime:
    return EPOCH + _dt.timedelta(milliseconds=int(ms))


class _Proxy:
    """Attribute proxy: everything not overridden comes from the real module."""

    def __init__(self, real: Any, **over: Any):
        object.__setattr__(self, "_real", real)
        object.__setattr__(self, "_over", over)

    def __getattr__(self, name: str) -> Any:
        over = object.__getattribute__(self, "_over")
        if name in over:
            return over[name]
        return getattr(object.__getattribute__(self, "_real"), name)


class FdTable:
    """Canonical numbering of the open file descriptions created by the actors (real fds are reused)."""

    def __init__(self) -> None:
        self.next = 0
        self.canon: Dict[int, int] = {}      # real fd -> canonical ofd (while open)
        self.owner: Dict[int, Any] = {}      # real fd -> actor id
        self.inodes: Dict[int, int] = {}     # st_ino -> canonical inode

    def opened(self, fd: int, aid: Any) -> int:
        n = self.next
        self.next += 1
        self.canon[fd] = n
        self.owner[fd] = aid
        return n

    def ino(self, fd: int) -> int:
        st = _real_os.fstat(fd)
        return self.inodes.setdefault(st.st_ino, len(self.inodes))

    def closed(self, fd: int) -> Optional[int]:
        self.owner.pop(fd, None)
        return self.canon.pop(fd, None)

    def fds_of(self, aid: Any) -> List[int]:
        return [fd for fd, a in self.owner.items() if a == aid]


def time_shim(sched: Scheduler, clock_fn: str = "time") -> Any:
    def now() -> float:
        if sched.current() is None:
            return float(sched.clock.now)
        sched.yield_point("clock")
        t = sched.clock.now
        sched.log("clock", t)
        return float(t)

    def sleep(d: float) -> None:
        if sched.current() is None:
            return
        until = sched.clock.now + int(round(d * 1000))
        sched.yield_point("sleep", until)
        sched.clock.advance_to(until)
        sched.log("sleep", sched.clock.now)

    return _Proxy(_real_time, monotonic=now, time=now, sleep=sleep)


@contextlib.contextmanager
def patched_file_lock(sched: Scheduler, fds: FdTable) -> Iterator[None]:
    """Route os.open / os.close / fcntl.flock / time.monotonic / time.sleep of datashard.file_lock
    through the scheduler; the real syscalls run underneath (real flock on a real file)."""
    import datashard.file_lock as fl

    def v_open(path: Any, flags: int, mode: int = 0o777) -> int:
        a = sched.current()
        if a is None:
            return _real_os.open(path, flags, mode)
        inj = sched.yield_point("open", path)
        if inj == "openerr":
            sched.log("openerr")
            raise OSError(24, "Too many open files (injected)")
        fd = _real_os.open(path, flags, mode)
        n = fds.opened(fd, a.aid)
        sched.log("open", n, fds.ino(fd))
        return fd

    def v_close(fd: int) -> None:
        a = sched.current()
        if a is None:
            return _real_os.close(fd)
        sched.yield_point("close", fd)
        n = fds.closed(fd)
        _real_os.close(fd)
        sched.log("close", n)

    def v_flock(fd: int, op: int) -> None:
        a = sched.current()
        if a is None:
            return _real_fcntl.flock(fd, op)
        sched.yield_point("flock", (fd, op))
        n = fds.canon.get(fd)
        if op & _real_fcntl.LOCK_UN:
            _real_fcntl.flock(fd, op)
            sched.log("unlock", n)
            return
        try:
            _real_fcntl.flock(fd, op)
        except OSError:
            sched.log("flock", n, False)
            raise
        sched.log("flock", n, True)

    saved = (fl.os, fl.time, fl.fcntl)
    fl.os = _Proxy(_real_os, open=v_open, close=v_close)
    fl.time = time_shim(sched)
    fl.fcntl = _Proxy(_real_fcntl, flock=v_flock)
    try:
        yield
    finally:
        fl.os, fl.time, fl.fcntl = saved


class _Uniform:
    """random.uniform replacement: the jitter (seconds) is whatever the controller injected for the step."""

    def __init__(self, sched: Scheduler):
        self.sched = sched
        self.next_ms: Dict[Any, int] = {}

    def uniform(self, a: float, b: float) -> float:
        act = self.sched.current()
        ms = self.next_ms.get(act.aid if act else None, int(round(a * 1000)))
        return ms / 1000.0


@contextlib.contextmanager
def patched_lock_provider(sched: Scheduler) -> Iterator[_Uniform]:
    """time.time / time.sleep / random.uniform of datashard.lock_provider and datetime.datetime.now
    (imported inside _try_takeover_expired) go through the scheduler; the heartbeat thread is replaced by
    explicit renew events (S3LockProviderBase._start_heartbeat / _stop_heartbeat_thread only flip a flag)."""
    import datashard.lock_provider as lp

    uni = _Uniform(sched)

    class VDateTime(_dt.datetime):
        @classmethod
        def now(cls, tz: Any = None) -> Any:   # type: ignore[override]
            if sched.current() is not None:
                sched.yield_point("clock")
                sched.log("clock", sched.clock.now)
            return vdatetime(sched.clock.now)

    def start_hb(self: Any) -> None:
        self._verif_hb = True

    def stop_hb(self: Any) -> None:
        self._verif_hb = False

    saved = (lp.time, lp.random, _dt.datetime, lp.S3LockProviderBase._start_heartbeat,
             lp.S3LockProviderBase._stop_heartbeat_thread)
    lp.time = time_shim(sched)
    lp.random = _Proxy(saved[1], uniform=uni.uniform)
    _dt.datetime = VDateTime  # type: ignore[misc]
    lp.S3LockProviderBase._start_heartbeat = start_hb      # type: ignore[assignment]
    lp.S3LockProviderBase._stop_heartbeat_thread = stop_hb  # type: ignore[assignment]
    try:
        yield uni
    finally:
        lp.time, lp.random = saved[0], saved[1]
        _dt.datetime = saved[2]  # type: ignore[misc]
        lp.S3LockProviderBase._start_heartbeat = saved[3]        # type: ignore[assignment]
        lp.S3LockProviderBase._stop_heartbeat_thread = saved[4]  # type: ignore[assignment]
