"""Run one schedule (a JSON-able event list) against the REAL FileLock / S3LockProvider under the
cooperative scheduler, and judge it with implementation-only oracles.

Event alphabets (shared with coq/Model/FLock.v and coq/Model/Lock.v):

  local lock   ["acq", c, blocking, timeout_ms]  ["rel", c]  ["step", c]  ["openerr", c]
               ["tick", d_ms]  ["die", [c, ...]]
  S3 lock      ["call", c, "acquire", timeout_ms]  ["call", c, "is_held"]  ["call", c, "release"]
               ["step", c, fault, jitter_ms]  ["renew", c, fault]  ["tick", d_ms]  ["die", c]
               ["env", zone_s, rep_s | null, flavour]
               fault in {"none", "transient", "permanent", "lost"}
               env: the ENVIRONMENT from here on -- the process's local zone becomes `zone_s` seconds east of
               UTC (os.environ["TZ"] + time.tzset(); also what a DST switch does), and head / get replies
               render LastModified as an aware datetime at utcoffset rep_s (tzinfo class per `flavour`:
               "std" datetime.timezone, "dateutil" tzutc / tzoffset as botocore does) or, rep_s null, naive.
               The model sees zone and rendering (Lock.v SEnv), not the flavour.

Each event yields exactly one observation (obs..., result) in the same shape the model prints.
"""
from __future__ import annotations

import contextlib
import fcntl
import logging
import os
import shutil
import tempfile
from typing import Any, Dict, List, Optional, Tuple

from .coop import Clock, Scheduler
from .fakes3_lock import FakeS3Lock
from .lockshims import FdTable, patched_file_lock, patched_lock_provider, set_process_zone


POLL_MS = 10


# ======================================================================================= local lock
class FlockRun:
    def __init__(self, scratch: str, probe: bool = True):
        self.dir = tempfile.mkdtemp(prefix="flock-", dir=scratch)
        self.path = os.path.join(self.dir, "locks", "metadata.lock")
        self.sched = Scheduler(Clock(0))
        self.fds = FdTable()
        self.locks: Dict[int, Any] = {}
        self.provs: Dict[int, Any] = {}
        self.dead: set = set()
        self.obs: List[Tuple[Any, ...]] = []           # one per event
        self.problems: List[Dict[str, Any]] = []       # oracle failures
        self.in_cs: set = set()                        # acquire returned True, release not yet called
        self.call: Dict[int, Dict[str, Any]] = {}      # per client: the call in progress
        self.probe = probe
        self.stats = {"ok": 0, "timeout": 0, "wouldblock": 0, "probes": 0}
        logging.disable(logging.CRITICAL)
        self._ctx = contextlib.ExitStack()
        self._ctx.enter_context(patched_file_lock(self.sched, self.fds))
        self._closed = False

    # ------------------------------------------------------------------ helpers
    def _actor(self, c: int):
        return self.sched.actors.get(c)

    def _busy(self, c: int) -> bool:
        a = self._actor(c)
        return a is not None and a.state == "parked"

    def _finish(self, c: int) -> str:
        """The actor ended its call: classify the outcome, update the oracle's view."""
        a = self._actor(c)
        info = self.call.pop(c)
        if info["kind"] == "rel":
            return "RNone"
        if a.exc is not None:
            if isinstance(a.exc, TimeoutError):
                self.stats["timeout"] += 1
                self._timeout_oracle(c, info)
                return "RTimeout"
            self.problems.append({"oracle": "flock-unexpected-exception", "client": c, "exc": repr(a.exc)})
            return "RRaised"
        if a.result is True:
            self.stats["ok"] += 1
            self.in_cs.add(c)
            return "ROk"
        self.stats["wouldblock"] += 1
        if info["blocking"]:
            self.problems.append({"oracle": "flock-blocking-acquire-returned-false", "client": c})
        return "RWouldBlock"

    def _timeout_oracle(self, c: int, info: Dict[str, Any]) -> None:
        reads = info["reads"]
        if not reads:
            return
        start, last = reads[0], reads[-1]
        gaps = [b - a for a, b in zip(reads, reads[1:])] or [0]
        tmo = info["timeout"]
        if last - start < tmo:
            self.problems.append({"oracle": "flock-timeout-too-early", "client": c, "start": start, "raised_at": last, "timeout": tmo})
        if last > max(start, start + tmo) + max(gaps):
            self.problems.append({"oracle": "flock-timeout-too-late", "client": c, "start": start, "raised_at": last,
                                  "timeout": tmo, "maxgap": max(gaps)})
        # the loop never sleeps less than the poll interval: bounded number of rounds
        if tmo >= 0 and (info["sleeps"] - 1) * POLL_MS >= max(tmo, 1) and info["sleeps"] > 0:
            self.problems.append({"oracle": "flock-too-many-rounds", "client": c, "sleeps": info["sleeps"], "timeout": tmo})

    def _new_obs(self, c: int, before: int) -> Tuple[Any, ...]:
        new = self.sched.trace[before:]
        if len(new) != 1:
            self.problems.append({"oracle": "harness-one-primitive-per-step", "client": c, "got": [list(x) for x in new]})
            return ("?",) + tuple(new)
        o = new[0][1:]
        info = self.call.get(c)
        if info is not None:
            if o[0] == "clock":
                info["reads"].append(o[1])
            if o[0] == "sleep":
                info["sleeps"] += 1
        return o

    # ------------------------------------------------------------------ events
    def event(self, ev: List[Any]) -> Tuple[Any, ...]:
        kind = ev[0]
        if kind == "tick":
            self.sched.clock.tick(ev[1])
            out: Tuple[Any, ...] = ("tick", "RNone")
        elif kind == "die":
            for c in ev[1]:
                self.dead.add(c)
                self.in_cs.discard(c)
                self.sched.kill(c)
                for fd in self.fds.fds_of(c):          # the kernel closes a dead process's descriptors
                    self.fds.closed(fd)
                    os.close(fd)
                lk = self.locks.get(c)
                if lk is not None:                      # the instance is gone with its process
                    lk._locked = False
                    lk._lock_fd = None
            out = ("die", "RNone")
        else:
            c = ev[1]
            if c in self.dead:
                out = ("nop", "RNone")
            elif kind == "acq":
                out = self._acq(c, bool(ev[2]), int(ev[3]))
            elif kind == "rel":
                out = self._rel(c)
            elif kind in ("step", "openerr"):
                out = self._step(c, kind)
            else:
                raise ValueError(f"unknown event {ev!r}")
        self.obs.append(out)
        self._state_oracle(ev)
        return out

    def _acq(self, c: int, blocking: bool, timeout_ms: int) -> Tuple[Any, ...]:
        from datashard.lock_provider import LocalLockProvider
        if self._busy(c):
            return ("nop", "RNone")
        lk = self.locks.get(c)
        if lk is None:
            # the table's commit lock as storage_backend.create_lock builds it; .lock is the FileLock
            self.provs[c] = LocalLockProvider(self.path, timeout=float(timeout_ms))
            lk = self.locks[c] = self.provs[c].lock
        lk.timeout = float(timeout_ms)
        self.call[c] = {"kind": "acq", "blocking": blocking, "timeout": timeout_ms, "reads": [], "sleeps": 0}
        prov = self.provs[c]
        # LockProvider.acquire() is the blocking call; the non-blocking form exists on FileLock only
        self.sched.start(c, prov.acquire if blocking else (lambda: lk.acquire(False)))
        return ("call", c, "RNone")

    def _rel(self, c: int) -> Tuple[Any, ...]:
        if self._busy(c):
            return ("nop", "RNone")
        lk = self.locks.get(c)
        self.in_cs.discard(c)
        if lk is None:
            return ("call", c, "RNone")
        self.call[c] = {"kind": "rel"}
        a = self.sched.start(c, self.provs[c].release)
        if a.state == "done":
            self.call.pop(c, None)
        return ("call", c, "RNone")

    def _step(self, c: int, kind: str) -> Tuple[Any, ...]:
        a = self._actor(c)
        if a is None or a.state != "parked":
            return ("nop", "RNone")
        if kind == "openerr" and a.pending[0] != "open":
            return ("nop", "RNone")
        before = len(self.sched.trace)
        self.sched.step(c, "openerr" if kind == "openerr" else None)
        o = self._new_obs(c, before)
        res = self._finish(c) if a.state == "done" else "RNone"
        return (o[0], c) + tuple(o[1:]) + (res,)

    # ------------------------------------------------------------------ oracle on the state after each event
    def _state_oracle(self, ev: List[Any]) -> None:
        if len(self.in_cs) > 1:
            self.problems.append({"oracle": "flock-mutex", "in_critical_section": sorted(self.in_cs), "after": ev})
        quiet_holders = [c for c, pv in self.provs.items()
                         if c not in self.dead and not self._busy(c) and pv.is_held()]
        if len(quiet_holders) > 1:
            self.problems.append({"oracle": "flock-is-held-two", "clients": quiet_holders, "after": ev})
        if not self.probe or not os.path.exists(self.path):
            return
        # independent judgement by the real kernel: can an outsider flock the file right now?
        self.stats["probes"] += 1
        fd = os.open(self.path, os.O_RDWR)
        try:
            try:
                fcntl.flock(fd, fcntl.LOCK_EX | fcntl.LOCK_NB)
                free = True
                fcntl.flock(fd, fcntl.LOCK_UN)
            except OSError:
                free = False
        finally:
            os.close(fd)
        if free and quiet_holders:
            self.problems.append({"oracle": "flock-is-held-but-kernel-lock-free", "clients": quiet_holders, "after": ev})
        if not free and not any(c not in self.dead for c in self.locks):
            self.problems.append({"oracle": "flock-held-after-all-holders-died", "after": ev})

    def summary(self, clients: List[int]) -> List[Tuple[bool, str]]:
        out = []
        for c in clients:
            lk = self.locks.get(c)
            out.append(bool(lk is not None and c not in self.dead and lk._locked))
        return out

    def close(self) -> None:
        if self._closed:
            return
        self._closed = True
        self.sched.close()
        self._ctx.close()
        shutil.rmtree(self.dir, ignore_errors=True)
        for lk in self.locks.values():          # nothing may be released by __del__ on a recycled fd number
            lk._locked = False
            lk._lock_fd = None
        for fd in list(self.fds.owner):
            try:
                os.close(fd)
            except OSError:
                pass
        self.fds.owner.clear()


def run_flock(events: List[List[Any]], scratch: str, probe: bool = True) -> FlockRun:
    r = FlockRun(scratch, probe)
    try:
        for ev in events:
            r.event(ev)
    finally:
        r.close()
    return r


# ======================================================================================= S3 lock
FAULTS = {"none": None, "transient": "transient", "permanent": "permanent", "lost": "lost"}
KNOWN_KEY = "s3-release-get-then-unconditional-delete-after-takeover"


class _OneTick:
    """Stand-in for S3LockProviderBase._stop_heartbeat during one heartbeat tick: wait() = 'interval elapsed, not stopped'
    once, 'stopped' afterwards (the loop `while not self._stop_heartbeat.wait(interval)` runs its body exactly once)."""

    def __init__(self) -> None:
        self.n = 0

    def wait(self, timeout: Any = None) -> bool:
        self.n += 1
        return self.n > 1

    def is_set(self) -> bool:
        return self.n > 1

    def set(self) -> None:
        self.n = max(self.n, 2)

    def clear(self) -> None:
        pass


class S3Run:
    def __init__(self, lease_s: int = 60):
        self.sched = Scheduler(Clock(0))
        self.s3 = FakeS3Lock(self.sched)
        self.lease_s = lease_s
        self.lease_ms = lease_s * 1000
        self.prov: Dict[int, Any] = {}
        self.ids: Dict[str, int] = {}                 # lock_id -> client
        self.dead: set = set()
        self.obs: List[Tuple[Any, ...]] = []
        self.problems: List[Dict[str, Any]] = []
        self.call: Dict[int, Dict[str, Any]] = {}
        self.releasing: set = set()
        self.last_ok_write: Dict[int, int] = {}       # client -> time of its last PUT whose reply it saw
        self.superseded: Dict[int, bool] = {}         # client -> its object was overwritten by another owner
        self.late_delete = False
        logging.disable(logging.CRITICAL)
        self._saved_tz = os.environ.get("TZ")
        self._zone_touched = False
        self._ctx = contextlib.ExitStack()
        self.uni = self._ctx.enter_context(patched_lock_provider(self.sched))
        self._closed = False
        self.stats = {"ok": 0, "timeout": 0, "raised": 0, "held_true": 0, "held_false": 0, "takeovers": 0,
                      "renew_ok": 0, "renew_lost_lock": 0, "max_live": 0}

    def provider(self, c: int, timeout_ms: int = 30000):
        from datashard.lock_provider import S3LockProvider
        p = self.prov.get(c)
        if p is None:
            p = self.prov[c] = S3LockProvider(self.s3, "bucket", "t/.locks/metadata.lock", timeout=self.timeout_s(timeout_ms),
                                              lease_seconds=self.lease_s)
            self.ids[p.lock_id] = c
        return p

    @staticmethod
    def timeout_s(timeout_ms: int) -> float:
        """The timeout handed to the library, in seconds.  Clock readings are whole milliseconds and epoch-second
        floats carry about 2e-7 s of rounding, so `t - start >= timeout` is decided half a millisecond below the
        intended whole-millisecond bound: for integer readings it is the same predicate as the model's
        `t - start >= timeout_ms`, and no rounding can flip it."""
        return (int(timeout_ms) - 0.5) / 1000.0

    def owner_of(self, body: Optional[str]) -> Optional[int]:
        return None if body is None else self.ids.get(body, -1)

    # ------------------------------------------------------------------ events
    def event(self, ev: List[Any]) -> Tuple[Any, ...]:
        kind = ev[0]
        nlog = len(self.s3.log)
        if kind == "tick":
            self.sched.clock.tick(ev[1])
            out: Tuple[Any, ...] = ("tick", "SNone")
        elif kind == "die":
            c = ev[1]
            self.dead.add(c)
            self.sched.kill(c)
            out = ("die", "SNone")
        elif kind == "env":
            self._zone_touched = True
            set_process_zone(int(ev[1]))
            self.s3.render = (None if ev[2] is None else int(ev[2]), ev[3] if len(ev) > 3 else "std")
            out = ("env", "SNone")
        else:
            c = ev[1]
            if c in self.dead:
                out = ("nop", "SNone")
            elif kind == "call":
                out = self._call(c, ev[2], ev[3] if len(ev) > 3 else None)
            elif kind == "step":
                out = self._step(c, FAULTS[ev[2]], int(ev[3]))
            elif kind == "renew":
                out = self._renew(c, FAULTS[ev[2]])
            else:
                raise ValueError(f"unknown event {ev!r}")
        self.obs.append(out)
        self._request_oracle(nlog)
        self._state_oracle(ev)
        return out

    def _busy(self, c: int) -> bool:
        a = self.sched.actors.get(c)
        return a is not None and a.state == "parked"

    def _call(self, c: int, what: str, arg: Any) -> Tuple[Any, ...]:
        if self._busy(c):
            return ("nop", "SNone")
        p = self.provider(c, int(arg) if what == "acquire" else 30000)
        info = {"kind": what, "reads": [], "t_call": self.sched.clock.now}
        if what == "acquire":
            p.timeout = self.timeout_s(int(arg))
            info["timeout"] = int(arg)
            fn = p.acquire
        elif what == "is_held":
            fn = p.is_held
        elif what == "release":
            info["was_locked"] = bool(p.is_locked)
            if p.is_locked:
                self.releasing.add(c)
            fn = p.release
        else:
            raise ValueError(what)
        self.call[c] = info
        a = self.sched.start(c, fn)
        res = self._finish(c) if a.state == "done" else "SNone"
        return ("call", c, res)

    def _finish(self, c: int) -> str:
        a = self.sched.actors[c]
        info = self.call.pop(c)
        k = info["kind"]
        if k == "acquire":
            if a.exc is not None:
                if isinstance(a.exc, TimeoutError):
                    self.stats["timeout"] += 1
                    self._timeout_oracle(c, info)
                    return "STimeout"
                self.stats["raised"] += 1
                return "SRaised"
            if a.result is True:
                self.stats["ok"] += 1
                self.superseded[c] = False
                return "SOk"
            self.problems.append({"oracle": "s3-acquire-returned", "client": c, "value": repr(a.result)})
            return "S?"
        if a.exc is not None:
            self.problems.append({"oracle": f"s3-{k}-raised", "client": c, "exc": repr(a.exc)})
            return "SRaised"
        if k == "is_held":
            if a.result:
                self.stats["held_true"] += 1
                if not info.get("saw_mine"):
                    self.problems.append({"oracle": "s3-is-held-true-without-own-body", "client": c})
                if self.superseded.get(c):
                    self.problems.append({"oracle": "s3-superseded-holder-reports-held", "client": c})
                # judged on the store itself at the moment of the answer (no primitive lies between is_held()'s last read and its return)
                body = self.s3.obj["body"].decode() if self.s3.obj else None
                if self.owner_of(body) != c:
                    self.problems.append({"oracle": "s3-is-held-true-but-object-not-mine", "client": c, "object_owner": self.owner_of(body),
                                          "t": self.sched.clock.now, "last_write_seen_by_client": self.last_ok_write.get(c)})
                return "STrue"
            self.stats["held_false"] += 1
            return "SFalse"
        self.releasing.discard(c)
        return "SReleased" if info.get("was_locked") else "SNone"

    def _timeout_oracle(self, c: int, info: Dict[str, Any]) -> None:
        reads = info["reads"]
        if not reads:
            return
        start, last = reads[0], reads[-1]
        gaps = [b - a for a, b in zip(reads, reads[1:])] or [0]
        tmo = info["timeout"]
        if last - start < tmo:
            self.problems.append({"oracle": "s3-timeout-too-early", "client": c, "start": start, "raised_at": last, "timeout": tmo})
        if last > max(start, start + tmo) + max(gaps):
            self.problems.append({"oracle": "s3-timeout-too-late", "client": c, "start": start, "raised_at": last,
                                  "timeout": tmo, "maxgap": max(gaps)})

    def _obs_of(self, c: int, before: int) -> Tuple[Any, ...]:
        new = self.sched.trace[before:]
        if len(new) != 1:
            self.problems.append({"oracle": "harness-one-primitive-per-step", "client": c, "got": [list(x) for x in new]})
            return ("?",) + tuple(new)
        return new[0][1:]

    def _step(self, c: int, fault: Any, jitter: int) -> Tuple[Any, ...]:
        a = self.sched.actors.get(c)
        if a is None or a.state != "parked":
            return ("nop", "SNone")
        self.uni.next_ms[c] = jitter
        before = len(self.sched.trace)
        inject = fault if a.pending[0] == "s3" else None
        self.sched.step(c, inject)
        o = self._obs_of(c, before)
        info = self.call.get(c)
        if info is not None:
            if o[0] == "clock" and info["kind"] == "acquire":
                info.setdefault("all_reads", []).append(o[1])
            if o[0] == "s3" and o[1] == "get" and info["kind"] == "is_held":
                info["saw_mine"] = (o[4][0] == "owner" and self.ids.get(o[4][1]) == c)
        # the readings that matter for the timeout: time.time() only (start_time and the loop check), i.e. the
        # clock reads that are not the datetime.now() of the age test (which directly follows a HEAD)
        if info is not None and o[0] == "clock" and info["kind"] == "acquire":
            if not info.get("after_head"):
                info["reads"].append(o[1])
        if info is not None:
            info["after_head"] = (o[0] == "s3" and o[1] == "head" and o[4][0] == "head")
        res = self._finish(c) if a.state == "done" else "SNone"
        return self._canon(c, o) + (res,)

    def _renew(self, c: int, fault: Any) -> Tuple[Any, ...]:
        """One TICK of the heartbeat thread: one iteration of the REAL S3LockProviderBase._heartbeat_loop -- its wait returns
        'not stopped' once and 'stopped' the next time -- so that everything the loop does around _renew_once() (the is_locked
        guard, swallowing an exception, whatever it records about the renewal) is the library's own code.  The renewal's one S3
        request takes the injected fault; clock reads of the loop are let through (counted, not part of the observation)."""
        p = self.prov.get(c)
        if p is None or not getattr(p, "_verif_hb", False):
            return ("nop", "SNone")      # heartbeat thread not started / stopped by release()
        aid = ("hb", c)
        saved = p._stop_heartbeat
        p._stop_heartbeat = _OneTick()
        try:
            before = len(self.sched.trace)
            a = self.sched.start(aid, p._heartbeat_loop)
            steps = 0
            while a.state == "parked" and steps < 12:
                steps += 1
                self.sched.step(aid, fault if a.pending[0] == "s3" else None)
            if a.state == "parked":
                self.sched.kill(aid)
                self.problems.append({"oracle": "harness-heartbeat-tick-did-not-finish", "client": c, "pending": repr(a.pending)})
        finally:
            p._stop_heartbeat = saved
        new = [x for x in self.sched.trace[before:]]
        reqs = [x for x in new if x[1] == "s3"]
        self.stats["hb_ticks"] = self.stats.get("hb_ticks", 0) + 1
        self.stats["hb_other_primitives"] = self.stats.get("hb_other_primitives", 0) + len(new) - len(reqs)
        if a.exc is not None:
            self.problems.append({"oracle": "s3-heartbeat-loop-raised", "client": c, "exc": repr(a.exc)})
        if not reqs:
            return ("nop", "SNone")      # `if not self.is_locked: break`, or _renew_once: _etag is None: return
        if len(reqs) != 1:
            self.problems.append({"oracle": "harness-renew-more-than-one-request", "client": c, "got": [list(x) for x in reqs]})
        if fault in ("transient", "lost") and p.is_locked:
            self.stats["hb_failed_ticks_still_locked"] = self.stats.get("hb_failed_ticks_still_locked", 0) + 1
        return self._canon(c, reqs[0][1:]) + ("SNone",)

    def _canon(self, c: int, o: Tuple[Any, ...]) -> Tuple[Any, ...]:
        if o[0] == "s3":
            _, op, cond, fault, outcome = o
            if outcome[0] == "owner":
                outcome = ("owner", self.ids.get(outcome[1], -1))
            return ("req", c, op, cond, tuple(outcome))
        return (o[0], c) + tuple(o[1:])

    # ------------------------------------------------------------------ oracles
    def _request_oracle(self, nlog: int) -> None:
        """Judge the requests that landed during this event from the fake store's own log."""
        for r in self.s3.log[nlog:]:
            actor = r["actor"]
            c = actor[1] if isinstance(actor, tuple) else actor
            wrote = r["op"] in ("put_absent", "put_match") and r["landed"]
            if wrote:
                prev = self.owner_of(r["owner_before"])
                if r["op"] == "put_match" and prev is not None and prev != c:
                    self.stats["takeovers"] += 1
                    if r["t"] - r["lm_before"] <= self.lease_ms:
                        self.problems.append({"oracle": "s3-takeover-before-lease-lapsed", "by": c, "from": prev,
                                              "age_ms": r["t"] - r["lm_before"], "lease_ms": self.lease_ms})
                    self.superseded[prev] = True
                if r["op"] == "put_match" and prev == c and self.superseded.get(c) and isinstance(actor, tuple):
                    self.problems.append({"oracle": "s3-superseded-holder-renewed", "client": c})
                if r["outcome"][0] == "etag":
                    self.last_ok_write[c] = r["t"]
                    if isinstance(actor, tuple):
                        self.stats["renew_ok"] += 1
            if r["op"] == "put_match" and isinstance(actor, tuple) and r["outcome"][0] in ("precond", "missing"):
                self.stats["renew_lost_lock"] += 1
                if self.prov[c].is_locked:
                    self.problems.append({"oracle": "s3-renew-refused-but-still-locked", "client": c})
            if r["op"] == "delete" and r["landed"]:
                if r["t"] - self.last_ok_write.get(c, -10**12) > self.lease_ms:
                    self.late_delete = True

    def live_holders(self) -> List[int]:
        now = self.sched.clock.now
        out = []
        for c, p in self.prov.items():
            if c in self.dead or not p.is_locked or c in self.releasing:
                continue
            if now - self.last_ok_write.get(c, -10**12) <= self.lease_ms:
                out.append(c)
        return out

    def _state_oracle(self, ev: List[Any]) -> None:
        live = self.live_holders()
        self.stats["max_live"] = max(self.stats["max_live"], len(live))
        if len(live) > 1:
            self.problems.append({"oracle": "s3-mutex", "live_holders": live, "after": ev, "t": self.sched.clock.now,
                                  "late_delete": self.late_delete,
                                  "known_key": KNOWN_KEY if self.late_delete else None})

    def summary(self, clients: List[int]) -> List[Tuple[bool, bool]]:
        live = set(self.live_holders())
        return [(bool(self.prov[c].is_locked) if c in self.prov else False, c in live) for c in clients]

    def close(self) -> None:
        if self._closed:
            return
        self._closed = True
        self.sched.close()
        self._ctx.close()
        if self._zone_touched:
            set_process_zone(None)
            if self._saved_tz is not None:
                os.environ["TZ"] = self._saved_tz
                import time as _t
                _t.tzset()


def run_s3(events: List[List[Any]], lease_s: int = 60) -> S3Run:
    r = S3Run(lease_s)
    try:
        for ev in events:
            r.event(ev)
    finally:
        r.close()
    return r
