"""Scenario driver for C16: runs a list of table operations against the real library.

Used in-process (under harness.lib.ostrace.InProcessTracer) and as a subprocess under strace:
    python -m harness.lib.c16_driver <root> <steps.json> <result.json> [mutation]

Steps (JSON lists):
  ["create"]                   create_table(root, schema)
  ["reopen"]                   load_table(root)
  ["sleep", s]                 (self-test of the harness's time limit; never generated)
  ["append", n]                one transaction, Transaction.append_data(n rows), commit      (one data file)
  ["append_records", n]        Table.append_records(n rows): the convenience API              (one data file)
  ["append_pandas", n]         Table.append_pandas(DataFrame of n rows) -> write_pandas_file: ONE write_batch of n rows
                               (recorded as skipped -- ok=false, skipped=true -- when pandas is not installed)
  ["append_prebuilt", [b1,..]] a data file written by the caller with the public DataFileWriter, one write_batch per bi
                               (bi rows each), then adopted with Transaction.append_files + commit
  ["multi", [n1, n2, ...]]     one transaction, one append_data per n    (several data files)
  ["delete", k]                delete_files([k-th live data file])       (manifest rewritten or dropped)
  ["delete_append", k, n]      delete_files + append_data in one transaction
  ["expire"]                   expire_snapshots(now + 1): metadata-only commit
  ["append_expire", n]         append_data + expire_snapshots in one transaction
  ["delete_snapshot", k]       SnapshotManager.delete_snapshot(k-th snapshot)
  ["abort", [n1, ...]]         one transaction, one append_data per n, then Transaction.rollback()
  ["threads", [[n, ..], ..], [[t, k], ..]]
                               IN-PROCESS CONCURRENCY: one writer thread per list, all on the one table directory (each
                               with its own load_table of it, one local backend class); thread t runs one transaction
                               (append_data(n) + commit) per n.  The holds [t, k] are the schedule (ostrace.ThreadSched): the
                               k-th directory fsync of thread t is slow -- parked between the kernel call and its return
                               until another thread's rename into that directory has landed.  In-process tracer only.
A step that raises is recorded as failed (ok=false) after the transaction was rolled back the way the
context manager does, and the scenario continues with the next step.
Every step is bracketed by marks "<i>:begin" / "<i>:end" in the trace; the result file lists, per
step, the data files written in API order (from the transaction's own bookkeeping).
"""
from __future__ import annotations

import json
import os
import sys
import time
from typing import Any, Callable, Dict, List, Optional

MARK_DIR = "/dev/null/@@c16-mark:"


def _schema():
    from datashard.data_structures import Schema
    return Schema(schema_id=1, fields=[{"id": 1, "name": "a", "type": "long", "required": False},
                                       {"id": 2, "name": "s", "type": "string", "required": False}])


def _rows(n: int, salt: int) -> List[Dict[str, Any]]:
    return [{"a": salt * 1000 + i, "s": f"r{salt}-{i}" * (1 + (i % 3))} for i in range(n)]


def _prebuilt(root: str, table: Any, batches: List[int], salt: int) -> Any:
    """A data file the caller writes itself with the library's public writer (one write_batch per entry of
    `batches`), described by a DataFile without bounds, ready for Transaction.append_files."""
    import pyarrow as pa
    from datashard.data_operations import DataFileWriter
    from datashard.data_structures import DataFile, FileFormat
    arrow_schema = table.file_manager.data_file_manager.create_arrow_schema(_schema())
    rel = f"/data/prebuilt_{salt}_{len(batches)}.parquet"
    full = os.path.join(root, rel.lstrip("/"))
    rows = 0
    with DataFileWriter(full, FileFormat.PARQUET, arrow_schema) as w:
        for b in batches:
            w.write_batch(pa.Table.from_pylist(_rows(b, salt * 7 + rows), schema=arrow_schema))
            rows += b
    return DataFile(file_path=rel, file_format=FileFormat.PARQUET, partition_values={}, record_count=rows,
                    file_size_in_bytes=os.path.getsize(full))


def _syscall_mark(label: str) -> None:
    try:
        os.mkdir(MARK_DIR + label)
    except OSError:
        pass


def install_mutation(mutation: Optional[str]) -> Callable[[], None]:
    """Behavioural mutations of the library for the oracle's sensitivity self-test (never on by default)."""
    if mutation != "ptr_before_meta":
        return lambda: None
    from datashard.storage_backend import LocalStorageBackend
    real = LocalStorageBackend.write_file
    stash: List[Any] = []

    def write_file(self, path: str, content: bytes) -> None:
        base = os.path.basename(path)
        if path.startswith("metadata/") and base.endswith(".metadata.json"):
            stash.append((path, content))
            return
        real(self, path, content)
        if path == "metadata.version-hint.text":
            while stash:
                p, c = stash.pop(0)
                real(self, p, c)

    LocalStorageBackend.write_file = write_file

    def undo() -> None:
        LocalStorageBackend.write_file = real
    return undo


def _in_tx(table: Any, res: Dict[str, Any], body: Callable[[Any], None]) -> None:
    """Run `body(tx)` the way `with table.new_transaction() as tx:` does: an exception rolls the
    transaction back (Transaction.__exit__) and propagates."""
    tx = table.new_transaction().begin()
    try:
        body(tx)
    except BaseException:
        res["data_files"] = list(tx._written_files)
        res["appends_done"] = len(tx._written_files)
        if tx.is_active():
            res["rolled_back"] = bool(tx.rollback())
        raise


def _run_threads(root: str, lists: List[List[int]], holds: List[List[int]], tracer: Any, res: Dict[str, Any], salt0: int) -> None:
    import threading
    from datashard import load_table
    from harness.lib import ostrace
    sched = ostrace.ThreadSched(len(lists), holds) if tracer is not None else None
    if tracer is not None:
        tracer.sched = sched
    out: List[Dict[str, Any]] = [{"ok": True, "data_files": [], "commits": 0} for _ in lists]

    def body(tid: int) -> None:
        r = out[tid]
        try:
            if sched is not None:
                sched.register(tid)
                sched.wait_start(tid)
            table = load_table(root)
            for j, n in enumerate(lists[tid]):
                tx = table.new_transaction().begin()
                try:
                    tx.append_data(records=_rows(n, salt0 + 100 * (tid + 1) + j), schema=None)
                    r["data_files"] += list(tx._written_files)
                    tx.commit()
                    r["commits"] += 1
                except BaseException:
                    if tx.is_active():
                        tx.rollback()
                    raise
        except BaseException as e:  # noqa: BLE001
            r["ok"] = False
            r["error"] = f"{type(e).__name__}: {e}"[:300]
        finally:
            if sched is not None:
                sched.finished(tid)

    ths = [threading.Thread(target=body, args=(k,), name=f"writer-{k}", daemon=True) for k in range(len(lists))]
    try:
        for t in ths:
            t.start()
        for t in ths:
            t.join(60)
    finally:
        if tracer is not None:
            tracer.sched = None
    res["threads"] = out
    res["schedule_log"] = sched.log if sched is not None else []
    res["data_files"] = [f for r in out for f in r["data_files"]]
    res["ok"] = all(r["ok"] for r in out) and not any(t.is_alive() for t in ths)
    if any(t.is_alive() for t in ths):
        res["error"] = "writer threads did not finish within 60 s"


def run_steps(root: str, steps: List[Any], mark: Callable[[str], None], mutation: Optional[str] = None) -> List[Dict[str, Any]]:
    from datashard import create_table, load_table
    undo = install_mutation(mutation)
    results: List[Dict[str, Any]] = []
    table = None
    salt = [0]

    def append(tx: Any, res: Dict[str, Any], n: int) -> None:
        salt[0] += 1
        tx.append_data(records=_rows(n, salt[0]), schema=None)
        res["data_files"] = list(tx._written_files)

    try:
        for i, st in enumerate(steps):
            kind = st[0]
            res: Dict[str, Any] = {"step": st, "data_files": [], "ok": True}
            mark(f"{i}:begin")
            try:
                if kind == "create":
                    table = create_table(root, _schema())
                elif kind == "reopen":
                    table = load_table(root)
                elif kind == "sleep":            # harness self-test of the time limit only
                    time.sleep(st[1])
                else:
                    if table is None:
                        table = load_table(root)
                    if kind == "append_records":
                        salt[0] += 1
                        res["ok"] = bool(table.append_records(_rows(st[1], salt[0])))
                    elif kind == "threads":
                        salt[0] += 1
                        _run_threads(root, st[1], st[2] if len(st) > 2 else [], getattr(mark, "__self__", None), res, salt[0] * 1000)
                    elif kind == "append_pandas":
                        try:
                            import pandas as pd
                        except ImportError:
                            res["ok"], res["skipped"] = False, True
                        else:
                            salt[0] += 1
                            res["ok"] = bool(table.append_pandas(pd.DataFrame(_rows(st[1], salt[0]))))
                    elif kind == "append_prebuilt":
                        def body(tx: Any) -> None:
                            salt[0] += 1
                            tx.append_files([_prebuilt(root, table, st[1], salt[0])])
                            tx.commit()
                        _in_tx(table, res, body)
                    elif kind == "append":
                        def body(tx: Any) -> None:
                            append(tx, res, st[1])
                            tx.commit()
                        _in_tx(table, res, body)
                    elif kind == "multi":
                        def body(tx: Any) -> None:
                            for n in st[1]:
                                append(tx, res, n)
                            tx.commit()
                        _in_tx(table, res, body)
                    elif kind == "abort":
                        def body(tx: Any) -> None:
                            for n in st[1]:
                                append(tx, res, n)
                            res["ok"] = bool(tx.rollback())
                            res["aborted"] = True
                        _in_tx(table, res, body)
                    elif kind in ("delete", "delete_append"):
                        live = [f.file_path for f in table._get_all_data_files()]   # manifest order: independent of the random names
                        if live or kind == "delete_append":
                            def body(tx: Any) -> None:
                                if live:
                                    tx.delete_files([live[st[1] % len(live)]])
                                    res["deleted"] = live[st[1] % len(live)]
                                if kind == "delete_append":
                                    append(tx, res, st[2])
                                tx.commit()
                            _in_tx(table, res, body)
                        else:
                            res["ok"] = False
                    elif kind == "expire":
                        def body(tx: Any) -> None:
                            tx.expire_snapshots(int(time.time() * 1000) + 1)
                            tx.commit()
                        _in_tx(table, res, body)
                    elif kind == "append_expire":
                        def body(tx: Any) -> None:
                            append(tx, res, st[1])
                            tx.expire_snapshots(int(time.time() * 1000) + 1)
                            tx.commit()
                        _in_tx(table, res, body)
                    elif kind == "delete_snapshot":
                        snaps = table.snapshot_manager.get_all_snapshots()
                        if snaps:
                            sid = snaps[st[1] % len(snaps)].snapshot_id
                            res["ok"] = bool(table.snapshot_manager.delete_snapshot(sid))
                        else:
                            res["ok"] = False
                    else:
                        raise ValueError(f"unknown step {st!r}")
            except Exception as e:  # the step failed: recorded, the trace up to here still counts
                if isinstance(e, MemoryError):
                    raise
                res["ok"] = False
                res["error"] = f"{type(e).__name__}: {e}"[:300]
                if kind == "create":
                    table = None
            mark(f"{i}:end")
            results.append(res)
    finally:
        undo()
    return results


def main() -> int:
    root, steps_path, out_path = sys.argv[1], sys.argv[2], sys.argv[3]
    mutation = sys.argv[4] if len(sys.argv) > 4 and sys.argv[4] != "-" else None
    with open(steps_path) as f:
        steps = json.load(f)
    results = run_steps(root, steps, _syscall_mark, mutation)
    with open(out_path, "w") as f:
        json.dump(results, f)
    sys.stdout.flush()
    os._exit(0)      # skip interpreter teardown (arrow threads)


if __name__ == "__main__":
    sys.exit(main())
