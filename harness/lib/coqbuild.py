"""Build and query the Coq development under /verif/coq.

Every check run does, through this module:
  1. regenerate()        translator: /repo/src/datashard/*.py -> coq/Gen/*.v (rewritten only when changed)
  2. build()             coq_makefile + `make -k` (full .vo build, never -vos), under an exclusive flock
  3. forbidden_tokens()  grep for Admitted/admit/Axiom/... in the sources
  4. prop_status(id)     recompile Props/<id>.v, capture `Print Assumptions`
  5. coq_eval(...)       evaluate model functions on harness-generated cases with vm_compute
"""
from __future__ import annotations

import fcntl
import json
import os
import re
import subprocess
import sys
import tempfile
import time
from contextlib import contextmanager
from typing import Any, Dict, Iterable, List, Optional, Tuple

from . import coqio

VERIF = os.path.dirname(os.path.dirname(os.path.dirname(os.path.abspath(__file__))))
COQ = os.path.join(VERIF, "coq")
REPO = os.environ.get("DATASHARD_REPO", "/repo")
SRC = os.path.join(REPO, "src", "datashard")
LOCKFILE = os.path.join(COQ, ".build.lock")
JOBS = int(os.environ.get("VERIF_JOBS", "16"))

FORBIDDEN = re.compile(
    r"\b(Admitted|admit|Axiom|Axioms|Parameter|Parameters|Conjecture|Conjectures|Admit\s+Obligations|"
    r"Unset\s+Guard\s+Checking|Unset\s+Positivity\s+Checking|Unset\s+Universe\s+Checking|bypass_check|"
    r"type-in-type|impredicative-set|native_compute)\b"
)


@contextmanager
def _lock(exclusive: bool):
    os.makedirs(COQ, exist_ok=True)
    fd = os.open(LOCKFILE, os.O_CREAT | os.O_RDWR)
    try:
        fcntl.flock(fd, fcntl.LOCK_EX if exclusive else fcntl.LOCK_SH)
        yield
    finally:
        try:
            fcntl.flock(fd, fcntl.LOCK_UN)
        finally:
            os.close(fd)


def source_files() -> List[str]:
    out = []
    for sub in ("Model", "Gen", "Proofs", "Props", "Extract"):
        d = os.path.join(COQ, sub)
        if not os.path.isdir(d):
            continue
        for f in sorted(os.listdir(d)):
            if f.endswith(".v"):
                out.append(f"{sub}/{f}")
    return out


def regenerate() -> Dict[str, Any]:
    """Run the translator. Returns its status dict {file: {"ok": bool, "error": str}}."""
    with _lock(True):
        p = subprocess.run(
            [sys.executable, os.path.join(VERIF, "translator", "py2coq.py"), "--src", SRC, "--out", os.path.join(COQ, "Gen")],
            capture_output=True, text=True, timeout=120,
        )
    status_path = os.path.join(COQ, "Gen", "status.json")
    try:
        with open(status_path) as f:
            status = json.load(f)
    except Exception:
        status = {}
    status["_exit"] = p.returncode
    status["_stderr"] = p.stderr[-2000:]
    return status


def build(timeout: int = 900) -> Dict[str, Any]:
    """Full (incremental) .vo build with `make -k`. Returns {"ok": bool, "log": str, "failed": [files]}."""
    t0 = time.time()
    with _lock(True):
        files = source_files()
        proj = "-Q . DS\n-arg -w -arg -notation-overridden,-deprecated-hint-without-locality,-deprecated-instance-without-locality\n" + "\n".join(files) + "\n"
        proj_path = os.path.join(COQ, "_CoqProject")
        old = open(proj_path).read() if os.path.exists(proj_path) else None
        if old != proj or not os.path.exists(os.path.join(COQ, "Makefile")):
            with open(proj_path, "w") as f:
                f.write(proj)
            subprocess.run(["coq_makefile", "-f", "_CoqProject", "-o", "Makefile"], cwd=COQ, check=True, capture_output=True)
        p = subprocess.run(
            ["timeout", str(timeout), "make", "-k", f"-j{JOBS}"],
            cwd=COQ, capture_output=True, text=True,
        )
        log = p.stdout + p.stderr
        with open(os.path.join(COQ, "build.log"), "w") as f:
            f.write(log)
        failed = []
        for rel in files:
            vo = os.path.join(COQ, rel[:-2] + ".vo")
            src = os.path.join(COQ, rel)
            if not os.path.exists(vo) or os.path.getmtime(vo) < os.path.getmtime(src):
                failed.append(rel)
        # a file whose dependency failed keeps a stale .vo: ask make
        if p.returncode != 0:
            for rel in files:
                if rel in failed:
                    continue
                q = subprocess.run(["make", "-q", rel[:-2] + ".vo"], cwd=COQ, capture_output=True, text=True)
                if q.returncode != 0:
                    failed.append(rel)
    return {"ok": p.returncode == 0 and not failed, "failed": sorted(set(failed)), "log": log[-6000:], "wall_s": time.time() - t0}


def forbidden_tokens() -> List[str]:
    """Lines of the Coq sources (comments stripped) containing a forbidden token."""
    hits = []
    for rel in source_files():
        text = open(os.path.join(COQ, rel)).read()
        text = _strip_comments(text)
        for i, line in enumerate(text.splitlines(), 1):
            m = FORBIDDEN.search(line)
            if m:
                hits.append(f"{rel}:{i}: {line.strip()[:120]}")
    return hits


def _strip_comments(text: str) -> str:
    out = []
    depth = 0
    i = 0
    in_str = False
    while i < len(text):
        if not in_str and text.startswith("(*", i):
            depth += 1
            i += 2
            continue
        if not in_str and depth and text.startswith("*)", i):
            depth -= 1
            i += 2
            continue
        ch = text[i]
        if depth == 0:
            if ch == '"':
                in_str = not in_str
            out.append(ch)
        elif ch == "\n":
            out.append(ch)
        i += 1
    return "".join(out)


def prop_status(pid: str, timeout: int = 300) -> Dict[str, Any]:
    """Recompile Props/<pid>.v and parse its Print Assumptions output.

    Returns {"ok": bool, "theorems": {name: "closed" | [axioms...]}, "log": str}
    """
    rel = f"Props/{pid}.v"
    src = os.path.join(COQ, rel)
    if not os.path.exists(src):
        return {"ok": False, "theorems": {}, "log": f"{rel} missing"}
    with _lock(False):
        with tempfile.TemporaryDirectory(prefix="dsverif-prop-") as td:
            # compile to a private output so concurrent checks do not race on the .vo
            p = subprocess.run(
                ["timeout", str(timeout), "coqc", "-Q", COQ, "DS", "-w", "-notation-overridden", "-o", os.path.join(td, f"{pid}.vo"), src],
                capture_output=True, text=True, cwd=COQ,
            )
    out = p.stdout + p.stderr
    theorems: Dict[str, Any] = {}
    names = re.findall(r"^\s*Print Assumptions\s+([A-Za-z0-9_'.]+)\s*\.", _strip_comments(open(src).read()), re.M)
    # coqc prints, per Print Assumptions, either "Closed under the global context" or "Axioms:\n name : type ..."
    blocks = re.split(r"(?=Closed under the global context|^Axioms:)", p.stdout, flags=re.M)
    blocks = [b for b in blocks if b.startswith("Closed under") or b.startswith("Axioms:")]
    for i, nm in enumerate(names):
        if i < len(blocks):
            b = blocks[i]
            if b.startswith("Closed"):
                theorems[nm] = "closed"
            else:
                axs = re.findall(r"^([A-Za-z0-9_'.]+)\s*:", b, re.M)
                theorems[nm] = [a for a in axs if a != "Axioms"]
        else:
            theorems[nm] = "missing-output"
    return {"ok": p.returncode == 0, "theorems": theorems, "log": out[-4000:]}


def coqchk(pid: str, timeout: int = 1500) -> Dict[str, Any]:
    """Re-check Props/<pid>.vo and everything it depends on with the independent checker; `-o` prints the context
    summary (axioms, type-in-type, unsafe fixpoints, assumed positivity).  Serialised (memory: up to ~4 GB per run)."""
    import fcntl
    t0 = time.time()
    lockf = open(os.path.join(COQ, ".coqchk.lock"), "w")
    try:
        fcntl.flock(lockf, fcntl.LOCK_EX)
        with _lock(False):
            p = subprocess.run(["timeout", str(timeout), "coqchk", "-silent", "-o", "-Q", COQ, "DS", f"DS.Props.{pid}"],
                               capture_output=True, text=True, cwd=COQ)
    finally:
        lockf.close()
    out = p.stdout + p.stderr
    summary: Dict[str, Any] = {}
    for key, label in (("axioms", "Axioms"), ("type_in_type", "Constants/Inductives relying on type-in-type"),
                       ("unsafe_fix", "Constants/Inductives relying on unsafe (co)fixpoints"),
                       ("assumed_positivity", "Inductives whose positivity is assumed")):
        m = re.search(r"\* " + re.escape(label) + r":(.*?)(?=\n\* |\Z)", out, re.S)
        if m is None:
            summary[key] = "missing-output"
        else:
            body = m.group(1).strip()
            summary[key] = [] if body == "<none>" else [ln.strip() for ln in body.splitlines() if ln.strip()]
    return {"ok": p.returncode == 0 and "CONTEXT SUMMARY" in out, "summary": summary, "wall_s": time.time() - t0, "log": out[-3000:]}


def coq_eval(requires: Iterable[str], exprs: List[str], preamble: str = "", timeout: int = 600,
             chunk: int = 400) -> List[Any]:
    """Evaluate each expression with vm_compute inside Coq; return the parsed values.

    `requires` are logical module names (e.g. "DS.Model.Prune"). Expressions are split into files of
    `chunk` evaluations compiled in parallel.
    """
    if not exprs:
        return []
    header = "From Coq Require Import ZArith NArith QArith List String Ascii Bool.\nImport ListNotations.\n"
    for r in requires:
        header += f"Require Import {r}.\n"
    header += "Set Printing Width 10000000.\nSet Printing Depth 10000000.\nOpen Scope string_scope.\nOpen Scope Z_scope.\n" + preamble + "\n"
    results: List[Any] = [None] * len(exprs)
    with _lock(False):
        with tempfile.TemporaryDirectory(prefix="dsverif-eval-") as td:
            jobs = []
            for ci, start in enumerate(range(0, len(exprs), chunk)):
                path = os.path.join(td, f"cases_{ci}.v")
                with open(path, "w") as f:
                    f.write(header)
                    for e in exprs[start:start + chunk]:
                        f.write(f"Eval vm_compute in ({e}).\n")
                jobs.append((start, path))
            procs = []
            running: List[Tuple[int, str, subprocess.Popen, Any, Any]] = []

            def reap(block: bool) -> None:
                for item in list(running):
                    st, pth, pr, fo, fe = item
                    if block:
                        pr.wait()
                    if pr.poll() is not None:
                        running.remove(item)
                        fo.seek(0)
                        fe.seek(0)
                        procs.append((st, pth, pr.returncode, fo.read(), fe.read()))
                        fo.close()
                        fe.close()

            for start, path in jobs:
                while len(running) >= JOBS:
                    reap(False)
                    time.sleep(0.02)
                # stdout/stderr go to files: a PIPE would block coqc once a chunk prints more than the pipe buffer
                fo = open(path + ".out", "w+")
                fe = open(path + ".err", "w+")
                pr = subprocess.Popen(
                    ["bash", "-c", f"ulimit -s unlimited 2>/dev/null; exec timeout {timeout} coqc -Q {COQ} DS -w -notation-overridden {path}"],
                    stdout=fo, stderr=fe, text=True, cwd=td,
                )
                running.append((start, path, pr, fo, fe))
            while running:
                reap(True)
            for start, path, rc, out, err in procs:
                if rc != 0:
                    raise RuntimeError(f"coq_eval failed (rc={rc}): {err[-3000:]}\n--- file: {open(path).read()[:3000]}")
                vals = _split_eval_output(out)
                n = min(chunk, len(exprs) - start)
                if len(vals) != n:
                    raise RuntimeError(f"coq_eval: expected {n} results, got {len(vals)}: {out[:2000]}")
                for k, v in enumerate(vals):
                    results[start + k] = coqio.parse_coq(v)
    return results


def _split_eval_output(out: str) -> List[str]:
    vals: List[str] = []
    cur: Optional[List[str]] = None
    for line in out.splitlines():
        if line.startswith("     = "):
            if cur is not None:
                vals.append("\n".join(cur))
            cur = [line[7:]]
        elif line.startswith("     : "):
            if cur is not None:
                vals.append("\n".join(cur))
                cur = None
        elif cur is not None:
            cur.append(line)
    if cur is not None:
        vals.append("\n".join(cur))
    return vals
