"""File-system fixtures for C17: symlink trees materialised on disk AND rendered for Model/Path.v,
the exhaustive path grammar, a kernel-based locator (independent of os.path.realpath and of the
library), an audit hook recording every path the interpreter opens / lists / removes / renames, and
a fingerprint of everything outside the table root.

Component codes shared with coq/Model/Path.v:   0 ""   1 "."   2 ".."   3 "data"   4 "metadata"
names from 5 upwards are allocated per workspace (Codes).
"""
from __future__ import annotations

import hashlib
import itertools
import os
import shutil
import stat
import sys
import threading
from typing import Any, Callable, Dict, Iterable, List, Optional, Sequence, Tuple

RESERVED = {"": 0, ".": 1, "..": 2, "data": 3, "metadata": 4}


class Codes:
    """Bijection component string <-> Z code (stable within one run)."""

    def __init__(self) -> None:
        self.by_name: Dict[str, int] = dict(RESERVED)
        self.by_code: Dict[int, str] = {v: k for k, v in RESERVED.items()}

    def code(self, name: str) -> int:
        if name not in self.by_name:
            n = len(self.by_name)
            self.by_name[name] = n
            self.by_code[n] = name
        return self.by_name[name]

    def pstr(self, s: str) -> List[int]:
        """A path STRING as the model sees it: s.split('/') coded."""
        return [self.code(c) for c in s.split("/")]

    def loc(self, abs_path: str) -> List[int]:
        """A canonical absolute location: names only, root = []."""
        return [self.code(c) for c in abs_path.split("/") if c]

    def unloc(self, codes: Sequence[int]) -> str:
        return "/" + "/".join(self.by_code[c] for c in codes)

    def unpstr(self, codes: Sequence[int]) -> str:
        return "/".join(self.by_code[c] for c in codes)


def coq_list(xs: Iterable[int]) -> str:
    return "[" + "; ".join(str(x) for x in xs) + "]"


# ------------------------------------------------------------------------------------------ trees
# A tree spec is a list of (relative path under the workspace, kind, payload):
#   ("wh/tbl/data", "dir", None) ("wh/tbl/x", "file", b"..") ("wh/tbl/ln_out", "link", "<target string>")
Spec = List[Tuple[str, str, Any]]

ROOT_NAME = "tbl"
SIB_NAME = "tbl2"          # sibling whose name has the root's name as a string prefix


def standard_spec(ws: str) -> Spec:
    """The C17 arrangement: real root <ws>/wh/tbl, a sibling <ws>/wh/tbl2, an outside tree <ws>/out,
    a symlink <ws>/wh/lnroot -> tbl (root reached through a link), and inside the root links pointing
    inside (relative), outside (absolute), to '..', to the sibling (relative, through '..'), a self loop,
    a two-link cycle and a link to an absolute inside location."""
    out = os.path.join(ws, "out")
    return [
        ("wh", "dir", None),
        ("wh/tbl", "dir", None),
        ("wh/tbl/data", "dir", None),
        ("wh/tbl/data/f.parquet", "file", b"INSIDE-DATA"),
        ("wh/tbl/data/sub", "dir", None),
        ("wh/tbl/data/sub/g.parquet", "file", b"INSIDE-SUB"),
        ("wh/tbl/metadata", "dir", None),
        ("wh/tbl/metadata/m.json", "file", b"{}"),
        ("wh/tbl/x", "file", b"INSIDE-X"),
        ("wh/tbl/ln_in", "link", "data"),
        ("wh/tbl/ln_abs", "link", os.path.join(ws, "wh", "tbl", "metadata")),
        ("wh/tbl/ln_out", "link", out),
        ("wh/tbl/ln_up", "link", ".."),
        ("wh/tbl/ln_sib", "link", "../" + SIB_NAME),
        ("wh/tbl/ln_loop", "link", "ln_loop"),
        ("wh/tbl/ln_c1", "link", "ln_c2"),
        ("wh/tbl/ln_c2", "link", "ln_c1/x"),
        ("wh/tbl/data/ln_file", "link", os.path.join(out, "secret.txt")),
        ("wh/tbl/data/ln_dir", "link", out),
        ("wh/" + SIB_NAME, "dir", None),
        ("wh/" + SIB_NAME + "/secret.txt", "file", b"SIBLING-SECRET"),
        ("wh/" + SIB_NAME + "/data", "dir", None),
        ("wh/" + SIB_NAME + "/data/f.parquet", "file", b"SIBLING-DATA"),
        ("wh/lnroot", "link", ROOT_NAME),
        ("out", "dir", None),
        ("out/secret.txt", "file", b"OUTSIDE-SECRET"),
        ("out/data", "dir", None),
        ("out/data/f.parquet", "file", b"OUTSIDE-DATA"),
        ("out/metadata", "dir", None),
        ("out/x", "file", b"OUTSIDE-X"),
    ]


def acyclic_spec(ws: str) -> Spec:
    """A second arrangement WITHOUT any cycle (no self loop, no link to an ancestor), so that even a walk that
    follows links terminates and its result can be judged: directory links at depth >= 1 below the listed
    prefixes pointing OUT of the root (absolute, and relative to the sibling), an inward directory link, an
    outward file link, nested foreign directories, and the in-flight marker directory reached through an
    outward link."""
    out = os.path.join(ws, "out")
    return [
        ("wh", "dir", None),
        ("wh/tbl", "dir", None),
        ("wh/tbl/data", "dir", None),
        ("wh/tbl/data/f.parquet", "file", b"INSIDE-DATA"),
        ("wh/tbl/data/part", "dir", None),
        ("wh/tbl/data/part/a.parquet", "file", b"INSIDE-PART"),
        ("wh/tbl/data/ext", "link", out),                                   # outward DIRECTORY link below data
        ("wh/tbl/data/part/deep", "link", os.path.join(out, "nested")),      # ... and two levels down
        ("wh/tbl/data/sibl", "link", "../../" + SIB_NAME),                   # relative, to the sibling-prefix directory
        ("wh/tbl/data/hot", "link", "part"),                                 # inward directory link
        ("wh/tbl/data/ln_file", "link", os.path.join(out, "secret.txt")),    # outward FILE link
        ("wh/tbl/metadata", "dir", None),
        ("wh/tbl/metadata/m.json", "file", b"{}"),
        ("wh/tbl/metadata/ext", "link", os.path.join(out, "metadata")),
        ("wh/tbl/x", "file", b"INSIDE-X"),
        ("wh/" + SIB_NAME, "dir", None),
        ("wh/" + SIB_NAME + "/secret.txt", "file", b"SIBLING-SECRET"),
        ("wh/" + SIB_NAME + "/data", "dir", None),
        ("wh/" + SIB_NAME + "/data/f.parquet", "file", b"SIBLING-DATA"),
        ("wh/lnroot", "link", ROOT_NAME),
        ("out", "dir", None),
        ("out/secret.txt", "file", b"OUTSIDE-SECRET"),
        ("out/nested", "dir", None),
        ("out/nested/deeper.bin", "file", b"OUTSIDE-DEEPER"),
        ("out/data", "dir", None),
        ("out/data/f.parquet", "file", b"OUTSIDE-DATA"),
        ("out/metadata", "dir", None),
        ("out/metadata/foreign.inflight", "file", b'{"file_path": "data/f.parquet"}'),
    ]


ACYCLIC_COMPONENTS = ["..", ".", "", "data", "metadata", "part", "ext", "hot", "sibl", "deep"]


def filelink_spec(ws: str) -> Spec:
    """A third arrangement, cycle-free: FILE symlinks inside the root, in every directory a table operation lists (data/,
    data/<partition>/, metadata/, metadata/manifests/, metadata/inflight/, the root itself).  os.walk(followlinks=False)
    REPORTS such a link among a directory's files (only directory links are not descended into), so a listing hands the
    link's name out although the name leads outside: outward absolute, outward relative, to the sibling-prefix directory,
    through a second link (inside link -> outward link), dangling outward (a write through it would CREATE a file outside),
    and -- as controls -- inward file links and regular files next to them."""
    out = os.path.join(ws, "out")
    return [
        ("wh", "dir", None),
        ("wh/tbl", "dir", None),
        ("wh/tbl/data", "dir", None),
        ("wh/tbl/data/f.parquet", "file", b"INSIDE-DATA"),
        ("wh/tbl/data/part", "dir", None),
        ("wh/tbl/data/part/a.parquet", "file", b"INSIDE-PART"),
        ("wh/tbl/data/ln_file", "link", os.path.join(out, "secret.txt")),              # outward, absolute
        ("wh/tbl/data/ln_rel", "link", "../../../out/secret.txt"),                      # outward, relative
        ("wh/tbl/data/ln_sib", "link", "../../" + SIB_NAME + "/secret.txt"),            # to the sibling-prefix directory
        ("wh/tbl/data/ln_chain", "link", "ln_file"),                                    # inside link -> outward link
        ("wh/tbl/data/ln_inside", "link", "f.parquet"),                                 # inward file link (control)
        ("wh/tbl/data/ln_dangling", "link", os.path.join(out, "not_there.bin")),        # dangling, outward
        ("wh/tbl/data/imported.parquet", "link", os.path.join(out, "pq", "leak.parquet")),
        ("wh/tbl/data/part/ln_deep", "link", os.path.join(out, "nested", "deeper.bin")),
        ("wh/tbl/data/ext", "link", out),                                               # an outward DIRECTORY link, for contrast
        ("wh/tbl/metadata", "dir", None),
        ("wh/tbl/metadata/m.json", "file", b"{}"),
        ("wh/tbl/metadata/ln_meta.json", "link", os.path.join(out, "metadata", "foreign.json")),
        ("wh/tbl/metadata/manifests", "dir", None),
        ("wh/tbl/metadata/manifests/ln_manifest.avro", "link", os.path.join(out, "metadata", "foreign.avro")),
        ("wh/tbl/metadata/inflight", "dir", None),
        ("wh/tbl/metadata/inflight/ln_marker.inflight", "link", os.path.join(out, "metadata", "foreign.inflight")),
        ("wh/tbl/x", "file", b"INSIDE-X"),
        ("wh/tbl/ln_x", "link", os.path.join(out, "x")),
        ("wh/" + SIB_NAME, "dir", None),
        ("wh/" + SIB_NAME + "/secret.txt", "file", b"SIBLING-SECRET"),
        ("wh/" + SIB_NAME + "/data", "dir", None),
        ("wh/" + SIB_NAME + "/data/f.parquet", "file", b"SIBLING-DATA"),
        ("wh/lnroot", "link", ROOT_NAME),
        ("out", "dir", None),
        ("out/secret.txt", "file", b"OUTSIDE-SECRET"),
        ("out/x", "file", b"OUTSIDE-X"),
        ("out/nested", "dir", None),
        ("out/nested/deeper.bin", "file", b"OUTSIDE-DEEPER"),
        ("out/pq", "dir", None),
        ("out/pq/leak.parquet", "file", b"OUTSIDE-PARQUET"),
        ("out/metadata", "dir", None),
        ("out/metadata/foreign.json", "file", b'{"foreign": true}'),
        ("out/metadata/foreign.avro", "file", b"OUTSIDE-AVRO"),
        ("out/metadata/foreign.inflight", "file", b'{"file_path": "data/f.parquet"}'),
    ]


FILELINK_COMPONENTS = ["..", "", "data", "metadata", "part", "ln_file", "ln_rel", "ln_chain", "ln_inside", "ln_dangling", "ln_x", "f.parquet"]


def entries_below(root: str, include_dir_links: bool = True) -> List[str]:
    """The harness's own enumeration (no library code) of what a listing of the root can hand out: every regular file and
    every symlink below `root`, relative to it, without following any link (directory links are named, not entered)."""
    out: List[str] = []
    for r, dirs, files in os.walk(root, followlinks=False):
        for n in sorted(files):
            out.append(os.path.relpath(os.path.join(r, n), root))
        if include_dir_links:
            for n in sorted(dirs):
                if os.path.islink(os.path.join(r, n)):
                    out.append(os.path.relpath(os.path.join(r, n), root))
    return sorted(out)


def materialise(ws: str, spec: Spec, only_under: Optional[str] = None) -> None:
    """Create the spec under ws. With only_under (a relative prefix) that subtree is wiped and rebuilt."""
    if only_under is None:
        if os.path.lexists(ws):
            shutil.rmtree(ws)
        os.makedirs(ws)
    else:
        top = os.path.join(ws, only_under)
        if os.path.islink(top) or os.path.isfile(top):
            os.remove(top)
        elif os.path.isdir(top):
            shutil.rmtree(top)
    for rel, kind, payload in spec:
        if only_under is not None and not (rel == only_under or rel.startswith(only_under + "/")):
            continue
        p = os.path.join(ws, rel)
        if kind == "dir":
            os.makedirs(p, exist_ok=True)
        elif kind == "file":
            with open(p, "wb") as f:
                f.write(payload)
        else:
            os.symlink(payload, p)


def spec_to_coq(ws: str, spec: Spec, codes: Codes) -> str:
    """The same tree as a Model/Path.v `tree` term (ancestors of the workspace are directories)."""
    ents: List[str] = []
    parts = [c for c in ws.split("/") if c]
    for i in range(1, len(parts) + 1):
        ents.append(f"({coq_list(codes.loc('/' + '/'.join(parts[:i])))}, Dir)")
    for rel, kind, payload in spec:
        loc = codes.loc(os.path.join(ws, rel))
        if kind == "dir":
            ents.append(f"({coq_list(loc)}, Dir)")
        elif kind == "file":
            ents.append(f"({coq_list(loc)}, File)")
        else:
            ents.append(f"({coq_list(loc)}, Link {coq_list(codes.pstr(payload))})")
    return "[" + "; ".join(ents) + "]"


def scan_spec(ws: str) -> Spec:
    """Read a materialised workspace back into a spec (used after the library mutated it)."""
    spec: Spec = []
    for root, dirs, files in os.walk(ws):
        for name in sorted(dirs + files):
            p = os.path.join(root, name)
            rel = os.path.relpath(p, ws)
            st = os.lstat(p)
            if stat.S_ISLNK(st.st_mode):
                spec.append((rel, "link", os.readlink(p)))
            elif stat.S_ISDIR(st.st_mode):
                spec.append((rel, "dir", None))
            else:
                spec.append((rel, "file", b""))
    spec.sort(key=lambda e: (e[0].count("/"), e[0]))
    return spec


# ------------------------------------------------------------------------------------------ grammar
GRAMMAR_COMPONENTS = ["..", ".", "", "data", "metadata", "x", "ln_in", "ln_out", "ln_up", SIB_NAME]
EXTRA_COMPONENTS = ["ln_loop", "ln_c1", "ln_sib", "ln_abs", "f.parquet", "secret.txt", "new", ROOT_NAME]


def grammar(depth: int, components: Sequence[str] = GRAMMAR_COMPONENTS) -> List[str]:
    """Every '/'.join of 1..depth components, with and without a leading '/'. Deduplicated, ordered."""
    seen: Dict[str, None] = {}
    for d in range(1, depth + 1):
        for combo in itertools.product(components, repeat=d):
            s = "/".join(combo)
            seen.setdefault(s)
            seen.setdefault("/" + s)
    return list(seen)


def absolute_spellings(ws: str) -> List[str]:
    """True absolute spellings of inside and outside targets (direct and through the symlinked root)."""
    t = os.path.join(ws, "wh", ROOT_NAME)
    l = os.path.join(ws, "wh", "lnroot")
    o = os.path.join(ws, "out")
    s = os.path.join(ws, "wh", SIB_NAME)
    outs = [
        t, t + "/", t + "/data/f.parquet", t + "/data/sub/g.parquet", t + "/metadata/m.json", t + "/x", t + "/new.parquet",
        t + "/ln_in/f.parquet", t + "/ln_out/secret.txt", t + "/ln_up/" + SIB_NAME + "/secret.txt", t + "/../" + SIB_NAME + "/secret.txt",
        t + "/ln_loop/../ln_out/secret.txt", t + "/ln_loop/../data/f.parquet", t + "/ln_loop", t + "/data/ln_file",
        l + "/data/f.parquet", l + "/ln_out/secret.txt", l + "/../" + SIB_NAME + "/secret.txt", l, l + "/x",
        o + "/secret.txt", o + "/data/f.parquet", o, s + "/secret.txt", s + "/data/f.parquet", s,
        "/etc/passwd", "/etc/../etc/passwd", "/", "//" + t.lstrip("/") + "/x", "/" + t + "/x",
        "/data" + t + "/x", "/data/" + "../" * 12 + "etc/passwd", "/metadata/../../" + SIB_NAME + "/secret.txt",
    ]
    return outs


def loop_spellings() -> List[str]:
    """Spellings that drive os.path.realpath into its give-up-on-a-loop branch."""
    base = ["ln_loop", "ln_c1", "ln_c2"]
    tails = ["", "/", "/x", "/..", "/../x", "/../data/f.parquet", "/../ln_out/secret.txt", "/../ln_up/" + SIB_NAME + "/secret.txt",
             "/../ln_sib/secret.txt", "/../data/ln_file", "/../data/ln_dir/secret.txt", "/../../" + SIB_NAME + "/secret.txt",
             "//etc/passwd", "//", "/./../ln_in/f.parquet", "/../ln_abs/m.json", "/../new", "/../ln_out", "/../ln_loop/../ln_out/secret.txt"]
    out = []
    for b in base:
        for t in tails:
            out.append(b + t)
            out.append("/" + b + t)
            out.append("data/../" + b + t)
    return out


def missing_then_up_spellings(max_k: int = 3, full: bool = False) -> List[str]:
    """Spellings in which k components that the kernel cannot walk -- names that do NOT EXIST, nested k deep, or a REGULAR
    FILE used as a directory -- are followed by enough '..' to cancel them (and the existing prefix they hang under)
    lexically, BEFORE a symlink name: '<prefix>/nope1/../..' + '/ln_out/secret.txt'.  To the kernel the string is
    ENOENT / ENOTDIR; a resolver that canonicalises only the part that exists and normalises the rest lexically sees
    '<root>/ln_out/secret.txt' and never looks at the link.  Over pathfs.standard_spec: every k in 1..max_k, below the root,
    below data/ and (full) below data/sub and through the inward link ln_in; targets: outward directory / file links (read,
    list, create, delete through them), the sibling-prefix link, and inside controls; table-relative and Iceberg-style."""
    targets = ["ln_out/secret.txt", "ln_out", "ln_out/new.bin", "data/ln_file", "data/ln_dir/secret.txt", "ln_sib/secret.txt"]
    controls = ["data/f.parquet"]
    if full:
        targets += ["ln_up/" + SIB_NAME + "/secret.txt", "ln_out/data/f.parquet", "ln_abs/../ln_out/x", "ln_loop/../ln_out/secret.txt"]
        controls += ["ln_in/f.parquet", "new.bin"]
    # (existing prefix under the root, its depth, what blocks the walk right below it)
    hangs = [("", 0, "nope"), ("", 0, "x"), ("data", 1, "nope"), ("data", 1, "f.parquet")]
    if full:
        hangs += [("data/sub", 2, "nope"), ("ln_in", 1, "nope"), ("metadata", 1, "m.json"), ("ln_in/sub", 2, "g.parquet")]
    seen: Dict[str, None] = {}
    for prefix, depth, blocker in hangs:
        for k in range(1, max_k + 1):
            walk = [blocker] + [f"nope{i}" for i in range(2, k + 1)]
            head = "/".join(([prefix] if prefix else []) + walk + [".."] * (k + depth))
            for t in targets + controls:
                seen.setdefault(head + "/" + t)
                if blocker == "nope" or full:
                    seen.setdefault("/" + head + "/" + t)
    return list(seen)


# ------------------------------------------------------------------------------------------ kernel locator
def kernel_locate(path: str, follow: bool = True) -> Optional[str]:
    """Canonical location of `path` as the KERNEL resolves it (O_PATH + /proc/self/fd), or None when the
    kernel cannot resolve it. follow=False: do not follow a final symlink (what unlink/rename/lstat address)."""
    if not follow:
        d, b = os.path.split(path.rstrip("/") or "/")
        if b in ("", ".", ".."):
            return kernel_locate(path, True)
        dl = kernel_locate(d or ".", True)
        return None if dl is None else os.path.join(dl, b)
    try:
        fd = os.open(path, os.O_PATH)
    except OSError:
        return None
    try:
        return os.readlink(f"/proc/self/fd/{fd}")
    finally:
        os.close(fd)


def kernel_target(path: str, follow: bool = True) -> Optional[str]:
    """Where an operation on `path` lands: the kernel location when it exists; for a missing final
    component (creation) the kernel location of the directory + the plain final name."""
    loc = kernel_locate(path, follow)
    if loc is not None:
        return loc
    d, b = os.path.split(path.rstrip("/") or "/")
    if b in ("", ".", ".."):
        return None
    dl = kernel_locate(d or ".", True)
    return None if dl is None else os.path.join(dl, b)


def under(root: str, loc: str) -> bool:
    """Component-wise containment of canonical locations."""
    r = [c for c in root.split("/") if c]
    l = [c for c in loc.split("/") if c]
    return l[:len(r)] == r


# ------------------------------------------------------------------------------------------ audit
NOFOLLOW_EVENTS = {"os.remove", "os.rename", "os.rmdir", "os.mkdir", "os.symlink", "os.link", "os.lchown", "os.unlink"}
WATCHED = {"open", "os.listdir", "os.scandir", "os.remove", "os.rename", "os.rmdir", "os.mkdir", "os.symlink", "os.link",
           "os.truncate", "os.chmod", "os.chown", "os.utime", "os.mkfifo", "os.mknod", "shutil.rmtree", "shutil.move",
           "shutil.copyfile", "os.unlink"}


class Audit:
    """Process-wide audit hook (sys.addaudithook cannot be removed; recording is switched on per call)."""

    _installed: Optional["Audit"] = None
    MAX_EVENTS = 4000

    def __init__(self) -> None:
        self.on = False
        self.owner = threading.get_ident()
        self.events: List[Tuple[str, str, Optional[str], str]] = []   # (event, path as given, kernel target at event time, cwd)

    @classmethod
    def get(cls) -> "Audit":
        if cls._installed is None:
            a = cls()
            sys.addaudithook(a._hook)
            cls._installed = a
        return cls._installed

    def _hook(self, event: str, args: Tuple[Any, ...]) -> None:
        if not self.on or event not in WATCHED:
            return
        if threading.get_ident() != self.owner:
            return                            # harness helper threads (watchdog) are not the library under test
        self.on = False                       # no recursion while we look at the path
        try:
            paths: List[Any] = []
            if event == "open":
                paths = [args[0]]
            elif event in ("os.rename", "os.link", "shutil.move", "shutil.copyfile"):
                paths = [args[0], args[1]]
            elif event == "os.symlink":
                paths = [args[1]]
            else:
                paths = [args[0]]
            for p in paths:
                if isinstance(p, int) or p is None:
                    continue                   # fd-based call: the fd was opened under audit already
                p = os.fsdecode(p)
                follow = event not in NOFOLLOW_EVENTS
                ap = os.path.abspath(p) if not os.path.isabs(p) else p
                tgt = kernel_target(ap, follow)
                if event == "os.mkdir" and os.path.lexists(ap):
                    continue                   # makedirs(exist_ok=True) probing an existing directory: no effect
                if event == "open" and tgt is not None and os.path.isdir(tgt) and not (len(args) > 2 and isinstance(args[2], int) and args[2] & os.O_DIRECTORY):
                    # open() of a directory as a file fails with EISDIR: nothing is read or written.
                    # (os.open(dir, O_RDONLY) for fsync succeeds but reads no content and lists nothing.)
                    continue
                if len(self.events) < self.MAX_EVENTS:     # a runaway walk must not exhaust memory through its own log
                    self.events.append((event, p, tgt, os.getcwd()))
        finally:
            self.on = True

    def record(self, fn: Callable[[], Any]) -> Tuple[Any, Optional[BaseException], List[Tuple[str, str, Optional[str], str]]]:
        self.events = []
        self.owner = threading.get_ident()
        self.on = True
        try:
            try:
                res = fn()
                exc: Optional[BaseException] = None
            except Exception as e:            # noqa: BLE001 - the outcome is data
                res, exc = None, e
        finally:
            self.on = False
        self.last = (res, exc, list(self.events))
        return res, exc, list(self.events)


def ignored_prefixes() -> List[str]:
    """Locations the interpreter itself reads (imports, /proc, /dev): never a property matter."""
    outs = {os.path.realpath(p) for p in (sys.prefix, sys.base_prefix, sys.exec_prefix) if p}
    for p in sys.path:
        if p and os.path.isdir(p):
            outs.add(os.path.realpath(p))
    outs.update({"/proc", "/dev", "/sys"})
    return sorted(outs)


# ------------------------------------------------------------------------------------------ fingerprint
def fingerprint(ws: str, exclude_under: str) -> Dict[str, Tuple[Any, ...]]:
    """kind / content hash / mtime_ns / size / link target of everything in ws outside `exclude_under`
    (the canonical root), including the directories (a file created next to the root changes its parent)."""
    fp: Dict[str, Tuple[Any, ...]] = {}

    def visit(p: str) -> None:
        st = os.lstat(p)
        if stat.S_ISLNK(st.st_mode):
            fp[p] = ("link", os.readlink(p))
        elif stat.S_ISDIR(st.st_mode):
            names = sorted(os.listdir(p))
            fp[p] = ("dir", tuple(names), st.st_mtime_ns)
            for n in names:
                c = os.path.join(p, n)
                if c == exclude_under:
                    fp[c] = ("root",)
                    continue
                visit(c)
        else:
            with open(p, "rb") as f:
                h = hashlib.sha256(f.read()).hexdigest()
            fp[p] = ("file", h, st.st_mtime_ns, st.st_size)

    visit(ws)
    return fp


def fingerprint_diff(a: Dict[str, Tuple[Any, ...]], b: Dict[str, Tuple[Any, ...]]) -> List[str]:
    out = []
    for k in sorted(set(a) | set(b)):
        if a.get(k) != b.get(k):
            out.append(f"{k}: {a.get(k)} -> {b.get(k)}")
    return out
