"""Process topologies for the local commit lock (property C19).

harness/lib/lockruns.py runs FileLock's contenders as threads of ONE process (syscall granularity, virtual clock).  What
a lock on the local filesystem means, however, depends on the PROCESS a handle lives in and on how that process came
into being: a BSD flock belongs to the open file description, and a process created by fork() shares every description
its parent had open at that moment (coq/Model/ProcLock.v).  Here a schedule is a list of events over REAL OS processes:

    ["spawn", p]           a separate process p: forked from a pristine server process that never built a lock handle,
                           so p starts with no handle object and no descriptor of the lock file
    ["new", p, h]          p builds lock handle h the way a table does: LocalStorageBackend(root).create_lock(...)
    ["acq", p, h]          p calls handle h's acquire() (blocking, the handle's configured timeout)
    ["rel", p, h]          p calls handle h's release()
    ["fork", p, q]         p forks q: q inherits a copy of every handle OBJECT of p and every open descriptor of p
    ["kill", p]            SIGKILL           ["exit", p]   os._exit(0) without releasing anything

(p, h) is a handle in a process; after ["fork", p, q] the handle (q, h) is the inherited copy of (p, h).  Every event is
one whole library call in one process (the calls of one FileLock are atomic here; their interleaving at primitive
granularity is lockruns.py's matter), executed in schedule order, so a run is deterministic up to wall-clock noise.

Inside every process the primitives FileLock performs on its lock file (os.open / fcntl.flock / os.close in
datashard.file_lock's namespace) are logged with the REAL kernel's answers; `project` turns the log into an event list of
coq/Model/ProcLock.v + ProcFork.v (handles, process topology, one PFork per fork() naming the copy of EVERY handle of the
forking process -- the whole descriptor table --, LKill per death).

Oracles (implementation only; `problems`), judged after every event.  An ACQUISITION begins when some acquire() returns
True; its members are the handle that acquired plus every copy of it made by a fork while it was held (fork(2) duplicates
a holder: the copies are one holder in two processes, not two acquisitions); it is over when a member calls release() or
when every member's process is dead.  After a release through one member the other members' copied flags are not judged
(that is fork(2) copying `_locked`, assumption shared with C01's `forks_quiescent`).
    proc-acquire-while-held     acquire() returned True while another acquisition was live          (mutual exclusion; a
                                blocked acquirer never reports success while another holder is live)
    proc-two-holders            handles of two different live acquisitions report is_held()
    proc-held-without-acquire   is_held() True on a handle that never acquired / inherited a live acquisition
    proc-held-but-kernel-free   a live acquisition exists but an outsider can flock the file          (reports a lock not held)
    proc-lock-stuck             no live acquisition, no live process claims the lock, yet the kernel still refuses
                                an outsider (a holder's death / release did not free it)
    proc-free-lock-timeout      acquire() raised TimeoutError although no acquisition was live      (death frees the lock)
    proc-timeout-bounds         TimeoutError earlier than the timeout or later than timeout + poll + scheduling allowance
    proc-acquire-bad-outcome    blocking acquire() returned a non-True value or raised something else
"""
from __future__ import annotations

import multiprocessing as mp
import os
import shutil
import signal
import tempfile
import time
from multiprocessing.connection import Client, Listener
from typing import Any, Dict, List, Optional, Set, Tuple

LOCK_REL = ".locks/metadata.lock"
TIMEOUT_S = 0.03
POLL_S = 0.01
LATE_ALLOWANCE_S = 2.0         # OS scheduling noise on a loaded machine (upper bound only)
ANSWER_S = 60.0


# ================================================================================================ process side
_TRACE: List[Dict[str, Any]] = []      # primitives on the lock file by this process since its last reply
_CUR: List[Any] = [None]               # the handle whose call is being executed
_LOCKFDS: Set[int] = set()             # descriptors of the lock file open in this process (own or inherited)


class _OsProxy:
    def __init__(self, real: Any):
        self._real = real

    def __getattr__(self, name: str) -> Any:
        return getattr(self._real, name)

    def open(self, path: Any, flags: int, *a: Any, **kw: Any) -> int:
        known = flags == (self._real.O_CREAT | self._real.O_RDWR) and not a and not kw
        try:
            fd = self._real.open(path, flags, *a, **kw)
        except OSError:
            _TRACE.append({"handle": _CUR[0], "prim": "open", "fd": None, "ok": False, "known": known})
            raise
        _LOCKFDS.add(fd)
        _TRACE.append({"handle": _CUR[0], "prim": "open", "fd": fd, "ok": True, "known": known})
        return fd

    def close(self, fd: int) -> None:
        self._real.close(fd)
        if fd in _LOCKFDS:
            _LOCKFDS.discard(fd)
            _TRACE.append({"handle": _CUR[0], "prim": "close", "fd": fd, "ok": True, "known": True})

    def unlink(self, path: Any, *a: Any, **kw: Any) -> None:
        self._real.unlink(path, *a, **kw)
        _TRACE.append({"handle": _CUR[0], "prim": "unlink", "fd": None, "ok": True, "known": False})

    remove = unlink


class _FcntlProxy:
    def __init__(self, real: Any):
        self._real = real

    def __getattr__(self, name: str) -> Any:
        return getattr(self._real, name)

    def flock(self, fd: int, op: int) -> None:
        if fd not in _LOCKFDS:
            return self._real.flock(fd, op)
        if op == (self._real.LOCK_EX | self._real.LOCK_NB):
            try:
                self._real.flock(fd, op)
            except OSError:
                _TRACE.append({"handle": _CUR[0], "prim": "trylock", "fd": fd, "ok": False, "known": True})
                raise
            _TRACE.append({"handle": _CUR[0], "prim": "trylock", "fd": fd, "ok": True, "known": True})
        elif op == self._real.LOCK_UN:
            self._real.flock(fd, op)
            _TRACE.append({"handle": _CUR[0], "prim": "unlock", "fd": fd, "ok": True, "known": True})
        else:
            _TRACE.append({"handle": _CUR[0], "prim": f"flock({op})", "fd": fd, "ok": None, "known": False})
            self._real.flock(fd, op)

    def lockf(self, fd: int, op: int, *a: Any) -> Any:
        _TRACE.append({"handle": _CUR[0], "prim": f"lockf({op})", "fd": fd, "ok": None, "known": False})
        return self._real.lockf(fd, op, *a)

    def fcntl(self, fd: int, cmd: int, *a: Any) -> Any:
        _TRACE.append({"handle": _CUR[0], "prim": f"fcntl({cmd})", "fd": fd, "ok": None, "known": False})
        return self._real.fcntl(fd, cmd, *a)


def _install() -> None:
    import fcntl as _fcntl
    import logging
    import warnings
    import datashard.file_lock as FL
    import datashard.lock_provider  # noqa: F401
    import datashard.storage_backend  # noqa: F401
    logging.disable(logging.CRITICAL)
    warnings.filterwarnings("ignore", category=DeprecationWarning)
    FL.os = _OsProxy(os)
    FL.fcntl = _FcntlProxy(_fcntl)


def _state(handles: Dict[Any, Any]) -> Dict[str, Any]:
    held = {}
    for h, pv in handles.items():
        try:
            held[h] = bool(pv.is_held())
        except BaseException as e:      # noqa: BLE001
            held[h] = "raised " + repr(e)[:100]
    return {"held": held, "nfds": len(_LOCKFDS)}


def _proc_main(addr: str, name: Any, handles: Dict[Any, Any]) -> None:
    """One process of a family: executes one command at a time; a "fork" command forks a child that goes on in this very
    function with copies of `handles` (and of every open descriptor).  Never returns."""
    import traceback
    try:
        signal.signal(signal.SIGCHLD, signal.SIG_IGN)      # children are reaped by the kernel
        conn = Client(addr, family="AF_UNIX")
        conn.send(("hello", name, os.getpid()))
    except BaseException:      # noqa: BLE001
        os._exit(3)
    while True:
        try:
            msg = conn.recv()
        except BaseException:      # noqa: BLE001 - the harness is gone
            os._exit(0)
        cmd = msg[0]
        out: Tuple[Any, ...] = ("ok",)
        try:
            if cmd == "new":
                _c, h, root, timeout_s = msg
                from datashard.storage_backend import LocalStorageBackend
                handles[h] = LocalStorageBackend(root).create_lock(LOCK_REL, timeout=timeout_s)
            elif cmd == "acq":
                _CUR[0] = msg[1]
                pv = handles[msg[1]]
                t0 = time.monotonic()
                try:
                    r = pv.acquire()
                    res: Tuple[Any, ...] = ("returned", r if isinstance(r, (bool, int, type(None))) else repr(r))
                except TimeoutError:
                    res = ("timeout",)
                except BaseException as e:      # noqa: BLE001
                    res = ("raised", repr(e)[:200])
                out = ("ok", res, time.monotonic() - t0)
            elif cmd == "rel":
                _CUR[0] = msg[1]
                try:
                    handles[msg[1]].release()
                    out = ("ok", ("returned", None))
                except BaseException as e:      # noqa: BLE001
                    out = ("ok", ("raised", repr(e)[:200]))
            elif cmd == "state":
                pass
            elif cmd == "fork":
                pid = os.fork()
                if pid == 0:
                    try:
                        conn.close()
                        _TRACE.clear()
                        _CUR[0] = None
                        _proc_main(addr, msg[1], handles)
                    finally:
                        os._exit(4)
                out = ("ok", pid)
            elif cmd == "exit":
                os._exit(0)
            else:
                out = ("error", f"unknown command {cmd!r}")
        except BaseException:      # noqa: BLE001
            out = ("error", traceback.format_exc()[-1200:])
        _CUR[0] = None
        tr = list(_TRACE)
        _TRACE.clear()
        try:
            conn.send(out + (tr, _state(handles)))
        except BaseException:      # noqa: BLE001
            os._exit(0)


def _server_main(addr: str) -> None:
    """The pristine process every separate process of every case is forked from: the library is imported and the lock-file
    primitives are traced, but no handle is ever built and no descriptor of a lock file is ever open here."""
    _install()
    _proc_main(addr, "server", {})


# ================================================================================================ harness side
class HarnessFailure(Exception):
    pass


class Pool:
    """Listener + the pristine server process, shared by all cases of a check run."""

    def __init__(self, scratch: str):
        d = tempfile.mkdtemp(prefix="lp-", dir=scratch)
        if len(d) > 80:
            d = tempfile.mkdtemp(prefix="lp-")
        self.dir = d
        self.addr = os.path.join(d, "s")
        self.listener = Listener(self.addr, family="AF_UNIX", backlog=16)
        self.listener._listener._socket.settimeout(ANSWER_S)      # type: ignore[attr-defined]
        ctx = mp.get_context("spawn")
        self.process = ctx.Process(target=_server_main, args=(self.addr,), name="lockprocs-server", daemon=True)
        self.process.start()
        self.server = self.accept("server")

    def accept(self, want: Any) -> Tuple[Any, int]:
        try:
            conn = self.listener.accept()
        except Exception as e:      # noqa: BLE001
            raise HarnessFailure(f"process {want!r} did not connect: {e!r}")
        if not conn.poll(ANSWER_S):
            raise HarnessFailure(f"process {want!r} connected but did not say hello")
        hello = conn.recv()
        if hello[0] != "hello" or hello[1] != want:
            raise HarnessFailure(f"expected hello from {want!r}, got {hello!r}")
        return conn, hello[2]

    def close(self) -> None:
        try:
            self.server[0].close()
        except Exception:      # noqa: BLE001
            pass
        self.process.join(2)
        if self.process.is_alive():
            self.process.kill()
            self.process.join(2)
        try:
            self.listener.close()
        except Exception:      # noqa: BLE001
            pass
        shutil.rmtree(self.dir, ignore_errors=True)


def _call(conn: Any, msg: tuple, who: Any) -> tuple:
    try:
        conn.send(msg)
        if not conn.poll(ANSWER_S):
            raise HarnessFailure(f"process {who!r} did not answer {msg[0]!r} within {ANSWER_S:.0f}s")
        r = conn.recv()
    except (EOFError, OSError, BrokenPipeError) as e:
        raise HarnessFailure(f"process {who!r} died during {msg[0]!r}: {e!r}")
    if r[0] == "error":
        raise HarnessFailure(f"process {who!r} failed during {msg[0]!r}: {r[1]}")
    return r


def _gone(pid: int) -> bool:
    """The process has released its descriptors: it is a zombie or does not exist any more."""
    try:
        with open(f"/proc/{pid}/stat") as f:
            s = f.read()
        return s[s.rindex(")") + 2] in "ZX"
    except (OSError, ValueError, IndexError):
        return True


class FamilyRun:
    def __init__(self, pool: Pool, scratch: str, timeout_s: float = TIMEOUT_S, probe: bool = True):
        self.pool = pool
        self.root = tempfile.mkdtemp(prefix="procs-", dir=scratch)
        self.path = os.path.join(self.root, LOCK_REL)
        self.timeout_s = timeout_s
        self.probe = probe
        self.procs: Dict[Any, Dict[str, Any]] = {}       # name -> {"conn", "pid", "alive", "handles": set, "parent"}
        self.claim: Dict[Tuple[Any, Any], Any] = {}      # (p, h) -> acquisition id | "stale" | None
        self.acqs: Dict[int, Dict[str, Any]] = {}        # id -> {"members": set, "over": bool, "by": (p, h)}
        self.obs: List[Tuple[Any, ...]] = []
        self.problems: List[Dict[str, Any]] = []
        self.locklog: List[Dict[str, Any]] = []
        self.stats = {"ok": 0, "timeout": 0, "forks": 0, "deaths": 0, "probes": 0, "processes": 0}
        self.nfds: Dict[Any, int] = {}
        self._closed = False

    # ---------------------------------------------------------------- bookkeeping
    def _live_acqs(self) -> List[int]:
        return [i for i, a in self.acqs.items() if not a["over"] and a["members"]]

    def _absorb(self, p: Any, r: tuple) -> None:
        tr, st = r[-2], r[-1]
        pid = self.procs[p]["pid"]
        for e in tr:
            e = dict(e)
            e["actor"] = str(p)
            e["pid"] = pid
            self.locklog.append(e)
        self.procs[p]["held"] = dict(st["held"])
        self.nfds[p] = st["nfds"]

    def _dead(self, p: Any) -> None:
        pr = self.procs[p]
        pr["alive"] = False
        self.stats["deaths"] += 1
        t0 = time.time()
        while not _gone(pr["pid"]):
            if time.time() - t0 > 20:
                raise HarnessFailure(f"process {p!r} (pid {pr['pid']}) still there 20 s after its death")
            time.sleep(0.001)
        try:
            pr["conn"].close()
        except Exception:      # noqa: BLE001
            pass
        self.locklog.append({"actor": None, "pid": pr["pid"], "handle": None, "prim": "kill", "fd": None, "ok": True, "known": True})
        self.nfds[p] = 0
        for key in [k for k in self.claim if k[0] == p]:
            c = self.claim.pop(key)
            if isinstance(c, int):
                a = self.acqs[c]
                a["members"].discard(key)
                if not a["members"]:
                    a["over"] = True

    def _ok(self, p: Any) -> bool:
        return p in self.procs and self.procs[p]["alive"]

    # ---------------------------------------------------------------- events
    def event(self, ev: List[Any]) -> Tuple[Any, ...]:
        k = ev[0]
        out: Tuple[Any, ...] = ("nop",)
        if k == "spawn":
            p = ev[1]
            if p not in self.procs:
                r = _call(self.pool.server[0], ("fork", p), "server")
                conn, pid = self.pool.accept(p)
                self.procs[p] = {"conn": conn, "pid": pid, "alive": True, "handles": set(), "held": {}, "parent": None}
                self.stats["processes"] += 1
                out = ("spawn", p)
        elif k == "new":
            p, h = ev[1], ev[2]
            if self._ok(p) and h not in self.procs[p]["handles"]:
                r = _call(self.procs[p]["conn"], ("new", h, self.root, self.timeout_s), p)
                self.procs[p]["handles"].add(h)
                self._absorb(p, r)
                out = ("new", p, h)
        elif k == "acq":
            p, h = ev[1], ev[2]
            # an acquire through a handle that already reports is_held() (re-entrant use of one FileLock) is not generated
            if self._ok(p) and h in self.procs[p]["handles"] and self.procs[p]["held"].get(h) is not True:
                out = self._acq(p, h, ev)
        elif k == "rel":
            p, h = ev[1], ev[2]
            if self._ok(p) and h in self.procs[p]["handles"]:
                r = _call(self.procs[p]["conn"], ("rel", h), p)
                self._absorb(p, r)
                c = self.claim.get((p, h))
                if isinstance(c, int):
                    a = self.acqs[c]
                    a["over"] = True
                    for m in a["members"]:
                        if m != (p, h):
                            self.claim[m] = "stale"       # a copy of the flag made by fork(2); the acquisition is released
                    a["members"] = set()
                self.claim[(p, h)] = None
                out = ("rel", p, h) + tuple(r[1])
        elif k == "fork":
            p, q = ev[1], ev[2]
            if self._ok(p) and q not in self.procs:
                r = _call(self.procs[p]["conn"], ("fork", q), p)
                conn, pid = self.pool.accept(q)
                if pid != r[1]:
                    raise HarnessFailure(f"fork of {q!r}: pid {r[1]} forked, pid {pid} connected")
                self._absorb(p, r)
                self.procs[q] = {"conn": conn, "pid": pid, "alive": True, "handles": set(self.procs[p]["handles"]),
                                 "held": dict(self.procs[p]["held"]), "parent": p}
                self.nfds[q] = self.nfds.get(p, 0)
                self.locklog.append({"actor": None, "pid": self.procs[p]["pid"], "handle": None, "prim": "fork", "child": pid,
                                     "fd": None, "ok": True, "known": True})
                for h in self.procs[p]["handles"]:
                    c = self.claim.get((p, h))
                    self.claim[(q, h)] = c
                    if isinstance(c, int):
                        self.acqs[c]["members"].add((q, h))
                self.stats["forks"] += 1
                self.stats["processes"] += 1
                out = ("fork", p, q)
        elif k in ("kill", "exit"):
            p = ev[1]
            if self._ok(p):
                if k == "kill":
                    os.kill(self.procs[p]["pid"], signal.SIGKILL)
                else:
                    try:
                        self.procs[p]["conn"].send(("exit",))
                    except (OSError, BrokenPipeError):
                        pass
                self._dead(p)
                out = (k, p)
        else:
            raise ValueError(f"unknown event {ev!r}")
        self.obs.append(out)
        if out[0] != "nop":
            self._state_oracle(ev)
        return out

    def _acq(self, p: Any, h: Any, ev: List[Any]) -> Tuple[Any, ...]:
        live = self._live_acqs()
        mine = self.claim.get((p, h))
        r = _call(self.procs[p]["conn"], ("acq", h), p)
        self._absorb(p, r)
        res, el = r[1], r[2]
        if res[0] == "returned" and res[1] is True:
            self.stats["ok"] += 1
            others = [i for i in live if i != mine]
            if others:
                holders = sorted(str(m) for i in others for m in self.acqs[i]["members"])
                self.problems.append({"oracle": "proc-acquire-while-held", "acquirer": [p, h], "live_holders": holders, "after": ev,
                                      "what": "acquire() returned True while another process / handle was a live holder"})
            if not isinstance(mine, int) or mine not in live:
                i = len(self.acqs)
                self.acqs[i] = {"members": {(p, h)}, "over": False, "by": (p, h)}
                self.claim[(p, h)] = i
            return ("acq", p, h, "ok")
        if res[0] == "timeout":
            self.stats["timeout"] += 1
            if not live:
                self.problems.append({"oracle": "proc-free-lock-timeout", "acquirer": [p, h], "after": ev, "elapsed_s": round(el, 3),
                                      "what": "TimeoutError although no holder is live (every holder released or died)"})
            if el < self.timeout_s or el > self.timeout_s + POLL_S + LATE_ALLOWANCE_S:
                self.problems.append({"oracle": "proc-timeout-bounds", "acquirer": [p, h], "after": ev, "elapsed_s": round(el, 4),
                                      "timeout_s": self.timeout_s})
            return ("acq", p, h, "timeout")
        self.problems.append({"oracle": "proc-acquire-bad-outcome", "acquirer": [p, h], "after": ev, "outcome": list(res)})
        return ("acq", p, h, "other")

    # ---------------------------------------------------------------- oracle on the state after each event
    def _refresh(self) -> None:
        for p, pr in self.procs.items():
            if pr["alive"]:
                self._absorb(p, _call(pr["conn"], ("state",), p))

    def _state_oracle(self, ev: List[Any]) -> None:
        self._refresh()
        live = self._live_acqs()
        claimed: Dict[int, List[str]] = {}
        stale_alive = False
        for p, pr in self.procs.items():
            if not pr["alive"]:
                continue
            for h, v in pr["held"].items():
                c = self.claim.get((p, h))
                if c == "stale":
                    stale_alive = stale_alive or bool(v)
                    continue
                if v is True:
                    if isinstance(c, int) and c in live:
                        claimed.setdefault(c, []).append(f"{p}.{h}")
                    else:
                        self.problems.append({"oracle": "proc-held-without-acquire", "handle": [p, h], "after": ev,
                                              "what": "is_held() True on a handle that holds no live acquisition"})
                elif v is not False:
                    self.problems.append({"oracle": "proc-acquire-bad-outcome", "handle": [p, h], "after": ev, "is_held": v})
        if len(claimed) > 1:
            self.problems.append({"oracle": "proc-two-holders", "holders": claimed, "after": ev})
        if not self.probe or not os.path.exists(self.path):
            return
        import fcntl
        self.stats["probes"] += 1
        fd = os.open(self.path, os.O_RDWR)
        try:
            try:
                fcntl.flock(fd, fcntl.LOCK_EX | fcntl.LOCK_NB)
                free = True
                fcntl.flock(fd, fcntl.LOCK_UN)
            except OSError:
                free = False
        finally:
            os.close(fd)
        if free and live:
            self.problems.append({"oracle": "proc-held-but-kernel-free", "holders": sorted(str(m) for i in live for m in self.acqs[i]["members"]),
                                  "after": ev, "what": "a handle acquired and neither released nor died, yet an outsider can flock the file"})
        if not free and not live and not stale_alive:
            self.problems.append({"oracle": "proc-lock-stuck", "after": ev,
                                  "what": "every holder released or died, yet the kernel still refuses an outsider's flock"})

    # ---------------------------------------------------------------- summary / end
    def holder_members(self) -> List[Tuple[Any, Any]]:
        return sorted((m for i in self._live_acqs() for m in self.acqs[i]["members"]), key=str)

    def open_descriptors(self) -> int:
        return sum(n for p, n in self.nfds.items() if self.procs[p]["alive"])

    def close(self) -> None:
        if self._closed:
            return
        self._closed = True
        for p, pr in self.procs.items():
            if pr["alive"]:
                try:
                    os.kill(pr["pid"], signal.SIGKILL)
                except OSError:
                    pass
                try:
                    pr["conn"].close()
                except Exception:      # noqa: BLE001
                    pass
        shutil.rmtree(self.root, ignore_errors=True)


def run_family(pool: Pool, events: List[List[Any]], scratch: str, timeout_s: float = TIMEOUT_S) -> FamilyRun:
    r = FamilyRun(pool, scratch, timeout_s)
    try:
        for ev in events:
            r.event(ev)
    finally:
        r.close()
    return r


# ================================================================================================ projection to Model/ProcLock.v
class Nonconforming(Exception):
    pass


def project(run: FamilyRun) -> Tuple[str, Dict[Tuple[int, Any], int], int]:
    """The run's lock-file primitives as an event list of Model/ProcLock.v: handles = (process, handle object) in order of
    first use, topology = the process each lives in, one LStep per primitive carrying the REAL kernel's answer, one PFork
    per fork() (Model/ProcFork.v: the copies of ALL handles of the forking process), one LKill per death.  Returns (Gallina term, handle numbering, #opens)."""
    handles: Dict[Tuple[int, Any], int] = {}
    procs: List[int] = []
    pidx: Dict[int, int] = {}
    last: Dict[int, str] = {}
    evs: List[str] = []
    opens = 0
    for i, e in enumerate(run.locklog):
        if e["prim"] == "fork":
            # fork(2): ONE event for the whole process -- every handle object the parent has used so far gets its copy in
            # the child (handles never used are idle objects without a descriptor: nothing to record); the model refuses
            # the event (Model/ProcFork.v `covers`) if a descriptor of the parent were left out
            pp = pidx.setdefault(e["pid"], len(pidx))
            cp = pidx.setdefault(e["child"], len(pidx))
            tw: List[str] = []
            for (ppid, hobj), h in list(handles.items()):
                if ppid == e["pid"]:
                    handles[(e["child"], hobj)] = len(handles)
                    procs.append(cp)
                    tw.append(f"({h}, {handles[(e['child'], hobj)]})")
            evs.append(f"PFork {pp} {cp} [" + "; ".join(tw) + "]")
            continue
        if e["prim"] == "kill":
            if e["pid"] in pidx:
                evs.append(f"PEv (LKill {pidx[e['pid']]})")
            continue
        if not e.get("known", False):
            raise Nonconforming(f"primitive outside the vocabulary of the lock layer (os.open O_CREAT|O_RDWR, flock LOCK_EX|LOCK_NB, "
                                f"flock LOCK_UN, os.close) at locklog[{i}]: {e['prim']} by process {e['actor']}")
        if e.get("handle") is None:
            raise Nonconforming(f"primitive on the lock file outside a call of a lock handle at locklog[{i}]: {e['prim']} by process {e['actor']}")
        key = (e["pid"], e["handle"])
        if key not in handles:
            handles[key] = len(handles)
            procs.append(pidx.setdefault(e["pid"], len(pidx)))
        h = handles[key]
        prim = e["prim"]
        if prim == "open":
            if not e["ok"]:
                raise Nonconforming(f"the lock file could not be opened at locklog[{i}]")
            k = "KOpen"
            opens += 1
        elif prim == "trylock":
            k = "KTry true" if e["ok"] else "KTry false"
        elif prim == "unlock":
            k = "KUnlock"
        elif prim == "close":
            k = "KCloseRefused" if last.get(h) == "KTry false" else "KClose"
        else:
            raise Nonconforming(f"unknown lock primitive at locklog[{i}]: {prim}")
        last[h] = k
        evs.append(f"PEv (LStep {h} ({k}))")
    topo = "(fun h => nth h [" + "; ".join(str(p) for p in procs) + "] 0)%nat"
    term = (f"match prun_strict gen_lock_disc {topo} linit ([" + "; ".join(evs) + "]%nat) 0%nat with "
            f"| inl s => (1, lsummary s) | inr i => (0, (None, i, 0%nat)) end")
    return term, handles, opens
