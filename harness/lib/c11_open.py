"""C11 -- handle PROVENANCE: the ways a Table handle is obtained, as a dimension of every history.

A handle on an existing table comes from load_table(path), from create_table(path) / create_table(path, schema=S)
(the documented start-up idiom: "create or open"; S is NOT applied to a table that exists) or from Table(path,
schema=S) directly.  S is any variant of the table's schema (identical, reordered, re-numbered, narrowed / widened /
other types, other nullability, extra / missing / renamed fields, other spellings), under the table's schema_id or
another one, built in any of the ways a schema object is built (harness/props/c11.py BUILD_MODES).  Handles carry
per-handle state (the DataFileManager's Arrow-schema cache) that later appends through them consult; a name can be
re-bound to a new handle at any point of a history, and further handles can be opened and kept alive next to the
one that appends.

An opening spec is {"how": "load" | "create" | "create_schema" | "ctor_schema", "variant", "arg", "sid", "build"}.
"""
from __future__ import annotations

from typing import Any, Dict, List, Optional, Tuple

OPEN_VARIANTS = ["identical", "identical_new_sid", "reordered", "reordered_new_sid", "renumbered", "ids_shifted", "retyped", "narrowed",
                 "nullability", "extra", "missing", "renamed", "spelled_dict", "spelled_one", "required_key_dropped"]
# variants whose fields keep plain type names (a parquet footer can be written for them by the harness)
PLAIN_VARIANTS = ["identical", "reordered", "narrowed", "retyped", "nullability", "extra", "missing", "renamed", "renumbered", "ids_shifted"]


def gen_open(rng, fields: List[Dict[str, Any]], variants: Optional[List[str]] = None) -> Dict[str, Any]:
    from harness.props.c11 import BUILD_MODES, KEEPS_SID, make_variant
    how = rng.choice(["load", "create", "create_schema", "create_schema", "create_schema", "create_schema", "ctor_schema"])
    if how in ("load", "create"):
        return {"how": how}
    for _ in range(50):
        vname = rng.choice(variants or OPEN_VARIANTS)
        v = make_variant(rng, fields, vname)
        if v is not None and v[0] is not None:
            break
    else:
        return {"how": "load"}
    arg, sid = v
    if not vname.endswith("_new_sid") and rng.random() < 0.6:
        sid = 1                                      # the table's own schema_id: the interesting collision
    build = "fresh" if rng.random() < 0.6 else rng.choice(BUILD_MODES[1:])
    if build in KEEPS_SID:
        sid = 1
    return {"how": how, "variant": vname, "arg": arg, "sid": sid, "build": build}


def open_real(spec: Dict[str, Any], root: str, table_fields: List[Dict[str, Any]], cur: Any = None) -> Tuple[Any, Optional[str]]:
    """Obtain a handle the way `spec` says.  (handle, None), or (a load_table handle, reason) when the opening
    itself raised (the property says nothing about that; the history goes on through an ordinary handle)."""
    from datashard import create_table, load_table
    from datashard.transaction import Table
    from harness.props.c11 import build_schema
    how = spec["how"]
    try:
        if how == "load":
            return load_table(root), None
        if how == "create":
            return create_table(root), None
        schema = build_schema(spec.get("build", "fresh"), spec["sid"], spec["arg"], table_fields, cur)
        if how == "create_schema":
            return create_table(root, schema=schema), None
        if how == "ctor_schema":
            return Table(root, schema=schema), None
        raise ValueError(f"unknown opening {how!r}")
    except Exception as e:                           # noqa: BLE001
        return load_table(root), f"{type(e).__name__}: {str(e)[:120]}"


def observe_cache(handle: Any) -> Optional[List[Tuple[int, List[Tuple[str, str, bool]]]]]:
    """The handle's Arrow-schema cache as [(schema_id, [(name, arrow type, nullable)])]; None when it cannot be read."""
    try:
        c = handle.file_manager.data_file_manager._arrow_schema_cache
        return [(int(k), [(fl.name, str(fl.type), bool(fl.nullable)) for fl in v]) for k, v in c.items()]
    except Exception:                                # noqa: BLE001
        return None


def open_label(spec: Optional[Dict[str, Any]]) -> str:
    if not spec:
        return "default"
    if spec["how"] in ("load", "create"):
        return spec["how"]
    return f"{spec['how']}({spec.get('variant')},sid={spec.get('sid')})"
