"""Run real DataShard commit-protocol code under the cooperative scheduler and project the raw storage
log onto the alphabet of Model/Commit.v (DESIGN.md section 5, 'The commit machine').

A *case* is {backend, lock, topology, clock, ops: [...], schedule: [...]}.  `run_case` executes it on a
fresh table in a scratch directory and returns raw log, per-actor outcomes, the observed protocol events
and the final table as read by the library and by an independent reader.
"""
from __future__ import annotations

import json
import os
import shutil
from typing import Any, Callable, Dict, List, Optional, Tuple

from . import sched as S

HINT = "metadata.version-hint.text"


# ---------------------------------------------------------------------------------------------------
# yield granularity: the protocol-significant operations (DESIGN.md C01 quantifier)
# ---------------------------------------------------------------------------------------------------
def protocol_yield_filter(op: str, path: str, phase: tuple) -> bool:
    if op in ("LockTry", "LockFlock", "LockRel", "Fence", "Sleep", "Tick", "Land", "LockOpen", "LockUnlock", "LockClose"):
        return True
    if path.endswith(HINT) and op in ("read_file", "read_file_with_etag", "write_file", "write_file_cas"):
        return True
    if op == "write_file" and _is_meta_file(path):
        return True
    if op == "delete_file":
        return True            # marker cleanup / rollback deletions
    if op in ("DataW",):
        return True
    return False


def _is_meta_file(path: str) -> bool:
    b = path.rsplit("/", 1)[-1]
    return path.startswith("metadata/") and b.startswith("v") and b.endswith(".metadata.json") and "/manifests/" not in path


def path_class(path: str) -> str:
    p = path.lstrip("/")
    if p.endswith(HINT):
        return "hint"
    if _is_meta_file(p):
        return "meta"
    if p.startswith("metadata/inflight"):
        return "marker"
    if p.startswith("metadata/manifests/manifest_list"):
        return "mlist"
    if p.startswith("metadata/manifests"):
        return "manifest"
    if p.startswith("data"):
        return "data"
    if p.startswith(".locks"):
        return "lock"
    if p == "":
        return "none"
    if p in ("metadata", "metadata/"):
        return "metadir"
    return "other:" + p


# ---------------------------------------------------------------------------------------------------
# operations an actor can commit
# ---------------------------------------------------------------------------------------------------
_CURRENT: List[Any] = [None]


def S_current() -> Any:
    return _CURRENT[0]


def make_actor(table_path: str, op: Dict[str, Any], shared_table: Any = None, style: str = "with") -> Callable[[], Any]:
    """op kinds: append{rows}, expire{cutoff}, delete_snapshot{which: 'old'|'current'|id}, delete_files{paths}."""
    import datashard

    def body() -> Any:
        t = shared_table if shared_table is not None else datashard.load_table(table_path)
        k = op["kind"]
        if k == "append":
            if style == "with":
                t.append_records(op["rows"])
            elif style == "reuse":
                # explicit style, and the SAME Transaction object is used again after whatever the commit did: a second
                # transaction on it writes a file and is rolled back -- that rollback may only touch its own files
                tx = t.new_transaction().begin()
                tx.append_data(op["rows"])
                first: Any = None
                try:
                    tx.commit()
                except BaseException as e:      # noqa: BLE001 - the outcome of the first commit is re-raised below
                    first = e
                try:
                    tx.begin()
                    tx.append_data([{"x": 777}])
                    tx.rollback()
                except Exception:       # noqa: BLE001 - a refused reuse is fine; damage is judged on the table
                    pass
                if first is not None:
                    raise first
            else:
                tx = t.new_transaction().begin()
                tx.append_data(op["rows"])
                tx.commit()
            return "ok"
        if k == "replace_txn":
            # ONE transaction that deletes a file of the current snapshot and appends replacement rows (local tables)
            st_ = read_table_independent(table_path)
            victim = st_["snapshots"][st_["current"]]["files"][0]
            with t.new_transaction() as tx:
                tx.delete_files([victim])
                tx.append_data(op["rows"])
                tx.commit()
            return "ok"
        if k == "expire":
            with t.new_transaction() as tx:
                tx.expire_snapshots(op["cutoff"])
                tx.commit()
            return "ok"
        if k == "delete_snapshot":
            ok = t.snapshot_manager.delete_snapshot(op["id"])
            return "ok" if ok else "noop"
        if k == "delete_files":
            with t.new_transaction() as tx:
                tx.delete_files(op["paths"])
                tx.commit()
            return "ok"
        if k == "multi_append":
            with t.new_transaction() as tx:
                for rows in op["batches"]:
                    tx.append_data(rows)
                tx.commit()
            return "ok"
        if k == "rollback_txn":
            tx = t.new_transaction().begin()
            tx.append_data(op["rows"])
            tx.rollback()
            return "rolledback"
        if k == "read":
            out = []
            sched = S_current()
            for api in op["apis"]:
                sched.yield_point("ReadStart", api)
                if op.get("tolerate_errors"):
                    # a read that hits an (injected) storage fault may raise -- it then returns no rows, which the
                    # properties allow; what it returns when it does NOT raise is judged as usual
                    try:
                        rows = _read_api(t, api)
                    except Exception as ex:     # noqa: BLE001
                        sched.yield_point("ReadEnd", api)["result"] = "raised:" + type(ex).__name__
                        out.append((api, "raised:" + type(ex).__name__))
                        continue
                elif api == "scan":
                    rows = t.scan()
                elif api == "scan_parallel":
                    rows = t.scan(parallel=2)
                elif api == "scan_noverify":
                    rows = t.scan(verify_checksums=False)
                elif api == "scan_batches":
                    rows = [r for b in t.scan_batches(batch_size=1) for r in b]
                elif api == "iter_records":
                    rows = list(t.iter_records())
                elif api == "row_count":
                    rows = t.row_count()
                elif api in FILTERED_READ_APIS:
                    rows = _read_api(t, api)
                else:
                    raise ValueError(api)
                sched.yield_point("ReadEnd", api)["result"] = rows if isinstance(rows, int) else sorted(r["x"] for r in rows)
                out.append((api, rows if isinstance(rows, int) else sorted(r["x"] for r in rows)))
            return out
        raise ValueError(k)
    return body


# ---------------------------------------------------------------------------------------------------
# independent reader (no datashard imports)
# ---------------------------------------------------------------------------------------------------
# read APIs called WITH a filter (one every row of the harness's tables satisfies, so the expected result is the whole
# content): the filtered paths additionally resolve the schema (file pruning by column bounds)
ALL_ROWS_FILTER = {"x": (">", -1_000_000)}
FILTERED_READ_APIS = ("scan_filter", "scan_parallel_filter", "scan_batches_filter", "iter_records_filter")


def _read_api(t: Any, api: str) -> Any:
    if api == "scan_filter":
        return t.scan(filter=dict(ALL_ROWS_FILTER))
    if api == "scan_parallel_filter":
        return t.scan(filter=dict(ALL_ROWS_FILTER), parallel=2)
    if api == "scan_batches_filter":
        return [r for b in t.scan_batches(batch_size=1, filter=dict(ALL_ROWS_FILTER)) for r in b]
    if api == "iter_records_filter":
        return list(t.iter_records(filter=dict(ALL_ROWS_FILTER)))
    if api == "scan":
        return t.scan()
    if api == "scan_parallel":
        return t.scan(parallel=2)
    if api == "scan_noverify":
        return t.scan(verify_checksums=False)
    if api == "scan_batches":
        return [r for b in t.scan_batches(batch_size=1) for r in b]
    if api == "iter_records":
        return list(t.iter_records())
    if api == "row_count":
        return t.row_count()
    raise ValueError(api)


def read_table_independent(root: Any) -> Dict[str, Any]:
    """Pointer -> metadata JSON -> manifest lists -> manifests -> parquet rows, using json/fastavro/pyarrow only.
    `root` is a directory, or a function relpath -> bytes (object stores)."""
    import io

    import fastavro
    import pyarrow.parquet as pq
    if callable(root):
        fetch = root
    else:
        def fetch(rel: str) -> bytes:
            with open(os.path.join(root, rel), "rb") as f:
                return f.read()
    hint = fetch(HINT).decode("utf-8").strip()
    meta = json.loads(fetch("metadata/" + hint))
    snaps = {}
    for s in meta["snapshots"]:
        manifests = list(fastavro.reader(io.BytesIO(fetch(s["manifest_list"].lstrip("/")))))
        files = []
        for m in manifests:
            for ent in fastavro.reader(io.BytesIO(fetch(m["manifest_path"].lstrip("/")))):
                files.append(ent["data_file"]["file_path"].lstrip("/"))
        snaps[s["snapshot_id"]] = {"files": sorted(set(files)), "parent": s.get("parent_snapshot_id"),
                                   "seq": s.get("sequence_number"), "ts": s["timestamp_ms"]}
    missing = []
    for sid, sn in snaps.items():
        for fp in sn["files"]:
            try:
                fetch(fp)
            except (KeyError, OSError):
                missing.append((sid, fp))
    cur = meta["current_snapshot_id"]
    rows = []
    if cur is not None and cur != -1 and cur in snaps:
        for fp in snaps[cur]["files"]:
            if (cur, fp) not in missing:
                rows.extend(pq.read_table(io.BytesIO(fetch(fp))).to_pylist())
    return {"pointer": hint, "meta": meta, "snapshots": snaps, "current": cur, "rows": rows, "missing": missing,
            "snapshot_order": [s["snapshot_id"] for s in meta["snapshots"]],
            "log_order": [e["snapshot_id"] for e in meta["snapshot_log"]]}


# ---------------------------------------------------------------------------------------------------
# running a case
# ---------------------------------------------------------------------------------------------------
def apply_prehistory(sc: Any, t0: Any, steps: List[Dict[str, Any]]) -> None:
    """Build a table's committed history through the library's own operations (setup thread, no actor; the virtual clock
    advances 10 ms per step, so step i is stamped start + 10 * (i + 1)).  Steps:
      {"do": "append"}                       append one row x = -(number of appends so far + 1)
      {"do": "set_property", "key", "value"} a metadata-only commit that sets a table property (there is no setter API: the
                                             library's own tests set properties through MetadataManager.commit as well)
      {"do": "expire", "keep": n}            expire_snapshots with a cutoff that keeps the n newest snapshots (and the current)
      {"do": "delete_snapshot", "which": "oldest"|"current"}"""
    nappend = 0
    for st in steps:
        sc.clock_ms += 10
        do = st["do"]
        if do == "append":
            nappend += 1
            t0.append_records([{"x": -nappend}])
        elif do == "set_property":
            base = t0.metadata_manager.refresh()
            new = t0.metadata_manager.refresh()
            new.properties[st["key"]] = st["value"]
            t0.metadata_manager.commit(base, new)
        elif do == "expire":
            md = t0.metadata_manager.refresh()
            ts = sorted(s.timestamp_ms for s in md.snapshots)
            keep = int(st.get("keep", 1))
            cutoff = ts[-keep] if 0 < keep <= len(ts) else (ts[-1] + 1 if ts else 0)
            with t0.new_transaction() as tx:
                tx.expire_snapshots(cutoff)
                tx.commit()
        elif do == "delete_snapshot":
            md = t0.metadata_manager.refresh()
            order = [e.snapshot_id for e in md.snapshot_log] or [s.snapshot_id for s in md.snapshots]
            sid = md.current_snapshot_id if st.get("which") == "current" else order[0]
            t0.snapshot_manager.delete_snapshot(sid)
        else:
            raise ValueError(f"prehistory step {st!r}")


_S3_TEMPLATES: Dict[str, Dict[str, Any]] = {}


class CaseResult:
    def __init__(self) -> None:
        self.log: List[dict] = []
        self.schedule: List[str] = []
        self.enabled_at: List[List[str]] = []
        self.outcomes: Dict[str, Tuple[str, str]] = {}      # actor -> ("ok"|"raised", detail)
        self.final: Dict[str, Any] = {}
        self.initial: Dict[str, Any] = {}
        self.deadlock: Optional[str] = None
        self.after: Any = None
        self.states: List[Dict[str, Any]] = []
        self.flip_log_index: List[int] = []         # track_states == "pointer": len(log) when each pointer change was seen
        self.store: Any = None


def run_case(scratch: str, case: Dict[str, Any], chooser_factory: Callable[[S.Scheduler], Callable], tag: str = "t",
             inject: Optional[Dict[str, Callable]] = None, setup: Optional[Callable[[Any], None]] = None,
             after: Optional[Callable[[str, Any], Any]] = None) -> CaseResult:
    import datashard
    from datashard.data_structures import Schema
    from datashard.storage_backend import LocalStorageBackend

    root = os.path.join(scratch, tag)
    shutil.rmtree(root, ignore_errors=True)
    res = CaseResult()
    sc = S.Scheduler()
    # file-lock attempts: open and flock are separate steps; "all": every primitive on the lock file is a step
    sc.fine_locks = "all" if case.get("fine_locks") == "all" else bool(case.get("fine_locks", False))
    _CURRENT[0] = sc
    sc.yield_filter = case.get("yield_filter", protocol_yield_filter)
    lock_mode = case.get("lock", "real")
    backend_kind = case.get("backend", "local")          # local | s3cas | s3nocas
    clock = case.get("clock", "tick")     # tick: +1 ms per scheduler step; frozen: never advances; coarse: +1 ms every 7 steps
    nsnap = case.get("initial_snapshots", 2)
    schema = Schema(schema_id=1, fields=[{"id": 1, "name": "x", "type": "long", "required": False}])
    store = None
    if backend_kind != "local":
        from . import mems3
        store = mems3.MemS3(sc.now_ms)
        store.conflict_code = case.get("s3_conflict", "412")
        sf = case.get("s3_fault")
        if sf:
            # one request-level fault at the boto surface: the nth <op> on a key of class <cls> issued by an actor (by the
            # actor named <actor>, when given) is answered by a transient error
            #   "before"   : BEFORE its effect (the request is not applied),
            #   "after"    : AFTER its effect (applied, the response is lost),
            #   "resent"   : AFTER its effect, and the SDK's automatic re-send of the request is refused by the store (the
            #                client sees 412 / 409 for a conditional write that WAS applied), or
            #   "inflight" : the client gives up on the request while it is still IN FLIGHT: it reaches the store later, at a
            #                scheduling point of its own (actor "L", operation "Land"), and its precondition is evaluated THEN.
            # The log entry of the storage call is annotated with "s3_fault": <when>.
            seen_sf = {"n": 0, "fired": False}

            def _sf_exc() -> Exception:
                from botocore.exceptions import ClientError, ConnectionClosedError, EndpointConnectionError, ReadTimeoutError
                kind = sf.get("exc", "timeout")

                def _ce(code: str, status: int) -> Exception:
                    return ClientError({"Error": {"Code": code, "Message": "injected"}, "ResponseMetadata": {"HTTPStatusCode": status}}, "PutObject")
                if kind == "500":
                    return _ce("InternalError", 500)
                if kind == "503":
                    return _ce("SlowDown", 503)
                if kind == "reqtimeout":
                    return _ce("RequestTimeout", 400)
                if kind == "connclosed":
                    return ConnectionClosedError(endpoint_url="mem://s3")
                if kind == "connect":
                    return EndpointConnectionError(endpoint_url="mem://s3")
                if kind == "oserror":
                    return ConnectionResetError(104, "injected connection reset")
                return ReadTimeoutError(endpoint_url="mem://s3")

            def _sf_match(op: str, key: str) -> bool:
                if seen_sf["fired"] or sc.me() is None or op != sf.get("op", "put_object"):
                    return False
                if sf.get("actor") is not None and sc.me().name != sf["actor"]:
                    return False
                if path_class(key.split("/", 1)[1] if "/" in key else key) != sf.get("cls", "hint"):
                    return False
                return True

            def _sf_fire(op: str, key: str) -> bool:
                if _sf_match(op, key):
                    seen_sf["n"] += 1
                    if seen_sf["n"] == sf.get("nth", 1):
                        seen_sf["fired"] = True
                        if sc.log and sc.log[-1].get("actor") == sc.me().name:
                            sc.log[-1]["s3_fault"] = sf.get("when", "after")
                        return True
                return False
            if sf.get("when", "after") in ("after", "resent"):
                def after_hook(op: str, key: str) -> None:
                    if _sf_fire(op, key):
                        if sf.get("when") == "resent":
                            # "resent": the request was APPLIED, its response was lost, and the SDK (botocore's default retry
                            # policy re-sends a PutObject after a connection error / 5xx) sent it again: the second copy of the
                            # conditional request is evaluated against the object the first one created and REFUSED -- the
                            # client sees the store's refusal of a write the store has applied
                            from botocore.exceptions import ClientError
                            code = "ConditionalRequestConflict" if store.conflict_code == "409" else "PreconditionFailed"
                            raise ClientError({"Error": {"Code": code, "Message": "injected: re-sent request refused"},
                                               "ResponseMetadata": {"HTTPStatusCode": 409 if store.conflict_code == "409" else 412}}, "PutObject")
                        raise _sf_exc()
                store.after_hook = after_hook
            elif sf.get("when") == "inflight":
                def inflight_hook(op: str, key: str, kw: Dict[str, Any]) -> None:
                    if _sf_fire(op, key):
                        sender = sc.me().name
                        req = (key, kw.get("Body", b""), kw.get("IfMatch"), kw.get("IfNoneMatch"))

                        def land_body() -> Any:
                            e = sc.yield_point("Land", req[0].split("/", 1)[1] if "/" in req[0] else req[0])
                            e["for"] = sender
                            try:
                                store.apply_put(*req)
                                e["result"] = "applied"
                            except Exception:       # noqa: BLE001 - the store refused the late request; nobody is listening
                                e["result"] = "refused"
                            return e["result"]
                        sc.spawn("L", land_body)
                        raise _sf_exc()
                store.hook = inflight_hook
            else:
                def before_hook(op: str, key: str, _kw: Dict[str, Any]) -> None:
                    if _sf_fire(op, key):
                        raise _sf_exc()
                store.hook = before_hook

        def factory(tp: str) -> Any:
            return S.instrument_backend(sc, mems3.make_s3_backend(store, "tbl", conditional=(backend_kind == "s3cas")), lock_mode=lock_mode)
        root = "tbl"
        reader_root: Any = lambda rel: store.objects["tbl/" + rel]["body"]
    else:
        def factory(tp: str) -> Any:
            return S.instrument_backend(sc, LocalStorageBackend(tp), lock_mode=lock_mode)
        reader_root = root

    # `prehistory` (optional): the committed history the table has BEFORE the run, as a list of steps (see
    # apply_prehistory) -- table properties, more / expired / deleted snapshots.  Default: `nsnap` appends.
    prehistory = case.get("prehistory")
    if prehistory is not None:
        import hashlib
        nsnap = len(prehistory)
        tkey = f"{nsnap}-" + hashlib.sha1(json.dumps(prehistory, sort_keys=True).encode()).hexdigest()[:12]
    else:
        tkey = str(nsnap)
    template = os.path.join(scratch, f"template-{backend_kind}-{tkey}")
    with S.patched(sc, factory, shared_rlock=True):
        fresh = setup is not None or (backend_kind == "local" and not os.path.exists(template)) \
            or (backend_kind != "local" and template not in _S3_TEMPLATES)
        if fresh:
            saved_mode, lock_mode = lock_mode, "grant_all" if backend_kind != "local" else lock_mode
            base = root if (setup is not None or backend_kind != "local") else template
            t0 = datashard.create_table(base, schema)
            if prehistory is not None:
                apply_prehistory(sc, t0, prehistory)
            else:
                for i in range(nsnap):
                    sc.clock_ms += 10
                    t0.append_records([{"x": -(i + 1)}])
            if setup is not None:
                setup(t0)
            lock_mode = saved_mode
            if backend_kind != "local" and setup is None:
                _S3_TEMPLATES[template] = {k: dict(v) for k, v in store.objects.items() if ".locks" not in k}
        if backend_kind == "local" and setup is None:
            shutil.copytree(template, root)
        elif backend_kind != "local" and setup is None:
            store.objects = {k: dict(v) for k, v in _S3_TEMPLATES[template].items()}
            # ETags must stay unique per object version: continue the counter after the template's highest one (a fresh
            # counter re-issued the template pointer's ETag to a later put, and a stale If-Match then passed)
            store.etag_counter = max([int(v["etag"].strip('"e')) for v in store.objects.values()] + [store.etag_counter]) + 1000
        # frozen clock: every commit of the run happens in the same millisecond as the last setup commit
        sc.clock_ms = 1_700_000_000_000 + 10 * nsnap + (0 if clock == "frozen" else 10)
        sc.log.clear()
        if store is not None:
            store.history.clear()           # from here on: what the store applied during the actors' run
        t0 = datashard.load_table(root)
        res.initial = read_table_independent(reader_root)
        dmg = case.get("pointer_damage")
        if dmg and store is not None:
            # the table is at rest with an UNUSABLE version pointer (the actors start from this state; committed history and
            # metadata files are intact): "missing" (no object), "garbage" / "empty" (bytes that name nothing), "dangling"
            # (a well-formed name of a metadata file that does not exist)
            hk = "tbl/" + HINT
            if dmg == "missing":
                store.objects.pop(hk, None)
            else:
                store._put(hk, {"garbage": b"\xff\xfe\x00 not a version", "empty": b"",
                                "dangling": b"v99-0badf00d.metadata.json"}[dmg])
            store.history.clear()
        shared = t0 if case.get("topology", "separate") == "shared" else None
        # topology "forked": the handle `t0` was opened by a parent process which then fork()ed one worker per actor; every
        # actor goes on using the handle it INHERITED -- an image of the parent's handle at the moment of the fork
        # (harness/lib/forkimage.py): same attribute values, separate objects, only the store and the scheduler in common
        forked = case.get("topology") == "forked"
        if forked:
            from . import forkimage
        ops = case["ops"]
        for i, op in enumerate(ops):
            op = dict(op)
            if op["kind"] == "delete_snapshot":
                order = res.initial["log_order"]
                op["id"] = {"old": order[0], "second": order[min(1, len(order) - 1)], "current": res.initial["current"]}.get(op.get("which"), op.get("id"))
            handle = forkimage.fork_image(t0, [store, sc]) if forked else shared
            a = sc.spawn(f"A{i}", make_actor(root, op, handle, op.get("style", "with")))
            if inject and a.name in inject:
                a.inject = inject[a.name]
        nsteps = [0]

        res.states = [{"rows": sorted(r["x"] for r in res.initial["rows"]), "nsnap": len(res.initial["snapshot_order"])}]
        seen_flips = [0]
        try:
            last_ptr = [reader_root(HINT) if callable(reader_root) else open(os.path.join(reader_root, HINT), "rb").read()]
        except Exception:       # noqa: BLE001
            last_ptr = [None]
        res.flip_log_index = []

        def hook(_a: S.Actor) -> None:
            nsteps[0] += 1
            if case.get("track_states") == "pointer":
                # a new state whenever the pointer's CONTENT changed (whatever the writer was told about its write)
                try:
                    cur_ptr = reader_root(HINT) if callable(reader_root) else open(os.path.join(reader_root, HINT), "rb").read()
                except Exception:       # noqa: BLE001
                    cur_ptr = None
                if cur_ptr != last_ptr[0]:
                    last_ptr[0] = cur_ptr
                    try:
                        st = read_table_independent(reader_root)
                        res.states.append({"rows": sorted(r["x"] for r in st["rows"]), "nsnap": len(st["snapshot_order"])})
                    except Exception as ex:     # noqa: BLE001
                        res.states.append({"rows": None, "nsnap": None, "unreadable": repr(ex)[:120]})
                    res.flip_log_index.append(len(sc.log))
            elif case.get("track_states"):
                nf = sum(1 for e in sc.log if e["op"] in ("write_file", "write_file_cas") and path_class(e["path"]) == "hint"
                         and e["result"] == "ok")
                while seen_flips[0] < nf:
                    seen_flips[0] += 1
                    st = read_table_independent(reader_root)
                    res.states.append({"rows": sorted(r["x"] for r in st["rows"]), "nsnap": len(st["snapshot_order"])})
            if clock == "tick":
                sc.clock_ms += 1
            elif clock == "coarse" and nsteps[0] % 7 == 0:
                sc.clock_ms += 1
        sc.step_hook = hook
        ca = case.get("clock_actor")
        if ca:
            if store is not None:
                store.real_clock_ages = True

            def clock_body() -> Any:
                for _ in range(ca.get("jumps", 1)):
                    sc.yield_point("Tick", "")
                    sc.clock_ms += ca.get("ms", 61000)
                return "ticked"
            sc.spawn("K", clock_body)
        chooser = chooser_factory(sc)

        def recording(enabled: List[str], s: S.Scheduler) -> Optional[str]:
            res.enabled_at.append(list(enabled))
            return chooser(enabled, s)
        try:
            res.schedule = sc.run(recording)
        except S.Deadlock as e:
            res.deadlock = str(e)
            sc.kill_remaining()
        res.log = sc.log
        for name, a in sc.actors.items():
            if a.error is not None:
                res.outcomes[name] = ("raised", type(a.error).__name__ + ": " + str(a.error)[:120])
            else:
                res.outcomes[name] = ("ok", str(a.result))
        try:
            res.final = read_table_independent(reader_root)
        except Exception as e:      # unreadable final table is itself an oracle failure
            res.final = {"error": repr(e)[:300]}
        res.store = store
        if after is not None:
            try:
                res.after = after(root, reader_root)
            except BaseException as e:   # noqa: BLE001
                res.after = ("raised", type(e).__name__ + ": " + str(e)[:200])
    return res


# ---------------------------------------------------------------------------------------------------
# projection onto Model/Commit.v events
# ---------------------------------------------------------------------------------------------------
class Nonconforming(Exception):
    pass


def project(res: CaseResult, nactors: int, cas: bool = False, lease: bool = False,
            faults: bool = False, recover: bool = False) -> Tuple[List[Tuple[int, str]], Dict[str, int], List[str]]:
    """Returns (events as (actor index, Gallina evkind text)), metadata-file name -> vid, notes).
    Raises Nonconforming on a storage call the projection does not know.

    faults=True: the events of Model/FlipFault.v are produced as well (texts starting with "X"; every other text is an
    evkind to be wrapped in XE): a pointer write that raised an injected request-level error (log annotation "s3_fault")
    is `XFlipErr <applied>`, the lock release that follows it (commit()'s finally) is `XUnwind`; a request whose client gave
    up while it was in flight stays in flight in the model (its sender's lock release is a lapse of its lease) until the
    "Land" entry: `XFlipErr <applied>; XUnwind` there.  A pointer write that was applied and whose re-sent copy was refused
    (log annotation "resent") is `XFlipResent`; the pointer read-back that follows (or, in a source without one, the lock
    release) is `XReadBack`.

    recover=True (conditional-write storage; case["pointer_damage"]: the actors start on an UNUSABLE pointer): the events of
    Model/PtrFallback.v are produced as well (texts starting with "R"; every other text is an evkind to be wrapped in RE).
    The run starts with `RDamage` (identity 0).  A base read that finds the pointer unusable (or absent) and recovers by
    scanning is `RBegin <vid recovered>`; the ETag-bearing read under the lock that returns an unusable object is
    `RReadBad 0`; commit()'s fallback refresh() is `RRefresh scan|good <vid> <verdict>` (good: its re-read of the pointer
    found it usable again), placed at the read of the metadata file it returns; the conditional write of a committer that
    holds the unusable object's ETag is `RFlip <ok>`; the pointer read that only numbers the next version
    (commit -> _current_version_info) is dropped for such a committer."""
    vids: Dict[str, int] = {res.initial["pointer"]: 0}
    events: List[Tuple[int, str]] = []
    notes: List[str] = []
    pending_validate: Dict[str, int] = {}      # actor -> index into events of its open EValidate (verdict filled later)
    validated: Dict[str, bool] = {}
    lock_ev: Dict[str, int] = {}               # actor -> index into events of its latest ELockTry (moved to the flock when fine-grained)
    n_known = 0
    holder: Optional[str] = None
    erring: Dict[str, bool] = {}               # actor -> its pointer write raised, the exception has not left commit() yet
    inflight: Dict[str, Any] = {}              # actor -> its pointer write is in flight although its client gave up ("sent" | "released")
    bad_id: Optional[int] = None               # recover: identity of the unusable pointer object, None once a pointer write has landed
    fb: Dict[str, Any] = {}                    # recover: actor -> "read" while its fallback refresh() is pending
    fb_good: Dict[str, Optional[int]] = {}     # recover: actor -> vid named by the pointer when the fallback re-read it (None: still unusable)
    tagged: Dict[str, bool] = {}               # recover: actor -> its attempt holds the ETag of the unusable object
    began: Dict[str, bool] = {}                # recover: actor -> its base read found a usable pointer (EBegin already emitted)
    deferred_read: Dict[str, Any] = {}         # recover: actor -> its ETag read, not yet placed (see below)
    resent: Dict[str, bool] = {}               # faults: actor -> its pointer write was applied and then refused to its face; read-back pending
    if recover:
        events.append((0, "RDamage"))
        bad_id = 0
    for idx, e in enumerate(res.log):
        a = e["actor"]
        if faults and e["op"] == "Land":
            owner = str(e.get("for"))
            if not inflight.get(owner):
                raise Nonconforming(f"a request lands at log[{idx}] that nobody has in flight")
            events.append((int(owner[1:]), "XFlipErr true" if e["result"] == "applied" else "XFlipErr false"))
            if inflight[owner] == "released":
                events.append((int(owner[1:]), "XUnwind"))
            else:
                erring[owner] = True            # it lands before its sender has left commit(): the release is still to come
            inflight[owner] = False
            continue
        if not a.startswith("A"):
            continue
        ai = int(a[1:])
        op, path, phase, result = e["op"], e["path"], e["phase"], e["result"]
        pcs = path_class(path)
        if recover and a in deferred_read and not (op == "Sleep" and "S3StorageBackend.read_file_with_etag" in phase):
            d_idx, d_result, d_name = deferred_read.pop(a)
            if d_name is not None and d_name in vids:
                pending_validate[a] = len(events)
                events.append((ai, f"EValidate {vids[d_name]} ?"))
            else:
                if bad_id is None:
                    raise Nonconforming(f"the ETag read at log[{d_idx}] returned an unusable pointer {d_result!r} although a pointer write has landed")
                events.append((ai, f"RReadBad {bad_id}"))
                fb[a], fb_good[a], tagged[a] = "read", None, True
        in_mm_commit = "MetadataManager.commit" in phase
        in_refresh = "MetadataManager.refresh" in phase
        in_txcommit = "Transaction.commit" in phase or "SnapshotManager.delete_snapshot" in phase
        if recover and op in ("read_file", "read_file_with_etag") and pcs == "hint":
            try:
                name = result.decode("utf-8").strip() if isinstance(result, (bytes, bytearray)) else None
            except UnicodeDecodeError:
                name = None
            known = name is not None and name in vids
            if "MetadataManager._hint_write_landed" in phase:
                n_known += 1                      # read-back after a refused conditional write: a pure read
            elif in_mm_commit and op == "read_file_with_etag" and not validated.get(a):
                # S3StorageBackend.read_file_with_etag retries a missing object (sleeping in between): what it returns was
                # read at its LAST attempt, i.e. after the Sleep entries that follow in its phase -- the event is placed at
                # this actor's next log entry that is not such a Sleep
                validated[a] = True
                deferred_read[a] = (idx, result, name)
            elif in_mm_commit and in_refresh:
                if fb.get(a) != "read":
                    raise Nonconforming(f"refresh() inside commit at log[{idx}] although the ETag read named a version")
                fb_good[a] = vids[name] if known else None
            elif in_mm_commit:
                if not tagged.get(a):
                    raise Nonconforming(f"CAS storage: second pointer read under the lock at log[{idx}] ({op}): the ETag must "
                                        f"come from the validation read")
                notes.append("numbering-read")
            elif in_txcommit and in_refresh:
                if known:
                    events.append((ai, f"EBegin {vids[name]}"))
                    began[a] = True
            else:
                n_known += 1
        elif recover and op == "read_file" and pcs == "meta" and in_refresh and (in_mm_commit or in_txcommit):
            base = path.rsplit("/", 1)[-1]
            if base not in vids:
                raise Nonconforming(f"refresh() returned an unknown metadata file {base} at log[{idx}]")
            if in_mm_commit:
                if fb.get(a) != "read":
                    raise Nonconforming(f"refresh() inside commit at log[{idx}] although the ETag read named a version")
                if fb_good.get(a) is not None and fb_good[a] != vids[base]:
                    raise Nonconforming(f"the fallback refresh() at log[{idx}] read the pointer as {fb_good[a]} but returned {vids[base]}")
                pending_validate[a] = len(events)
                events.append((ai, f"RRefresh {'good' if fb_good.get(a) is not None else 'scan'} {vids[base]} ?"))
                fb[a] = None
            elif began.get(a):
                began[a] = False
            else:
                events.append((ai, f"RBegin {vids[base]}"))
        elif op == "read_file" and pcs == "hint" and "MetadataManager._hint_write_landed" in phase:
            # the commit point reads the pointer back after the store REFUSED its conditional write (was our write applied
            # after all?): a pure read for a genuine refusal; for a refused-although-applied write (s3_fault "resent") it is
            # the XReadBack step of Model/FlipFault.v
            if faults and resent.get(a):
                resent[a] = False
                events.append((ai, "XReadBack"))
            else:
                n_known += 1
        elif op in ("read_file", "read_file_with_etag") and pcs == "hint":
            name = result.decode("utf-8").strip() if isinstance(result, (bytes, bytearray)) else None
            if name is None or name not in vids:
                raise Nonconforming(f"pointer read returned unknown content {result!r} at log[{idx}]")
            v = vids[name]
            if in_mm_commit and not validated.get(a):
                # the first pointer read under the lock is the validation read (on CAS storage it must
                # also be the read that yields the ETag used by the conditional flip)
                if cas and op != "read_file_with_etag":
                    raise Nonconforming(f"CAS storage: the validation read at log[{idx}] does not yield the pointer ETag "
                                        f"(the ETag is taken by a later read, after validation)")
                validated[a] = True
                pending_validate[a] = len(events)
                events.append((ai, f"EValidate {v} ?"))
            elif in_mm_commit:
                if cas:
                    raise Nonconforming(f"CAS storage: second pointer read under the lock at log[{idx}] ({op}): the ETag must "
                                        f"come from the validation read")
                notes.append("reread")            # filename lookup under the lock: no protocol effect (non-CAS)
            elif in_txcommit and in_refresh and not in_mm_commit:
                events.append((ai, f"EBegin {v}"))
            else:
                n_known += 1                      # schema resolution / load_table refreshes: pure reads
        elif op == "LockTry":
            if not in_mm_commit:
                raise Nonconforming(f"lock attempt outside MetadataManager.commit at log[{idx}]: {phase}")
            validated[a] = False
            tagged[a] = False
            if result == "ok" and lease:
                if holder is not None and holder != a:
                    events.append((ai, "ESteal"))          # the lease had lapsed: the attempt took the lock over
                holder = a
            lock_ev[a] = len(events)
            events.append((ai, f"ELockTry {'true' if result == 'ok' else 'false'}"))
        elif op == "LockFlock":
            # fine-grained file lock: the attempt is DECIDED here (flock on the inode opened at LockTry), not at the open
            if a in lock_ev and lock_ev[a] < len(events) and events[lock_ev[a]][1].startswith("ELockTry"):
                ev = events.pop(lock_ev[a])
                for k2 in list(pending_validate):
                    if pending_validate[k2] > lock_ev[a]:
                        pending_validate[k2] -= 1
                for k2 in list(lock_ev):
                    if lock_ev[k2] > lock_ev[a]:
                        lock_ev[k2] -= 1
                lock_ev[a] = len(events)
                events.append(ev)
        elif op == "write_file" and pcs == "meta":
            if not in_mm_commit:
                raise Nonconforming(f"metadata file written outside commit at log[{idx}]")
            _close_validate(events, pending_validate, a, True)
            vids[path.rsplit("/", 1)[-1]] = len(vids)
            events.append((ai, f"EMetaW ({e['clock']})"))
        elif op == "Fence":
            events.append((ai, f"EFence {'true' if result else 'false'}"))
        elif op in ("write_file", "write_file_cas") and pcs == "hint":
            flt = e.get("s3_fault") if faults else None
            if flt == "inflight":
                inflight[a] = "sent"
            elif flt in ("before", "after"):
                events.append((ai, "XFlipErr true" if flt == "after" else "XFlipErr false"))
                erring[a] = True
            elif flt == "resent":
                events.append((ai, "XFlipResent"))      # applied; the client was answered with the store's refusal
                resent[a] = True
            else:
                ok = result == "ok"
                events.append((ai, f"{'RFlip' if recover and tagged.get(a) else 'EFlip'} {'true' if ok else 'false'}"))
                if ok:
                    bad_id = None
        elif op == "LockRel":
            _close_validate(events, pending_validate, a, False)
            if faults and resent.get(a):
                # the source has no read-back: the refusal of the applied write was taken at face value
                resent[a] = False
                events.append((ai, "XReadBack"))
            if erring.get(a):
                erring[a] = False
                if holder == a:
                    holder = None
                events.append((ai, "XUnwind"))
            elif inflight.get(a):
                inflight[a] = "released"
                if lease and holder == a:
                    holder = None
                    events.append((ai, "ESteal"))
            else:
                if holder == a:
                    holder = None
                events.append((ai, "ERelease"))
        elif op in ("LockOpen", "LockUnlock", "LockClose"):
            n_known += 1                          # primitives below the lock provider: judged by the lock layer (Model/ProcLock.v, C01)
        elif op in ("exists", "read_file", "open_file", "write_file", "delete_file", "DataW", "DataR", "Sleep",
                    "get_size", "get_modified_time", "list_files", "open_seekable"):
            if pcs.startswith("other:"):
                raise Nonconforming(f"storage call on an unclassified path at log[{idx}]: {op} {path}")
            n_known += 1
        else:
            raise Nonconforming(f"unknown operation kind at log[{idx}]: {op} {path}")
    if pending_validate:
        raise Nonconforming(f"validation without verdict for {sorted(pending_validate)}")
    notes.append(f"dropped_known={n_known}")
    return events, vids, notes


def _close_validate(events: List[Tuple[int, str]], pending: Dict[str, int], a: str, ok: bool) -> None:
    if a in pending:
        i = pending.pop(a)
        ai, txt = events[i]
        events[i] = (ai, txt.replace("?", "true" if ok else "false"))


def events_to_coq(events: List[Tuple[int, str]]) -> str:
    return "[" + "; ".join(f"{{| e_actor := {ai}; e_kind := {k} |}}" for ai, k in events) + "]"
