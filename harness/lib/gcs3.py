"""A minimal in-memory S3 client (strongly consistent) -- just what S3StorageBackend needs for a garbage collection:
get_object / head_object / put_object / delete_object / list_objects_v2 (+ paginator).  Used by C05 to run the real
S3StorageBackend (key mapping, prefix joining of create_storage_backend, listing relativisation) offline, so that the
DATASHARD_S3_PREFIX x table_path spellings reach the collector exactly as in production."""
from __future__ import annotations

import datetime as dt
import io
import os
from typing import Any, Dict, Iterator, List, Optional, Tuple


def _client_error(code: str, op: str) -> Exception:
    from botocore.exceptions import ClientError
    return ClientError({"Error": {"Code": code, "Message": code}, "ResponseMetadata": {"HTTPStatusCode": 404}}, op)


class _Paginator:
    def __init__(self, client: "FakeS3"):
        self.c = client

    def paginate(self, Bucket: str, Prefix: str = "", **_kw: Any) -> Iterator[Dict[str, Any]]:
        # like botocore's paginator: repeated list_objects_v2 requests following the continuation token
        token = None
        while True:
            resp = self.c.list_objects_v2(Bucket=Bucket, Prefix=Prefix, **({"ContinuationToken": token} if token is not None else {}))
            yield resp
            if not resp.get("IsTruncated"):
                return
            token = resp["NextContinuationToken"]


class FakeS3:
    def __init__(self) -> None:
        self.objects: Dict[str, Tuple[bytes, float]] = {}
        self.calls: List[Tuple[str, str]] = []

    def _lm(self, key: str) -> dt.datetime:
        return dt.datetime.fromtimestamp(self.objects[key][1], tz=dt.timezone.utc)

    def put(self, key: str, data: bytes, mtime: float) -> None:
        self.objects[key] = (data, mtime)

    # --- boto3 client surface
    def get_object(self, Bucket: str, Key: str, **_kw: Any) -> Dict[str, Any]:
        self.calls.append(("get", Key))
        if Key not in self.objects:
            raise _client_error("NoSuchKey", "GetObject")
        data = self.objects[Key][0]
        return {"Body": io.BytesIO(data), "ContentLength": len(data), "ETag": '"%x"' % (hash(data) & 0xFFFFFFFF), "LastModified": self._lm(Key)}

    def head_object(self, Bucket: str, Key: str, **_kw: Any) -> Dict[str, Any]:
        self.calls.append(("head", Key))
        if Key not in self.objects:
            raise _client_error("404", "HeadObject")
        data = self.objects[Key][0]
        return {"ContentLength": len(data), "ETag": '"%x"' % (hash(data) & 0xFFFFFFFF), "LastModified": self._lm(Key)}

    def put_object(self, Bucket: str, Key: str, Body: Any = b"", **_kw: Any) -> Dict[str, Any]:
        self.calls.append(("put", Key))
        data = Body if isinstance(Body, (bytes, bytearray)) else Body.read()
        import time
        self.objects[Key] = (bytes(data), time.time())
        return {"ETag": '"%x"' % (hash(bytes(data)) & 0xFFFFFFFF)}

    def delete_object(self, Bucket: str, Key: str, **_kw: Any) -> Dict[str, Any]:
        self.calls.append(("delete", Key))
        self.objects.pop(Key, None)
        return {}

    SERVER_PAGE = 7         # the service never returns more keys than this per response (S3: 1000): small, to exercise paging

    def list_objects_v2(self, Bucket: str, Prefix: str = "", MaxKeys: int = 1000, ContinuationToken: Any = None, **_kw: Any) -> Dict[str, Any]:
        self.calls.append(("list", Prefix))
        keys = sorted(k for k in self.objects if k.startswith(Prefix))
        if ContinuationToken is not None:
            keys = [k for k in keys if k > ContinuationToken]
        limit = max(0, min(MaxKeys, self.SERVER_PAGE))
        page, rest = keys[:limit], keys[limit:]
        if not page:
            return {"KeyCount": 0, "IsTruncated": False}
        out: Dict[str, Any] = {"Contents": [{"Key": k, "Size": len(self.objects[k][0]), "LastModified": self._lm(k)} for k in page],
                               "KeyCount": len(page), "IsTruncated": bool(rest)}
        if rest:
            out["NextContinuationToken"] = page[-1]
        return out

    def get_paginator(self, name: str) -> _Paginator:
        assert name == "list_objects_v2", name
        return _Paginator(self)


def expected_prefix(env_prefix: str, table_path: str) -> str:
    """Where the objects of a table live (written independently of create_storage_backend)."""
    parts = [p for p in (env_prefix.rstrip("/"), table_path.strip("/")) if p]
    return "/".join(parts)


def open_s3_table(env_prefix: str, table_path: str, fake: FakeS3) -> Any:
    """The managers of a table on the (fake) S3 backend, built by the library's own factory."""
    import datashard.s3_consistency as s3c
    from datashard.file_manager import FileManager
    from datashard.metadata_manager import MetadataManager
    from datashard.storage_backend import create_storage_backend
    env = {"DATASHARD_STORAGE_TYPE": "s3", "DATASHARD_S3_BUCKET": "verif-bucket", "DATASHARD_S3_PREFIX": env_prefix,
           "DATASHARD_S3_ENDPOINT": "http://127.0.0.1:9", "DATASHARD_S3_ACCESS_KEY": "k", "DATASHARD_S3_SECRET_KEY": "s"}
    saved = {k: os.environ.get(k) for k in env}
    os.environ.update(env)
    try:
        storage = create_storage_backend(table_path)
    finally:
        for k, v in saved.items():
            if v is None:
                os.environ.pop(k, None)
            else:
                os.environ[k] = v
    storage.s3 = fake
    s3c.time.sleep = lambda *_a, **_k: None        # retries of a definite 404 need not wait in a simulation
    mm = MetadataManager(table_path, storage)
    fm = FileManager(table_path, mm, storage)

    class _T:       # the part of Table that gcsim.run_collect uses
        pass
    t = _T()
    t.storage, t.metadata_manager, t.file_manager, t.table_path = storage, mm, fm, table_path

    def garbage_collect(grace_period_ms: int = 3600000) -> Dict[str, int]:
        from datashard.garbage_collector import GarbageCollector
        return GarbageCollector(t.table_path, t.metadata_manager, t.file_manager).collect(grace_period_ms)
    t.garbage_collect = garbage_collect
    return t


def upload_tree(fake: FakeS3, root: str, prefix: str) -> None:
    root = os.path.realpath(root)
    for r, _d, fs in os.walk(root):
        for f in fs:
            full = os.path.join(r, f)
            rel = os.path.relpath(full, root).replace(os.sep, "/")
            with open(full, "rb") as fh:
                fake.put((prefix + "/" if prefix else "") + rel, fh.read(), os.path.getmtime(full))


def tree_of(fake: FakeS3, prefix: str) -> Dict[str, float]:
    pre = prefix + "/" if prefix else ""
    return {k[len(pre):]: v[1] for k, v in fake.objects.items() if k.startswith(pre)}
