"""A conditional-write capable storage backend over a local directory (C10 harness).

MetadataManager has two code paths, selected by `storage.supports_cas`: plain pointer writes (local
backend) and compare-and-swap pointer writes keyed to the pointer's ETag (S3 with conditional writes).
The sandbox has no S3, so the CAS path is exercised with the real Table / Transaction / MetadataManager
over this backend: LocalStorageBackend plus the two CAS methods of the StorageBackend contract
(storage_backend.py: read_file_with_etag, write_file_cas; etag=None means create-if-absent;
precondition failure raises CASConflictError).  Like S3 it reports atomic_write_failures = False.
Installed from outside by replacing datashard.storage_backend.create_storage_backend.
"""
from __future__ import annotations

import contextlib
import hashlib
from typing import Optional, Tuple


def make_cas_backend_class():
    from datashard.storage_backend import CASConflictError, LocalStorageBackend

    class CasLocalStorage(LocalStorageBackend):
        @property
        def supports_cas(self) -> bool:
            return True

        @property
        def atomic_write_failures(self) -> bool:
            return False

        @staticmethod
        def _etag(content: bytes) -> str:
            return '"' + hashlib.md5(content).hexdigest() + '"'

        def read_file_with_etag(self, path: str) -> Tuple[bytes, Optional[str]]:
            content = self.read_file(path)          # FileNotFoundError when absent, as on S3
            return content, self._etag(content)

        def write_file_cas(self, path: str, content: bytes, etag: Optional[str]) -> None:
            present = self.exists(path)
            if etag is None:
                if present:
                    raise CASConflictError(f"CAS create-if-absent lost: {path} exists")
            else:
                if not present or self._etag(self.read_file(path)) != etag:
                    raise CASConflictError(f"CAS replace-if-unchanged lost: {path}")
            self.write_file(path, content)

    return CasLocalStorage


@contextlib.contextmanager
def backend(kind: str):
    """kind = 'local': the library's own factory; 'cas': every table opened inside uses CasLocalStorage."""
    if kind == "local":
        yield
        return
    import datashard.storage_backend as sb
    cls = make_cas_backend_class()
    orig = sb.create_storage_backend
    sb.create_storage_backend = lambda table_path: cls(table_path)
    try:
        yield
    finally:
        sb.create_storage_backend = orig
