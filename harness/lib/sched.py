"""Deterministic cooperative scheduler for real DataShard code (DESIGN.md 3.2).

Each actor is a real thread running real library code.  Every *yield point* parks the thread until
the scheduler hands it the baton, so exactly one actor runs between two yield points and a schedule
(the list of actor names chosen at each step) replays exactly.  Yield points are the instrumented
storage-backend methods, the distributed lock, the in-process metadata RLock (replaced by a
cooperative lock) and time.sleep.  Clocks and uuid4 are virtualised.

Nothing in /repo is changed: everything is patched from outside, inside `World.patched()`.
"""
from __future__ import annotations

import contextlib
import datetime as _dt
import os
import random
import threading
import uuid as _uuid
from typing import Any, Callable, Dict, List, Optional, Tuple

_real_datetime = _dt.datetime


def _phase() -> tuple:
    """Names of the datashard functions on the caller's stack, outermost first, as Class.func."""
    import sys
    out = []
    f = sys._getframe(1)
    while f is not None:
        mod = f.f_globals.get("__name__", "")
        if mod.startswith("datashard."):
            slf = f.f_locals.get("self")
            cls = type(slf).__name__ + "." if slf is not None else ""
            out.append(cls + f.f_code.co_name)
        f = f.f_back
    out.reverse()
    return tuple(out)


class Deadlock(Exception):
    pass


class Killed(BaseException):
    """Raised inside an actor thread to simulate a process crash (no handler may swallow it:
    it derives from BaseException, and the harness restores no state)."""


class Actor:
    def __init__(self, name: str, fn: Callable[[], Any]):
        self.name = name
        self.fn = fn
        self.thread: Optional[threading.Thread] = None
        self.go = threading.Semaphore(0)
        self.state = "new"          # new | parked | running | blocked | done
        self.pending: Optional[Tuple[str, str]] = None   # (op, path) it is about to perform
        self.blocked_on: Optional[str] = None
        self.result: Any = None
        self.error: Optional[BaseException] = None
        self.trace: List[Tuple[str, str]] = []
        self.inject: Optional[Callable[[str, str, int, tuple], Any]] = None   # fault hook(op, path, index, phase)
        self.nyield = 0
        self.uuid_rng = random.Random(hash(name) & 0xFFFFFFFF)


class Scheduler:
    def __init__(self) -> None:
        self.actors: Dict[str, Actor] = {}
        self.order: List[str] = []
        self.cv = threading.Condition()
        self.current: Optional[str] = None
        self.log: List[tuple] = []     # (actor, op, path, phase) in execution order
        self.clock_ms = 1_700_000_000_000
        self.local = threading.local()
        self.step_hook: Optional[Callable[[Actor], None]] = None
        self.yield_filter: Optional[Callable[[str, str, tuple], bool]] = None   # None = every point parks
        self.locklog: List[dict] = []  # lock-layer trace: every primitive on the lock file (open / flock / close), per FileLock handle

    # ---------------------------------------------------------------- actors
    def spawn(self, name: str, fn: Callable[[], Any]) -> Actor:
        a = Actor(name, fn)
        self.actors[name] = a
        self.order.append(name)

        def body() -> None:
            self.local.actor = a
            a.go.acquire()               # wait for the first baton
            try:
                a.result = fn()
            except Killed as e:
                a.error = e
            except BaseException as e:   # noqa: BLE001 - outcomes are data here
                a.error = e
            finally:
                with self.cv:
                    a.state = "done"
                    a.pending = None
                    self.current = None
                    self.cv.notify_all()

        a.thread = threading.Thread(target=body, name=f"actor-{name}", daemon=True)
        a.state = "parked"
        a.pending = ("start", "")
        a.thread.start()
        return a

    def me(self) -> Optional[Actor]:
        return getattr(self.local, "actor", None)

    # ---------------------------------------------------------------- called from actor threads
    def yield_point(self, op: str, path: str = "") -> dict:
        """Park the calling actor before it performs (op, path); returns when scheduled.
        Returns the log entry (a dict) so that the caller can record the operation's result in it."""
        a = self.me()
        if a is None:
            return {}                   # not an actor thread (setup code): run straight through
        phase = _phase()
        entry = {"actor": a.name, "op": op, "path": path, "phase": phase, "clock": self.clock_ms, "result": None}
        if self.yield_filter is None or self.yield_filter(op, path, phase):
            with self.cv:
                a.pending = (op, path)
                a.state = "parked"
                self.current = None
                self.cv.notify_all()
            a.go.acquire()
            entry["clock"] = self.clock_ms
        idx = a.nyield
        a.nyield += 1
        a.trace.append((op, path))
        self.log.append(entry)
        entry["index"] = idx
        if a.inject is not None:
            # inject(op, path, idx, phase) -> None | ("before", exc) | ("after", exc)
            directive = a.inject(op, path, idx, phase)
            if directive is not None:
                kind, exc = directive
                entry["fault"] = kind
                if kind == "before":
                    entry["performed"] = False
                    entry["result"] = ("raised", type(exc).__name__)
                    raise exc
                entry["after_exc"] = exc
        return entry

    def block(self, what: str) -> None:
        """The calling actor cannot proceed (lock busy): park as blocked until something changes."""
        a = self.me()
        if a is None:
            raise Deadlock(f"non-actor thread blocked on {what}")
        with self.cv:
            a.state = "blocked"
            a.blocked_on = what
            self.current = None
            self.cv.notify_all()
        a.go.acquire()
        a.blocked_on = None

    def unblock_all(self, what: str) -> None:
        for a in self.actors.values():
            if a.state == "blocked" and a.blocked_on == what:
                a.state = "parked"

    # ---------------------------------------------------------------- scheduling
    def enabled(self) -> List[str]:
        return [n for n in self.order if self.actors[n].state == "parked"]

    def all_done(self) -> bool:
        return all(a.state == "done" for a in self.actors.values())

    def step(self, name: str) -> None:
        """Let actor `name` run from its current yield point to its next one (or to completion)."""
        a = self.actors[name]
        if a.state != "parked":
            raise ValueError(f"actor {name} not enabled (state {a.state})")
        with self.cv:
            a.state = "running"
            self.current = name
        a.go.release()
        with self.cv:
            ok = self.cv.wait_for(lambda: self.current is None, timeout=60)
        if not ok:
            raise Deadlock(f"actor {name} did not reach a yield point within 60s (pending {a.pending})")
        if self.step_hook:
            self.step_hook(a)

    def run(self, choose: Callable[[List[str], "Scheduler"], Optional[str]], max_steps: int = 20000) -> List[str]:
        """Run until all actors are done. `choose(enabled, self)` picks the next actor.
        Returns the schedule actually executed."""
        schedule: List[str] = []
        for _ in range(max_steps):
            if self.all_done():
                return schedule
            en = self.enabled()
            if not en:
                blocked = {n: a.blocked_on for n, a in self.actors.items() if a.state == "blocked"}
                raise Deadlock(f"no enabled actor; blocked: {blocked}")
            n = choose(en, self)
            if n is None:
                return schedule
            schedule.append(n)
            self.step(n)
        raise Deadlock("max_steps exceeded")

    def kill_remaining(self) -> None:
        """Abandon unfinished actors (threads are daemons; they stay parked forever)."""
        for a in self.actors.values():
            if a.state != "done":
                a.state = "done"

    # ---------------------------------------------------------------- virtual time / ids
    def now_ms(self) -> int:
        return self.clock_ms

    def uuid4(self) -> _uuid.UUID:
        a = self.me()
        rng = a.uuid_rng if a is not None else self._setup_rng
        return _uuid.UUID(int=rng.getrandbits(128), version=4)

    _setup_rng = random.Random(12345)


# -------------------------------------------------------------------------------------------------
# choosers
# -------------------------------------------------------------------------------------------------
def replay_chooser(schedule: List[str], then_first: bool = True) -> Callable[[List[str], Scheduler], Optional[str]]:
    """Follow `schedule`; entries naming a disabled actor are skipped; afterwards run the first enabled."""
    it = iter(schedule)

    def choose(enabled: List[str], _s: Scheduler) -> Optional[str]:
        for n in it:
            if n in enabled:
                return n
        return enabled[0] if then_first else None
    return choose


def random_chooser(rng: random.Random, switch_prob: float = 0.3) -> Callable[[List[str], Scheduler], Optional[str]]:
    last = [None]

    def choose(enabled: List[str], _s: Scheduler) -> Optional[str]:
        if last[0] in enabled and rng.random() > switch_prob:
            return last[0]
        last[0] = rng.choice(enabled)
        return last[0]
    return choose


# -------------------------------------------------------------------------------------------------
# cooperative locks
# -------------------------------------------------------------------------------------------------
class CoopRLock:
    """Replacement for MetadataManager._lock (threading.RLock) under the scheduler."""

    def __init__(self, sched: Scheduler, name: str = "tlock"):
        self.sched = sched
        self.name = name
        self.owner: Optional[str] = None
        self.depth = 0

    def acquire(self, blocking: bool = True, timeout: float = -1) -> bool:
        a = self.sched.me()
        who = a.name if a else "<setup>"
        if self.owner == who:
            self.depth += 1
            return True
        while True:
            if a is not None and self.depth == 0 and a is not None:
                pass
            if self.owner is None:
                self.owner = who
                self.depth = 1
                return True
            if a is None:
                raise Deadlock("setup thread needs a lock held by a parked actor")
            self.sched.block(self.name)

    def release(self) -> None:
        self.depth -= 1
        if self.depth == 0:
            self.owner = None
            self.sched.unblock_all(self.name)

    __enter__ = acquire

    def __exit__(self, *exc: Any) -> None:
        self.release()


class CoopLockProvider:
    """Wraps a real LockProvider (LocalLockProvider over a real flock) so that a busy lock parks the
    actor instead of spinning; the real non-blocking acquisition is what decides."""

    instances: List["CoopLockProvider"] = []

    def __init__(self, sched: Scheduler, real: Any, name: str = "dlock"):
        self.sched = sched
        self.real = real
        self.name = name
        CoopLockProvider.instances.append(self)
        del CoopLockProvider.instances[:-64]

    def acquire(self) -> bool:
        while True:
            e = self.sched.yield_point("LockTry", self.name)
            if self._try():
                e["result"] = "ok"
                return True
            e["result"] = "busy"
            self.sched.block(self.name)

    def _try(self) -> bool:
        lock = getattr(self.real, "lock", None)
        if lock is not None and hasattr(lock, "acquire"):
            d = os.path.dirname(lock.lock_file)
            if d:
                os.makedirs(d, exist_ok=True)
            return bool(lock._try_acquire_once())
        if hasattr(self.real, "_try_acquire"):
            # S3 lock providers: ONE acquisition attempt (create-if-absent, else takeover of an expired lease);
            # the blocking loop / timeout of acquire() is C19's subject.  No heartbeat thread: renewals are not
            # part of the commit protocol, a lapse is a clock jump in the schedule.
            ok = bool(self.real._try_acquire())
            if ok:
                self.real.is_locked = True
            return ok
        return bool(self.real.acquire())

    def release(self) -> None:
        e = self.sched.yield_point("LockRel", self.name)
        self.real.release()
        self.sched.unblock_all(self.name)
        if e.get("after_exc") is not None:
            raise e.pop("after_exc")

    def is_held(self) -> bool:
        e = self.sched.yield_point("Fence", self.name)
        r = bool(self.real.is_held())
        e["result"] = r
        return r


class GrantAllLock:
    """A lock that gives no exclusion at all (C08: 'even if the lock gives no exclusion')."""

    def __init__(self, sched: Scheduler, name: str = "dlock"):
        self.sched = sched
        self.name = name

    def acquire(self) -> bool:
        self.sched.yield_point("LockTry", self.name)["result"] = "ok"
        return True

    def release(self) -> None:
        self.sched.yield_point("LockRel", self.name)

    def is_held(self) -> bool:
        self.sched.yield_point("Fence", self.name)["result"] = True
        return True


# -------------------------------------------------------------------------------------------------
# instrumented backends and patching
# -------------------------------------------------------------------------------------------------
YIELD_METHODS = ["read_file", "read_file_with_etag", "write_file", "write_file_cas", "exists", "list_files",
                 "delete_file", "get_modified_time", "get_size", "open_file", "open_seekable"]


def instrument_backend(sched: Scheduler, backend: Any, lock_mode: str = "real", quiet: Tuple[str, ...] = ()) -> Any:
    """Wrap the yield methods of a real backend instance (keeps its class, so isinstance checks hold)."""
    for m in YIELD_METHODS:
        if not hasattr(backend, m):
            continue
        real = getattr(backend, m)

        def wrapper(*args: Any, __real=real, __m=m, **kw: Any) -> Any:
            path = args[0] if args else kw.get("path", kw.get("prefix", ""))
            e = sched.yield_point(__m, str(path)) if __m not in quiet else {}
            try:
                r = __real(*args, **kw)
            except BaseException as ex:
                e["result"] = ("raised", type(ex).__name__)
                raise
            if e.get("after_exc") is not None:
                e["result"] = ("raised-after-effect", type(e["after_exc"]).__name__)
                raise e.pop("after_exc")
            if __m in ("read_file", "read_file_with_etag") and str(path).endswith("version-hint.text"):
                e["result"] = r[0] if isinstance(r, tuple) else r
            elif __m == "exists":
                e["result"] = r
            else:
                e["result"] = "ok"
            return r
        setattr(backend, m, wrapper)
    real_create_lock = backend.create_lock

    def create_lock(path: str, timeout: float = 30.0) -> Any:
        if lock_mode == "grant_all":
            return GrantAllLock(sched, path)
        return CoopLockProvider(sched, real_create_lock(path, timeout), path)
    backend.create_lock = create_lock
    return backend


class FakeDatetime(_real_datetime):
    _sched: Optional[Scheduler] = None

    @classmethod
    def now(cls, tz: Any = None) -> Any:   # type: ignore[override]
        s = cls._sched
        assert s is not None
        return _real_datetime.fromtimestamp(s.now_ms() / 1000.0, tz)


def _s3_write_data_file(self: Any, file_path: str, records: Any, iceberg_schema: Any, file_format: Any = None,
                        partition_values: Any = None) -> Any:
    """Harness shim for the DATA-plane write on the fake object store (the real method writes through pyarrow's own
    S3 filesystem, which cannot run offline): same validation, bounds, checksum and DataFile as the real method, bytes
    stored through the backend's write_file."""
    import io

    import pyarrow as pa
    import pyarrow.parquet as pq
    from datashard.data_structures import DataFile, FileFormat
    from datashard.integrity import IntegrityChecker
    if records:
        self.validate_records_strict(records, iceberg_schema)
    arrow_schema = self.create_arrow_schema(iceberg_schema)
    lower = upper = None
    table = pa.Table.from_pylist(records or [], schema=arrow_schema)
    if records:
        lower, upper = self._compute_column_bounds(table, iceberg_schema)
    buf = io.BytesIO()
    pq.write_table(table, buf, compression="lz4")
    data = buf.getvalue()
    self.storage.write_file(file_path.lstrip("/"), data)
    return DataFile(file_path=file_path, file_format=file_format or FileFormat.PARQUET, partition_values=partition_values or {},
                    record_count=table.num_rows, file_size_in_bytes=len(data), lower_bounds=lower, upper_bounds=upper,
                    checksum=IntegrityChecker.compute_checksum(data))


@contextlib.contextmanager
def patched(sched: Scheduler, backend_factory: Callable[[str], Any], shared_rlock: bool = True):
    """Patch the library from outside: storage factory, clocks, uuid, sleep, metadata RLock, data-file I/O."""
    import time as _time

    import datashard.data_operations as dops
    import datashard.file_manager as fm
    import datashard.metadata_manager as mm
    import datashard.snapshot_manager as sm
    import datashard.storage_backend as sb
    import datashard.transaction as tx

    FakeDatetime._sched = sched
    saved = {
        "factory": sb.create_storage_backend,
        "mm_dt": mm.datetime, "sm_dt": sm.datetime, "fm_dt": fm.datetime,
        "uuid4": _uuid.uuid4, "sleep": _time.sleep,
        "mm_init": mm.MetadataManager.__init__,
        "write_data_file": dops.DataFileManager.write_data_file,
        "open_parquet_source": dops.DataFileManager.open_parquet_source,
    }

    def factory(table_path: str) -> Any:
        return backend_factory(table_path)

    def mm_init(self: Any, table_path: str, storage: Any) -> None:
        saved["mm_init"](self, table_path, storage)
        if shared_rlock:
            self._lock = CoopRLock(sched, f"tlock-{id(self)}")

    def write_data_file(self: Any, *a: Any, **kw: Any) -> Any:
        fp = kw.get("file_path", a[0] if a else "")
        e = sched.yield_point("DataW", str(fp))
        try:
            if isinstance(self.storage, sb.S3StorageBackend):
                r = _s3_write_data_file(self, *a, **kw)
            else:
                r = saved["write_data_file"](self, *a, **kw)
        except BaseException as ex:
            e["result"] = ("raised", type(ex).__name__)
            raise
        e["result"] = "ok"
        return r

    def open_parquet_source(self: Any, file_path: str) -> Any:
        sched.yield_point("DataR", str(file_path))
        return saved["open_parquet_source"](self, file_path)

    def sleep(_secs: float) -> None:
        if sched.me() is not None:
            sched.yield_point("Sleep", "")
        else:
            saved["sleep"](_secs)

    import datashard.file_lock as fl

    def _lock_handle() -> Any:
        """The FileLock instance on whose behalf a primitive of datashard.file_lock runs (nearest `self` with a lock_file)."""
        import sys
        f = sys._getframe(2)
        while f is not None:
            slf = f.f_locals.get("self")
            if slf is not None and hasattr(slf, "lock_file"):
                return slf
            f = f.f_back
        return None

    def _locklog(prim: str, fd: Any, ok: Any, known: bool = True) -> None:
        """One primitive on the lock file, as the kernel answered it (sched.locklog: the lock-layer trace, separate from the
        storage log; actors only -- setup code holds no lock while actors run)."""
        a = sched.me()
        if a is None and not getattr(sched, "log_setup_locks", False):
            return
        h = _lock_handle()
        # sched.log_setup_locks (process-family runs, procsched.py): what a handle does with the lock file BEFORE the actors
        # start -- a parent process that has used its lock and then forks its workers -- belongs to the lock-layer trace
        sched.locklog.append({"actor": a.name if a is not None else "setup", "pid": os.getpid(), "handle": id(h) if h is not None else None,
                              "prim": prim, "fd": fd if isinstance(fd, int) else None, "ok": ok, "known": known})

    class _FcntlProxy:
        """datashard.file_lock's view of fcntl.  The lock vocabulary of the schedulers and of Model/ProcLock.v is EXPLICIT:
        `flock` (non-blocking exclusive attempt, unlock) is the one locking primitive they know.  Constants pass through; any
        other callable of the module (lockf, fcntl, ioctl: primitives with another ownership discipline) still runs, but is
        recorded as an operation `LockPrimitive:<name>` that no projection knows -- a correspondence failure, never a silent
        pass-through.  With `sched.fine_locks`, a non-blocking exclusive flock attempt is a scheduling point of its own,
        BETWEEN the open of the lock file and the flock (flock locks the inode the open returned, not the path: what happens
        to the path in between matters); with `sched.fine_locks == "all"` EVERY primitive on the lock file is one (LockOpen,
        LockFlock, LockUnlock, LockClose: e.g. the window inside release() between the unlock and the close)."""

        def __init__(self, real: Any):
            self._real = real

        def __getattr__(self, name: str) -> Any:
            v = getattr(self._real, name)
            if not callable(v):
                return v

            def unknown(*a: Any, **kw: Any) -> Any:
                if sched.me() is not None:
                    sched.yield_point("LockPrimitive:" + name, "dlock")
                    _locklog(name, a[0] if a else None, None, known=False)
                return v(*a, **kw)
            return unknown

        def flock(self, fd: Any, flags: int) -> Any:
            r = self._real
            attempt = bool(flags & r.LOCK_EX) and bool(flags & r.LOCK_NB)
            if getattr(sched, "fine_locks", False) and sched.me() is not None and attempt:
                sched.yield_point("LockFlock", "dlock")
            prim = "trylock" if attempt else ("unlock" if flags & r.LOCK_UN else "flock:%d" % flags)
            if prim == "unlock" and getattr(sched, "fine_locks", False) == "all" and sched.me() is not None:
                sched.yield_point("LockUnlock", "dlock")
            try:
                out = r.flock(fd, flags)
            except OSError:
                _locklog(prim, fd, False, known=(attempt or bool(flags & r.LOCK_UN)))
                raise
            _locklog(prim, fd, True, known=(attempt or bool(flags & r.LOCK_UN)))
            return out

    class _OsProxy:
        """datashard.file_lock's view of os: open / close of the lock file are recorded in the lock-layer trace; anything
        that changes the directory entry of the lock file (unlink, remove, rename, replace) is recorded as a primitive outside
        the vocabulary."""

        def __init__(self, real: Any):
            self._real = real

        def __getattr__(self, name: str) -> Any:
            return getattr(self._real, name)

        def open(self, path: Any, flags: int, *a: Any, **kw: Any) -> Any:
            if getattr(sched, "fine_locks", False) == "all" and sched.me() is not None:
                sched.yield_point("LockOpen", "dlock")
            try:
                fd = self._real.open(path, flags, *a, **kw)
            except OSError:
                _locklog("open", None, False, known=not (flags & self._real.O_EXCL))
                raise
            _locklog("open", fd, True, known=not (flags & self._real.O_EXCL))
            return fd

        def close(self, fd: Any) -> Any:
            if getattr(sched, "fine_locks", False) == "all" and sched.me() is not None:
                sched.yield_point("LockClose", "dlock")
            _locklog("close", fd, True)
            return self._real.close(fd)

        def _outside(name: str) -> Any:       # noqa: N805
            def f(self: Any, *a: Any, **kw: Any) -> Any:
                _locklog("os." + name, None, None, known=False)
                return getattr(self._real, name)(*a, **kw)
            return f
        unlink = _outside("unlink")
        remove = _outside("remove")
        rename = _outside("rename")
        replace = _outside("replace")
        dup = _outside("dup")
        dup2 = _outside("dup2")
    saved["fl_fcntl"] = getattr(fl, "fcntl", None)
    if saved["fl_fcntl"] is not None:
        fl.fcntl = _FcntlProxy(saved["fl_fcntl"])
    saved["fl_os"] = fl.os
    fl.os = _OsProxy(saved["fl_os"])
    saved["get_fs"] = dops.DataFileManager._get_arrow_filesystem
    dops.DataFileManager._get_arrow_filesystem = lambda self: None      # never build a real pyarrow S3 filesystem
    sb.create_storage_backend = factory
    mm.datetime = FakeDatetime
    sm.datetime = FakeDatetime
    fm.datetime = FakeDatetime
    _uuid.uuid4 = sched.uuid4
    _time.sleep = sleep
    mm.MetadataManager.__init__ = mm_init
    dops.DataFileManager.write_data_file = write_data_file
    dops.DataFileManager.open_parquet_source = open_parquet_source
    try:
        yield
    finally:
        sb.create_storage_backend = saved["factory"]
        mm.datetime = saved["mm_dt"]
        sm.datetime = saved["sm_dt"]
        fm.datetime = saved["fm_dt"]
        _uuid.uuid4 = saved["uuid4"]
        _time.sleep = saved["sleep"]
        mm.MetadataManager.__init__ = saved["mm_init"]
        dops.DataFileManager.write_data_file = saved["write_data_file"]
        dops.DataFileManager.open_parquet_source = saved["open_parquet_source"]
        dops.DataFileManager._get_arrow_filesystem = saved["get_fs"]
        if saved["fl_fcntl"] is not None:
            fl.fcntl = saved["fl_fcntl"]
        fl.os = saved["fl_os"]
