"""Table HISTORIES for the C12 check: how the table a filter is judged on came to be.

A C12 case is {"cols", "kinds", "files": [rows of file 0, rows of file 1, ...]} and, optionally, "history": the
sequence of steps that built the table out of these files.  Without a history every file is appended by its own
`Table.append_records` (one manifest per file, never rewritten) -- the only shape the check used to produce.

  step   ["tx", ops] | ["abort", ops] | ["gc"] | ["reload"]
  op     ["append", i]          tx.append_data(rows of file i)   (several per transaction => ONE manifest, many entries)
         ["delete", [i, ...]]   tx.delete_files(stored paths)    (a strict subset of a manifest's files => the manifest is
                                                                  REWRITTEN, the survivors carried over as EXISTING entries)
         ["expire"]             tx.expire_snapshots(everything but the current snapshot)
  "abort" runs the operations and rolls the transaction back (its files never become part of the table);
  "gc" is Table.garbage_collect(grace_period_ms=0); "reload" continues on a fresh handle (load_table).

What the table holds afterwards is defined HERE, without the library, on flat lists (no manifests, no snapshots):
a committed transaction removes the files it deletes from the live list and adds the files it appends.
`live_indexes` is that definition; the SQL reference judges every scan against the rows of the live files.

The same list semantics is `spec_tx` in coq/Model/Manifest.v; the manifest machine of the library (Transaction.
_commit_file_ops: keep / rewrite / drop per manifest, entries stored through _encode_bound and read back through
_decode_bound) is `commit_tx` there, and Proofs/ManifestProofs.v shows that the two agree for every history.
"""
from __future__ import annotations

import json
import os
import time
from typing import Any, Dict, List, Optional, Tuple

Step = List[Any]


# ------------------------------------------------------------------------------------------------ list semantics
def default_history(nfiles: int) -> List[Step]:
    return [["tx", [["append", i]]] for i in range(nfiles)]


def history_of(case: Dict[str, Any]) -> List[Step]:
    h = case.get("history")
    return h if h is not None else default_history(len(case["files"]))


def live_indexes(case: Dict[str, Any]) -> List[int]:
    """Indexes (into case["files"]) of the files the table holds after the history, in table order."""
    live: List[int] = []
    for step in history_of(case):
        if step[0] != "tx":
            continue
        dels = {i for op in step[1] if op[0] == "delete" for i in op[1]}
        apps = [op[1] for op in step[1] if op[0] == "append"]
        live = [i for i in live if i not in dels] + apps
    return live


def live_files(case: Dict[str, Any]) -> List[List[Dict[str, Any]]]:
    if case.get("history") is None:
        return case["files"]
    return [case["files"][i] for i in live_indexes(case)]


def live_rows(case: Dict[str, Any]) -> List[Dict[str, Any]]:
    return [r for f in live_files(case) for r in f]


def transactions(case: Dict[str, Any]) -> List[Tuple[List[int], List[int]]]:
    """The committed transactions as (appended file indexes, deleted file indexes) -- the model's `tx` records."""
    out = []
    for step in history_of(case):
        if step[0] == "tx":
            out.append(([op[1] for op in step[1] if op[0] == "append"],
                        sorted({i for op in step[1] if op[0] == "delete" for i in op[1]})))
    return out


def shape(case: Dict[str, Any]) -> Dict[str, int]:
    """What a history exercises (statistics of the evidence file)."""
    st = {"transactions": 0, "multi_file_transactions": 0, "partial_manifest_deletes": 0, "whole_manifest_deletes": 0,
          "mixed_transactions": 0, "expiries": 0, "aborted": 0, "gc": 0, "reloads": 0, "manifests_rewritten_twice_or_more": 0}
    manifests: List[Tuple[List[int], int]] = []          # (file indexes, times rewritten)
    for step in history_of(case):
        if step[0] == "gc":
            st["gc"] += 1
        elif step[0] == "reload":
            st["reloads"] += 1
        elif step[0] == "abort":
            st["aborted"] += 1
        elif step[0] == "tx":
            st["transactions"] += 1
            apps = [op[1] for op in step[1] if op[0] == "append"]
            dels = {i for op in step[1] if op[0] == "delete" for i in op[1]}
            st["expiries"] += sum(1 for op in step[1] if op[0] == "expire")
            if len(apps) > 1:
                st["multi_file_transactions"] += 1
            if apps and dels:
                st["mixed_transactions"] += 1
            nxt = []
            for files, nrw in manifests:
                surv = [i for i in files if i not in dels]
                if len(surv) == len(files):
                    nxt.append((files, nrw))
                elif surv:
                    st["partial_manifest_deletes"] += 1
                    if nrw + 1 == 2:
                        st["manifests_rewritten_twice_or_more"] += 1
                    nxt.append((surv, nrw + 1))
                else:
                    st["whole_manifest_deletes"] += 1
            if apps:
                nxt.append((apps, 0))
            manifests = nxt
    return st


# ------------------------------------------------------------------------------------------------ generation
def gen_history(rng, max_steps: int = 6, rewrite_bias: float = 0.55) -> Tuple[List[Step], int]:
    """A random history and the number of files it uses.  `rewrite_bias`: how often a transaction deletes; most deletes
    take a strict, non-empty subset of one multi-file manifest (the manifest is rewritten), the others any live files
    (whole manifests dropped, several manifests touched at once)."""
    hist: List[Step] = []
    manifests: List[List[int]] = []
    n = 0
    for _ in range(rng.randint(1, max_steps)):
        r = rng.random()
        if hist and r < 0.07:
            hist.append(["reload"])
            continue
        if hist and r < 0.12:
            hist.append(["gc"])
            continue
        live = [i for m in manifests for i in m]
        ops: List[Any] = []
        if live and rng.random() < rewrite_bias:
            multi = [m for m in manifests if len(m) >= 2]
            if multi and rng.random() < 0.65:
                m = rng.choice(multi)
                dels = sorted(rng.sample(m, rng.randint(1, len(m) - 1)))
                if rng.random() < 0.25:                          # ... and something of another manifest as well
                    others = [i for i in live if i not in m]
                    if others:
                        dels = sorted(dels + [rng.choice(others)])
            else:
                k = rng.choice([1, 1, 2, 2, 3, len(live)])
                dels = sorted(rng.sample(live, min(k, len(live))))
            if len(dels) > 1 and rng.random() < 0.4:          # two delete_files calls in one transaction
                cut = rng.randint(1, len(dels) - 1)
                ops += [["delete", dels[:cut]], ["delete", dels[cut:]]]
            else:
                ops.append(["delete", dels])
        for _k in range(rng.choice([0, 0, 1, 1, 2, 3, 4] if ops else [1, 2, 2, 3, 3, 4])):
            ops.append(["append", n])
            n += 1
        if rng.random() < 0.15:
            ops.append(["expire"])
        rng.shuffle(ops)
        if rng.random() < 0.06:
            hist.append(["abort", ops])
            continue
        hist.append(["tx", ops])
        dels_now = {i for op in ops if op[0] == "delete" for i in op[1]}
        manifests = [[i for i in m if i not in dels_now] for m in manifests]
        manifests = [m for m in manifests if m]
        apps = [op[1] for op in ops if op[0] == "append"]
        if apps:
            manifests.append(apps)
    return hist, n


def rewrite_history(nfiles: int, variant: int = 0) -> List[Step]:
    """Directed: `nfiles` (>= 4) files, each appended once, in as few manifests as possible; every multi-file manifest is
    rewritten by a partial delete, one of them twice (variant 0: the second time by a transaction that also appends and
    expires, then a fresh handle; variant 1: then expiry and a collection that removes the replaced manifests and files)."""
    assert nfiles >= 4
    n = nfiles
    if variant % 2 == 0:
        return [["tx", [["append", i] for i in range(n - 1)]],
                ["tx", [["delete", [n - 2]]]],
                ["tx", [["append", n - 1], ["delete", [0]], ["expire"]]],
                ["reload"]]
    m = max(3, n // 2 + 1)
    a, b = list(range(m)), list(range(m, n))
    second: List[Any] = [["delete", [a[1]]]]
    if len(b) >= 2:
        second.append(["delete", [b[0]]])
    return [["tx", [["append", i] for i in a]], ["tx", [["append", i] for i in b]],
            ["tx", [["delete", [a[0]]]]],
            ["tx", second],
            ["tx", [["expire"]]],
            ["gc"]]


# ------------------------------------------------------------------------------------------------ shrinking helpers
def drop_file(case: Dict[str, Any], i: int) -> Dict[str, Any]:
    """The case without file i (history renumbered; operations and steps that become empty are removed)."""
    c2 = dict(case, files=case["files"][:i] + case["files"][i + 1:])
    if case.get("history") is None:
        return c2
    ren = lambda j: j - 1 if j > i else j
    hist: List[Step] = []
    for step in case["history"]:
        if step[0] in ("gc", "reload"):
            hist.append(list(step))
            continue
        ops = []
        for op in step[1]:
            if op[0] == "append":
                if op[1] != i:
                    ops.append(["append", ren(op[1])])
            elif op[0] == "delete":
                d = [ren(j) for j in op[1] if j != i]
                if d:
                    ops.append(["delete", d])
            else:
                ops.append(list(op))
        if ops:
            hist.append([step[0], ops])
    c2["history"] = hist
    return c2


def drop_step(case: Dict[str, Any], k: int) -> Optional[Dict[str, Any]]:
    """The case without step k -- only steps that append nothing (deletes, expiry, gc, reload, aborted)."""
    step = case["history"][k]
    if step[0] == "tx" and any(op[0] == "append" for op in step[1]):
        return None
    return dict(case, history=case["history"][:k] + case["history"][k + 1:])


def simplify_step(case: Dict[str, Any], k: int) -> List[Dict[str, Any]]:
    """Candidates with one non-append operation of step k removed."""
    step = case["history"][k]
    out = []
    if step[0] not in ("tx", "abort"):
        return out
    for j, op in enumerate(step[1]):
        if op[0] == "append" or len(step[1]) == 1:
            continue
        out.append(dict(case, history=case["history"][:k] + [[step[0], step[1][:j] + step[1][j + 1:]]] + case["history"][k + 1:]))
    return out


def well_formed(case: Dict[str, Any]) -> bool:
    """Every file appended at most once, deletes name files that are live, indexes in range."""
    seen, live = set(), []
    n = len(case["files"])
    for step in history_of(case):
        if step[0] in ("gc", "reload"):
            continue
        dels = [i for op in step[1] if op[0] == "delete" for i in op[1]]
        apps = [op[1] for op in step[1] if op[0] == "append"]
        if any(not (0 <= i < n) for i in dels + apps) or any(i in seen for i in apps) or any(i not in live for i in dels):
            return False
        seen.update(apps)
        if step[0] == "tx":
            live = [i for i in live if i not in dels] + apps
    return True


# ------------------------------------------------------------------------------------------------ the real library
def _written_path(tx) -> str:
    """Table-relative path of the data file the last tx.append_data() wrote."""
    wf = getattr(tx, "_written_files", None)
    if wf:
        return str(wf[-1])
    ops = getattr(tx, "_operations", None)
    if ops and ops[-1].get("type") == "append_files":
        return str(ops[-1]["files"][-1].file_path)
    raise RuntimeError("cannot tell which data file the transaction wrote")


def build(path: str, case: Dict[str, Any]):
    """Create the table at `path` and run the case's history on it; returns (table handle, file index -> stored path)."""
    from datashard import create_table, load_table
    from datashard.data_structures import Schema
    fields = [{"id": i + 1, "name": c, "type": k, "required": False} for i, (c, k) in enumerate(zip(case["cols"], case["kinds"]))]
    table = create_table(path, Schema(schema_id=1, fields=fields))
    if case.get("history") is None:
        for rows in case["files"]:
            table.append_records([dict(r) for r in rows])
        return table, {}
    paths: Dict[int, str] = {}
    for step in case["history"]:
        if step[0] == "reload":
            table = load_table(path)
            continue
        if step[0] == "gc":
            table.garbage_collect(grace_period_ms=0)
            continue
        tx = table.new_transaction()
        tx.begin()
        for op in step[1]:
            if op[0] == "append":
                tx.append_data([dict(r) for r in case["files"][op[1]]])
                paths[op[1]] = _written_path(tx)
            elif op[0] == "delete":
                # the stored path is "/data/<name>", the written one "data/<name>": both spellings name the file
                tx.delete_files([("/" + paths[j].lstrip("/")) if j % 2 else paths[j].lstrip("/") for j in op[1]])
            elif op[0] == "expire":
                tx.expire_snapshots(int(time.time() * 1000) + 3600 * 1000)
            else:
                raise ValueError(f"unknown history operation {op!r}")
        if step[0] == "abort":
            tx.rollback()
        else:
            tx.commit()
    return table, paths


def manifest_view(table, paths: Dict[int, str]) -> List[List[Tuple[int, List[Tuple[int, str, Any]], List[Tuple[int, str, Any]]]]]:
    """The current snapshot's manifests as the library stores them: per manifest, per entry
    (file index, [(field id, stored tag, decoded value)] of the lower bounds, the same of the upper bounds).
    The tag is read from the RAW stored string; the value is what FileManager._decode_bound makes of it."""
    import fastavro
    from datashard.file_manager import FileManager
    by_path = {p.lstrip("/"): i for i, p in paths.items()}
    snap = table.current_snapshot()
    if snap is None:
        return []
    fm = table.file_manager
    out = []
    for mf in fm.read_manifest_list_file(snap.manifest_list.lstrip("/")):
        ents = []
        with table.storage.open_file(mf.manifest_path.lstrip("/")) as stream:
            for rec in fastavro.reader(stream):
                df = rec["data_file"]

                def side(m):
                    res = []
                    for k, raw in sorted((m or {}).items(), key=lambda kv: int(kv[0])):
                        try:
                            payload = json.loads(raw)
                            tag = payload["t"] if isinstance(payload, dict) and "t" in payload and "v" in payload else "<untagged>"
                        except (ValueError, TypeError):
                            tag = "<untagged>"
                        res.append((int(k), str(tag), FileManager._decode_bound(raw)))
                    return res
                ents.append((by_path.get(df["file_path"].lstrip("/"), -1), side(df.get("lower_bounds")), side(df.get("upper_bounds"))))
        out.append(ents)
    return out
