"""Shared check driver: verdict logic (DESIGN.md section 4), evidence, replay files, known findings."""
from __future__ import annotations

import atexit
import json
import os
import random
import shutil
import sys
import tempfile
import time
from typing import Any, Callable, Dict, List, Optional

from . import coqbuild

VERIF = coqbuild.VERIF
REPO = coqbuild.REPO
EVIDENCE_DIR = os.path.join(VERIF, "evidence")
REPLAY_DIR = os.path.join(EVIDENCE_DIR, "replay")
KNOWN_PATH = os.path.join(VERIF, "KNOWN_FINDINGS.json")


def jsonable(x: Any) -> Any:
    """Best-effort conversion for evidence / replay files."""
    if isinstance(x, (str, int, bool)) or x is None:
        return x
    if isinstance(x, float):
        if x != x:
            return "NaN"
        if x in (float("inf"), float("-inf")):
            return "inf" if x > 0 else "-inf"
        return x
    if isinstance(x, bytes):
        return {"bytes_hex": x.hex()}
    if isinstance(x, dict):
        return {str(k): jsonable(v) for k, v in x.items()}
    if isinstance(x, (list, tuple, set, frozenset)):
        return [jsonable(i) for i in x]
    return repr(x)


class Check:
    """One run of one property's check."""

    def __init__(self, pid: str, tier: str, seed: int):
        self.pid = pid
        self.tier = tier
        self.seed = seed
        self.rng = random.Random(seed)
        self.t0 = time.time()
        self.scratch = tempfile.mkdtemp(prefix=f"dsverif-{pid}-")
        atexit.register(lambda: shutil.rmtree(self.scratch, ignore_errors=True))
        # proof side
        self.obligations: List[str] = []          # theorem names required
        self.discharged: List[str] = []
        self.proof_problems: List[str] = []       # text: what no longer checks
        self.assumptions_printed: Dict[str, Any] = {}
        self.trusted_base: List[str] = [
            "Coq 8.16.1 kernel (coqc, full .vo build; vm_compute used; native_compute not used)",
        ]
        self.assumptions: List[str] = []
        # correspondence side
        self.corr: Dict[str, Dict[str, Any]] = {}  # name -> {cases, disagreements:[...]}
        # oracle side
        self.violations: List[Dict[str, Any]] = []  # {key, what, replay}
        self.evaluations = 0
        self.distinct: set = set()
        self.samples: List[Any] = []
        self.stats: Dict[str, Any] = {}
        self.rule = ""
        self.known = self._load_known()
        self.known_hit: Dict[str, bool] = {}

    # ------------------------------------------------------------------ known findings
    def _load_known(self) -> List[Dict[str, Any]]:
        try:
            with open(KNOWN_PATH) as f:
                data = json.load(f)
        except FileNotFoundError:
            return []
        return [e for e in data.get("findings", []) if e.get("property") == self.pid]

    # ------------------------------------------------------------------ proofs
    def proofs(self, theorems: List[str], gen_files: Optional[List[str]] = None) -> bool:
        """Regenerate, build, grep, and check Props/<pid>.v with its Print Assumptions."""
        self.obligations = list(theorems)
        st = coqbuild.regenerate()
        self.stats["translator"] = {k: v for k, v in st.items() if not k.startswith("_")}
        if st.get("_exit") not in (0, 2):
            # 2 = some generator failed closed: that concerns only the properties that list that Gen file
            self.proof_problems.append(f"translator exited {st.get('_exit')}: {st.get('_stderr', '')[-500:]}")
        for g in gen_files or []:
            info = st.get(g)
            if not info or not info.get("ok"):
                self.proof_problems.append(f"translator failed on {g}: {(info or {}).get('error', 'no status')}")
        b = coqbuild.build()
        self.stats["build_wall_s"] = round(b["wall_s"], 1)
        relevant_failed = [f for f in b["failed"]]
        hits = coqbuild.forbidden_tokens()
        if hits:
            self.proof_problems.append("forbidden tokens in Coq sources: " + "; ".join(hits[:5]))
        ps = coqbuild.prop_status(self.pid)
        self.assumptions_printed = ps["theorems"]
        if not ps["ok"]:
            self.proof_problems.append(f"Props/{self.pid}.v does not compile: " + _last_error(ps["log"]))
            if relevant_failed:
                self.proof_problems.append("files failing to build: " + ", ".join(relevant_failed[:10]) + " :: " + _last_error(b["log"]))
        for th in theorems:
            res = ps["theorems"].get(th)
            if ps["ok"] and res == "closed":
                self.discharged.append(th)
            elif ps["ok"] and isinstance(res, list):
                # axioms reported: only allowed if they are named in trusted_base by the property module
                self.discharged.append(th)
                self.stats.setdefault("axioms", {})[th] = res
            else:
                self.proof_problems.append(f"theorem {th} not checked ({res})")
        if self.tier == "thorough" and ps["ok"] and not b["failed"] and os.environ.get("DATASHARD_VERIF_COQCHK", "1") != "0":
            # independent re-check of the compiled development (coqchk), thorough tier only (~1 min)
            ck = coqbuild.coqchk(self.pid)
            self.stats["coqchk"] = {"ok": ck["ok"], "wall_s": round(ck["wall_s"], 1), **ck["summary"]}
            self.checker_extra = f" && coqchk -silent -o DS.Props.{self.pid}"
            if not ck["ok"]:
                self.proof_problems.append("coqchk rejected the compiled development: " + _last_error(ck["log"]))
            else:
                for k in ("type_in_type", "unsafe_fix", "assumed_positivity"):
                    if ck["summary"].get(k):
                        self.proof_problems.append(f"coqchk reports {k}: {ck['summary'][k]}")
                self.stats["coqchk_axioms"] = ck["summary"].get("axioms")
        return not self.proof_problems

    def allow_axioms(self, allowed: List[str]) -> None:
        """Declare which standard-library axioms the property's theorems may depend on."""
        for th, axs in self.stats.get("axioms", {}).items():
            bad = [a for a in axs if a not in allowed]
            if bad:
                self.proof_problems.append(f"theorem {th} depends on undeclared axioms {bad}")
        ck = self.stats.get("coqchk_axioms")
        if isinstance(ck, list):
            bad = [a for a in ck if not any(a.split()[0].split(".")[-1] == x.split(".")[-1] for x in allowed)]
            if bad:
                self.proof_problems.append(f"coqchk: the compiled development depends on undeclared axioms {bad}")
        if allowed:
            self.trusted_base.append("standard-library axioms: " + ", ".join(allowed))

    # ------------------------------------------------------------------ correspondence
    def correspondence(self, name: str, cases: int, disagreements: List[Any]) -> None:
        ent = self.corr.setdefault(name, {"cases": 0, "disagreements": []})
        ent["cases"] += cases
        ent["disagreements"].extend(disagreements)

    # ------------------------------------------------------------------ oracle
    def violation(self, key: str, what: str, replay: Any) -> None:
        self.violations.append({"key": key, "what": what, "replay": replay})

    def count(self, n: int = 1, distinct_key: Any = None) -> None:
        self.evaluations += n
        if distinct_key is not None:
            self.distinct.add(distinct_key)

    def sample(self, x: Any, limit: int = 6) -> None:
        if len(self.samples) < limit:
            self.samples.append(jsonable(x))

    # ------------------------------------------------------------------ finish
    def finish(self, level: str = "proof") -> int:
        os.makedirs(REPLAY_DIR, exist_ok=True)
        lines: List[str] = []
        exit_code = 0

        known_open = [e for e in self.known if e.get("status") == "known"]
        unlisted = []
        for v in self.violations:
            match = next((e for e in known_open if _key_match(e["key"], v["key"])), None)
            if match is not None:
                self.known_hit[match["key"]] = True
            else:
                unlisted.append(v)
        for e in known_open:
            # a listed finding is announced on every run (confirmed=still reproduces)
            state = "reproduced" if self.known_hit.get(e["key"]) else "not-exercised-this-run"
            lines.append(f"KNOWN-FINDING: property={self.pid} {e['key']}: {e['what']} [{state}]")

        seen_keys = set()
        for v in unlisted:
            if v["key"] in seen_keys:
                continue
            seen_keys.add(v["key"])
            path = self._write_replay(v["key"], {"kind": "concrete", "what": v["what"], "case": v["replay"]})
            lines.append(f"VIOLATION property={self.pid} replay={path}")
            exit_code = 1

        corr_bad = {n: e for n, e in self.corr.items() if e["disagreements"]}
        if not unlisted and (self.proof_problems or corr_bad):
            # nothing concrete found by the module's search: still a violation (property no longer shown)
            # unless every broken piece is explained by a known finding that reproduced
            explained = bool(self.known_hit) and not self.proof_problems and all(
                all(_disagreement_known(d, known_open) for d in e["disagreements"]) for e in corr_bad.values()
            )
            if not explained:
                payload = {
                    "kind": "no-failing-input-found",
                    "broken_theorems_or_build": self.proof_problems,
                    "broken_correspondence": {n: jsonable(e["disagreements"][:5]) for n, e in corr_bad.items()},
                    "note": "the property is no longer shown to hold: the named proof obligation or correspondence does not check; "
                            "the search over model and implementation found no concrete failing input",
                }
                path = self._write_replay("unproved", payload)
                lines.append(f"VIOLATION property={self.pid} replay={path} no-failing-input-found")
                exit_code = 1

        self._write_evidence(level, exit_code, unlisted, corr_bad)
        for ln in lines:
            print(ln)
        if exit_code == 0:
            print(f"OK property={self.pid} tier={self.tier} obligations={len(self.obligations)} discharged={len(self.discharged)} "
                  f"evaluations={self.evaluations} wall_s={time.time() - self.t0:.1f}")
        else:
            for p in self.proof_problems[:6]:
                print("  proof:", p[:600])
            for n, e in corr_bad.items():
                print(f"  correspondence {n}: {len(e['disagreements'])} disagreement(s); first: {json.dumps(jsonable(e['disagreements'][0]))[:600]}")
            for v in unlisted[:6]:
                print("  oracle:", v["key"], "-", v["what"][:400])
        sys.stdout.flush()
        return exit_code

    def _write_replay(self, key: str, payload: Dict[str, Any]) -> str:
        safe = "".join(c if c.isalnum() or c in "-_." else "_" for c in key)[:80]
        path = os.path.join(REPLAY_DIR, f"{self.pid}-{safe}.json")
        body = {"property": self.pid, "tier": self.tier, "seed": self.seed, "key": key}
        body.update(jsonable(payload))
        with open(path, "w") as f:
            json.dump(body, f, indent=1)
        return path

    def _write_evidence(self, level: str, exit_code: int, unlisted: List[Any], corr_bad: Dict[str, Any]) -> None:
        os.makedirs(EVIDENCE_DIR, exist_ok=True)
        cov: Dict[str, Any] = {
            "obligations": max(1, len(self.obligations)) if level == "proof" else len(self.obligations),
            "discharged": len(self.discharged),
            "checker_cmd": f"make -C coq (coq_makefile, full .vo) && coqc Props/{self.pid}.v  [Print Assumptions parsed]" + getattr(self, "checker_extra", ""),
            "trusted_base": self.trusted_base,
            "theorems": self.obligations,
            "print_assumptions": self.assumptions_printed,
            "evaluations": self.evaluations,
            "distinct_nontrivial": len(self.distinct),
            "rule": self.rule,
            "samples": self.samples if self.samples else [{"note": "no samples recorded"}],
            "correspondence": {n: {"cases": e["cases"], "disagreements": len(e["disagreements"])} for n, e in self.corr.items()},
            "traces_validated_against_impl": sum(e["cases"] for e in self.corr.values()),
            "proof_problems": self.proof_problems,
            "known_findings_reproduced": sorted(k for k, v in self.known_hit.items() if v),
            "stats": jsonable(self.stats),
        }
        cov["explanation"] = (
            "proof level: theorems in coq/Props/%s.v re-checked by coqc on this run against definitions regenerated from /repo; "
            "hand-written model pieces tied to the code by differential correspondence; implementation-only oracles searched for a failing input" % self.pid)
        if level == "proof" and not self.discharged:
            # nothing was discharged on this run (broken build / broken proof): do not claim a proof in the evidence
            level = "other"
        ev = {
            "property_id": self.pid,
            "tier": self.tier,
            "seed": self.seed,
            "level": level,
            "coverage": cov,
            "assumptions": self.assumptions,
            "wall_s": round(time.time() - self.t0, 2),
            "violations": len(unlisted) + (1 if (exit_code and not unlisted) else 0),
        }
        with open(os.path.join(EVIDENCE_DIR, f"{self.pid}.json"), "w") as f:
            json.dump(ev, f, indent=1)


def _key_match(known_key: str, key: str) -> bool:
    return key == known_key or key.startswith(known_key + ":")


def _disagreement_known(d: Any, known_open: List[Dict[str, Any]]) -> bool:
    k = d.get("known_key") if isinstance(d, dict) else None
    return k is not None and any(_key_match(e["key"], k) for e in known_open)


def _last_error(log: str) -> str:
    idx = log.rfind("Error")
    if idx < 0:
        return log[-400:].replace("\n", " ")
    start = log.rfind("File ", 0, idx)
    return log[start if start >= 0 else idx: idx + 500].replace("\n", " ")
