"""Bounded execution of the parts of a check that run the library under test (C10 harness).

A change to the library may make it loop or eat memory.  That must become a reported violation, never a
stuck check.  Two layers:

  op_timeout(seconds)        a per-operation wall-clock limit inside the process (SIGALRM / setitimer): a library
                             call that does not return raises OpTimeout at the call site, where the harness turns it
                             into a failing case with the concrete input that was running;
  run_phases(ctx, ...)       every phase of the check runs in its own interpreter (subprocess, own session) with a
                             deadline and a resident-memory cap watched by the parent; a phase that is killed is
                             reported as violation `hang:<phase>` / `memory:<phase>` naming the case it was working
                             on (the phase writes that to a progress file before it starts each case).
Phases also run concurrently, which is what keeps the quick tier short.
"""
from __future__ import annotations

import contextlib
import os
import pickle
import random
import signal
import subprocess
import sys
import tempfile
import threading
import time
from typing import Any, Dict, List, Optional, Tuple


class OpTimeout(BaseException):
    """Not an Exception on purpose: neither the library's best-effort `except Exception` blocks nor the harness's own
    may swallow it (the timer is one-shot; a swallowed timeout would leave the rest of the operation unbounded)."""


@contextlib.contextmanager
def op_timeout(seconds: float, what: str = "library operation"):
    """Raise OpTimeout inside the block when it runs longer than `seconds` (main thread only; otherwise no limit)."""
    if threading.current_thread() is not threading.main_thread() or not hasattr(signal, "setitimer"):
        yield
        return

    def on_alarm(signum, frame):
        raise OpTimeout(f"{what} did not return within {seconds:g} s")

    old = signal.signal(signal.SIGALRM, on_alarm)
    signal.setitimer(signal.ITIMER_REAL, seconds)
    try:
        yield
    finally:
        signal.setitimer(signal.ITIMER_REAL, 0)
        signal.signal(signal.SIGALRM, old)


class PhaseCtx:
    """What a phase may use of harness.lib.common.Check; everything is recorded and merged by the parent."""

    def __init__(self, pid: str, tier: str, seed: int, phase: str, scratch: str, progress_path: Optional[str]):
        self.pid = pid
        self.tier = tier
        self.seed = seed
        self.phase = phase
        self.rng = random.Random(f"{seed}:{phase}")
        self.scratch = scratch
        self._progress_path = progress_path
        self.violations: List[Dict[str, Any]] = []
        self.corr: Dict[str, Dict[str, Any]] = {}
        self.evaluations = 0
        self.distinct: set = set()
        self.samples: List[Any] = []
        self.stats: Dict[str, Any] = {}
        self.proof_problems: List[str] = []

    def violation(self, key: str, what: str, replay: Any) -> None:
        self.violations.append({"key": key, "what": what, "replay": replay})

    def correspondence(self, name: str, cases: int, disagreements: List[Any]) -> None:
        ent = self.corr.setdefault(name, {"cases": 0, "disagreements": []})
        ent["cases"] += cases
        ent["disagreements"].extend(disagreements)

    def count(self, n: int = 1, distinct_key: Any = None) -> None:
        self.evaluations += n
        if distinct_key is not None:
            self.distinct.add(hash(repr(distinct_key)))

    def sample(self, x: Any, limit: int = 6) -> None:
        if len(self.samples) < limit:
            self.samples.append(x)

    def progress(self, text: str) -> None:
        if self._progress_path:
            try:
                with open(self._progress_path, "w") as f:
                    f.write(text[:4000])
            except OSError:
                pass

    def dump(self) -> Dict[str, Any]:
        return {"violations": self.violations, "corr": self.corr, "evaluations": self.evaluations,
                "distinct": self.distinct, "samples": self.samples, "stats": self.stats,
                "proof_problems": self.proof_problems}


def _rss_bytes(pid: int) -> int:
    try:
        with open(f"/proc/{pid}/status") as f:
            for line in f:
                if line.startswith("VmRSS:"):
                    return int(line.split()[1]) * 1024
    except OSError:
        pass
    return 0


def _kill_group(p: subprocess.Popen) -> None:
    try:
        os.killpg(p.pid, signal.SIGKILL)
    except (ProcessLookupError, PermissionError):
        pass
    try:
        p.wait(timeout=10)
    except Exception:
        pass


def run_phases(ctx, module: str, phases: List[Tuple[str, float]], mem_limit: int = 6 << 30, max_parallel: int = 4) -> None:
    """Run `python -m <module> --phase NAME ...` for every (NAME, deadline_s); merge the recorded results into ctx."""
    td = tempfile.mkdtemp(prefix="phases-", dir=ctx.scratch)
    pending = list(phases)
    running: List[Dict[str, Any]] = []
    done: List[Dict[str, Any]] = []
    while pending or running:
        while pending and len(running) < max_parallel:
            name, deadline = pending.pop(0)
            out = os.path.join(td, f"{name}.pickle")
            prog = os.path.join(td, f"{name}.progress")
            log = open(os.path.join(td, f"{name}.log"), "wb")
            scratch = os.path.join(td, f"{name}.scratch")
            os.makedirs(scratch, exist_ok=True)
            p = subprocess.Popen(
                [sys.executable, "-u", "-m", module, "--phase", name, "--tier", ctx.tier, "--seed", str(ctx.seed),
                 "--out", out, "--progress", prog, "--scratch", scratch],
                stdout=log, stderr=subprocess.STDOUT, start_new_session=True)
            running.append({"name": name, "p": p, "t0": time.time(), "deadline": deadline, "out": out, "prog": prog,
                            "log": log, "state": None})
        time.sleep(0.1)
        for r in list(running):
            p = r["p"]
            if p.poll() is not None:
                r["state"] = "exited"
            elif time.time() - r["t0"] > r["deadline"]:
                _kill_group(p)
                r["state"] = "hang"
            elif _rss_bytes(p.pid) > mem_limit:
                _kill_group(p)
                r["state"] = "memory"
            if r["state"]:
                r["wall"] = time.time() - r["t0"]
                r["log"].close()
                running.remove(r)
                done.append(r)
    for r in done:
        name = r["name"]
        ctx.stats[f"phase_{name}_wall_s"] = round(r["wall"], 1)
        last = ""
        try:
            with open(r["prog"]) as f:
                last = f.read()
        except OSError:
            pass
        data = None
        if r["state"] == "exited":
            try:
                with open(r["out"], "rb") as f:
                    data = pickle.load(f)
            except Exception:
                data = None
        if data is not None:
            for v in data["violations"]:
                ctx.violation(v["key"], v["what"], v["replay"])
            for cname, ent in data["corr"].items():
                ctx.correspondence(cname, ent["cases"], ent["disagreements"])
            ctx.evaluations += data["evaluations"]
            ctx.distinct |= data["distinct"]
            for s in data["samples"]:
                ctx.sample(s)
            ctx.stats.update(data["stats"])
            ctx.proof_problems.extend(data["proof_problems"])
            continue
        try:
            with open(r["log"].name, "rb") as f:
                tail = f.read()[-1500:].decode("utf-8", "replace")
        except OSError:
            tail = ""
        if r["state"] == "hang":
            ctx.violation(f"hang:{name}", f"phase '{name}' did not finish within {r['deadline']:g} s (library loops or blocks?); "
                                          f"it was working on: {last[:600]}",
                          {"kind": "hang", "phase": name, "deadline_s": r["deadline"], "last_case": last})
        elif r["state"] == "memory":
            ctx.violation(f"memory:{name}", f"phase '{name}' exceeded {mem_limit >> 20} MiB resident memory; it was working on: {last[:600]}",
                          {"kind": "memory", "phase": name, "limit_bytes": mem_limit, "last_case": last})
        else:
            # the phase died (interpreter abort, harness bug): never a pass
            ctx.proof_problems.append(f"phase '{name}' ended with exit code {r['p'].returncode} without a result; "
                                      f"last case: {last[:300]}; output tail: {tail[-600:]}")


def child_main(argv: List[str], pid: str, phase_table: Dict[str, Any], env_factory) -> None:
    """Entry point of a phase subprocess."""
    import argparse
    ap = argparse.ArgumentParser()
    ap.add_argument("--phase", required=True)
    ap.add_argument("--tier", required=True)
    ap.add_argument("--seed", type=int, required=True)
    ap.add_argument("--out", required=True)
    ap.add_argument("--progress", default=None)
    ap.add_argument("--scratch", required=True)
    a = ap.parse_args(argv)
    pctx = PhaseCtx(pid, a.tier, a.seed, a.phase, a.scratch, a.progress)
    try:
        with env_factory(pctx):
            phase_table[a.phase](pctx)
    except BaseException:
        import traceback
        pctx.proof_problems.append(f"phase '{a.phase}' crashed: " + traceback.format_exc()[-1200:])
    tmp = a.out + ".tmp"
    with open(tmp, "wb") as f:
        pickle.dump(pctx.dump(), f)
    os.replace(tmp, a.out)
    sys.stdout.flush()
    os._exit(0)          # pyarrow's teardown may abort; the result is already on disk
