"""Shared machinery for the garbage-collection checks (C05, C07).

  * IndepReader      reads a table directory WITHOUT importing datashard (json + fastavro + pyarrow):
                     retained snapshots, their lists / manifests / data files, markers; resolves stored
                     paths the way every reader does (strip leading "/", join to the table root)
  * classify / store_term   the directory as a term of Model/GC.v `store`
  * TracingStorage   wraps the real storage backend object: records every call, injects faults
  * run_collect      one real Table.garbage_collect under a fixed clock, with optional fault plan
  * model_exprs / compare   the same case through the Coq model (gc_run) and the comparison
"""
from __future__ import annotations

import copy
import io
import json
import os
import re
import shutil
import threading
from typing import Any, Dict, List, Optional, Sequence, Set, Tuple

import fastavro

from harness.lib.coqio import to_coq

INFLIGHT = "metadata/inflight"
OPS = {"exists": "E", "open_file": "O", "read_file": "R", "list_files": "L", "get_modified_time": "S", "delete_file": "D",
       "read_json": "J"}        # J: only the metadata files are read this way (pointer plane, Model/GCPointer.v)
FAULT_CODE = {"raise": 1, "missing": 1, "perm": 1, "timeout": 1, "raisex": 2, "value": 1, "bad": 3}
RAISING = ("raise", "missing", "perm", "timeout", "raisex", "value")
FAULT_CTOR = {"raise": "FRaise", "missing": "FRaise", "perm": "FRaise", "timeout": "FRaise", "raisex": "FRaiseX", "value": "FRaise", "bad": "FBad",
              "stream1": "FRaise", "stream2": "FRaiseX", "stream3": "FBad"}


HINT_KEY = "metadata.version-hint.text"
_META_FILE = re.compile(r"^metadata/v\d+[^/]*\.metadata\.json$")


def is_pointer_plane(key: str) -> bool:
    """Version hint, metadata JSON files, the metadata/ listing of the recovery scan: metadata_manager territory
    (C10 / C14), outside the collector model."""
    return key == HINT_KEY or key == "metadata" or bool(_META_FILE.match(key))


def is_announcement_plane(key: str) -> bool:
    """metadata/collecting/: Table.garbage_collect announces a collection run there before collect() starts and withdraws
    the announcement when it ends (handshake with Transaction.append_files, C06); outside the collector model."""
    return key.rstrip("/") == "metadata/collecting" or key.startswith("metadata/collecting/")


class NotOSError(Exception):
    """Stands for a storage exception that is not an OSError (e.g. botocore ClientError)."""


# ------------------------------------------------------------------------------------------ independent reader
def resolve(p: str) -> str:
    return p.lstrip("/")


def list_tree(root: str) -> Dict[str, float]:
    """{table-relative key: mtime seconds} for every file below root."""
    root = os.path.realpath(root)
    out: Dict[str, float] = {}
    for r, _d, fs in os.walk(root):
        for f in fs:
            full = os.path.join(r, f)
            out[os.path.relpath(full, root).replace(os.sep, "/")] = os.path.getmtime(full)
    return out


def parse_avro(bs: bytes) -> Tuple[str, Optional[List[str]]]:
    """('list'|'manifest', paths) / ('notavro', None) / ('trunc', None)."""
    try:
        rd = fastavro.reader(io.BytesIO(bs))
        recs = list(rd)
        name = (rd.writer_schema or {}).get("name")
    except ValueError:
        return "notavro", None
    except Exception:
        return "trunc", None
    if name == "manifest_file":
        return "list", [r["manifest_path"] for r in recs]
    if name == "manifest_entry":
        return "manifest", [r["data_file"]["file_path"] for r in recs]
    return "notavro", None


def parse_legacy_json(bs: bytes) -> Tuple[str, Optional[List[str]]]:
    """The legacy JSON format of a manifest list / manifest: ('list'|'manifest', paths) / ('notavro', None)."""
    try:
        d = json.loads(bs.decode("utf-8"))
        if isinstance(d, dict) and isinstance(d.get("manifests"), list):
            return "list", [m["manifest_path"] for m in d["manifests"]]
        if isinstance(d, dict) and isinstance(d.get("files"), list):
            return "manifest", [f["file_path"] for f in d["files"]]
    except Exception:  # noqa: BLE001
        pass
    return "notavro", None


CAUGHT_BY_READERS = (ValueError, IndexError, StopIteration, OSError)   # pinned by translator/gen_norm.py (AVRO_CAUGHT)


def avro_probe(stream: Any) -> Dict[str, Any]:
    """Decode an Avro container record by record, independently of datashard.

    -> {"state": "complete" | "partial" | "noheader", "kind": "list" | "manifest" | None, "paths": [decoded so far],
        "caught": bool (the failure is of the class the library's readers answer with the JSON fallback), "error": str}
    "partial": the header was read, `paths` were decoded, THEN the stream failed (damaged later record / block / sync
    marker, read error mid-stream)."""
    out: Dict[str, Any] = {"state": "noheader", "kind": None, "paths": [], "records": [], "caught": True, "error": ""}
    try:
        rd = fastavro.reader(stream)
        ws = rd.writer_schema if isinstance(rd.writer_schema, dict) else {}
        fields = {f.get("name") for f in ws.get("fields", []) if isinstance(f, dict)}
    except Exception as e:  # noqa: BLE001
        out["caught"] = isinstance(e, CAUGHT_BY_READERS)
        out["error"] = f"{type(e).__name__}: {str(e)[:80]}"
        return out
    # what the records ARE is decided by their fields (the library's readers index the record, they do not look at its name)
    out["kind"] = "list" if "manifest_path" in fields else "manifest" if "data_file" in fields else None
    out["state"] = "partial"
    if out["kind"] is None:
        out["caught"], out["error"] = False, "KeyError: the records carry neither manifest_path nor data_file"
        return out
    try:
        for r in rd:
            out["paths"].append(r["manifest_path"] if out["kind"] == "list" else r["data_file"]["file_path"])
            out["records"].append(r)
    except Exception as e:  # noqa: BLE001
        out["caught"] = isinstance(e, CAUGHT_BY_READERS)
        out["error"] = f"{type(e).__name__}: {str(e)[:80]}"
        return out
    out["state"] = "complete"
    return out


class FaultyStream:
    """A read stream over `data` that misbehaves at offset k.  mode "raise": the read that would cross k raises OSError
    (connection reset mid-download); mode "eof": the stream silently ends at k (short read)."""

    def __init__(self, data: bytes, mode: str, k: int):
        self.data, self.mode, self.k, self.pos = data, mode, k, 0

    def read(self, n: int = -1) -> bytes:
        end = len(self.data) if n is None or n < 0 else min(len(self.data), self.pos + n)
        if self.mode == "raise" and end > self.k:
            raise OSError(104, "injected: connection reset while reading the stream")
        if self.mode == "eof":
            end = min(end, self.k)
        out = self.data[self.pos:end]
        self.pos = max(self.pos, end)
        return out

    def close(self) -> None:
        pass

    def __enter__(self) -> "FaultyStream":
        return self

    def __exit__(self, *a: Any) -> None:
        pass


def as_file(bs: bytes) -> Any:
    """Bytes as the kind of stream the local backend hands out (a buffered binary file: read(n < -1) raises ValueError)."""
    return io.BufferedReader(io.BytesIO(bs))      # type: ignore[arg-type]


def classify(key: str, bs: bytes) -> Tuple[str, Any]:
    """Content class of a file, as Model/GC.v `content` (independent of datashard)."""
    if key.startswith(INFLIGHT + "/"):
        try:
            p = json.loads(bs.decode("utf-8")).get("file_path")
            return ("marker", p if isinstance(p, str) else None)
        except Exception:
            return ("marker", None)
    if key.startswith("metadata/manifests/") or key.startswith("data/"):
        pr = avro_probe(as_file(bs))
        if pr["state"] == "complete":
            return (pr["kind"] + ":avro", pr["paths"])
        if pr["state"] == "partial":
            return ("partial", (pr["paths"], pr["caught"]))
        if not pr["caught"]:
            return ("trunc", None)
        try:
            d = json.loads(bs.decode("utf-8"))
            if isinstance(d, dict) and "manifests" in d:
                return ("list:json", [m["manifest_path"] for m in d["manifests"]])
            if isinstance(d, dict) and "files" in d:
                return ("manifest:json", [f["file_path"] for f in d["files"]])
            if isinstance(d, dict):
                return ("jsonempty", None)
        except Exception:
            pass
        return ("data", None) if key.startswith("data/") else ("garbage", None)
    return ("data", None)


def content_term(c: Tuple[str, Any]) -> str:
    kind, v = c
    if kind == "marker":
        return "(CMarker None)" if v is None else f"(CMarker (Some {to_coq(v)}))"
    if kind in ("list:avro", "list:json"):
        return f"(CList {'FAvro' if kind.endswith('avro') else 'FJson'} {to_coq(list(v))})"
    if kind in ("manifest:avro", "manifest:json"):
        return f"(CManifest {'FAvro' if kind.endswith('avro') else 'FJson'} {to_coq(list(v))})"
    if kind == "trunc":
        return "CTruncAvro"
    if kind == "partial":
        return f"(CPartialAvro {to_coq(list(v[0]))} {'true' if v[1] else 'false'})"
    if kind == "garbage":
        return "CGarbage"
    if kind == "jsonempty":
        return "CJsonEmpty"
    return "CData"


class IndepReader:
    """Reads the table at `root` without datashard."""

    def __init__(self, root: str):
        self.root = os.path.realpath(root)

    def _bytes(self, rel: str) -> bytes:
        with open(os.path.join(self.root, rel), "rb") as f:
            return f.read()

    def current_metadata(self) -> Dict[str, Any]:
        hint = self._bytes("metadata.version-hint.text").decode("utf-8").strip()
        name = f"v{hint}.metadata.json" if hint.isdigit() else hint
        return json.loads(self._bytes(f"metadata/{name}").decode("utf-8"))

    def snapshots(self) -> List[Dict[str, Any]]:
        return list(self.current_metadata().get("snapshots", []))

    def snapshot_files(self, snap: Dict[str, Any]) -> Tuple[str, List[str], List[str]]:
        """(list key, manifest keys, data keys) of one snapshot; raises if anything is unreadable."""
        lkey = resolve(snap["manifest_list"])
        kind, mpaths = parse_avro(self._bytes(lkey))
        if kind == "notavro":
            kind, mpaths = parse_legacy_json(self._bytes(lkey))
        if kind != "list":
            raise ValueError(f"manifest list {lkey} unreadable ({kind})")
        mkeys, dkeys = [], []
        for mp in mpaths or []:
            mk = resolve(mp)
            mkeys.append(mk)
            kind2, dpaths = parse_avro(self._bytes(mk))
            if kind2 == "notavro":
                kind2, dpaths = parse_legacy_json(self._bytes(mk))
            if kind2 != "manifest":
                raise ValueError(f"manifest {mk} unreadable ({kind2})")
            dkeys.extend(resolve(d) for d in dpaths or [])
        return lkey, mkeys, dkeys

    def reachable(self) -> Set[str]:
        """The FILES (table-relative, as the filesystem identifies them) that some retained snapshot needs."""
        import posixpath
        return {posixpath.normpath(k) for k in self.reachable_raw()}

    def reachable_raw(self) -> Set[str]:
        """The same as written (only leading slashes dropped)."""
        out: Set[str] = set()
        for s in self.snapshots():
            if not s.get("manifest_list"):
                continue
            lk, mks, dks = self.snapshot_files(s)
            out.add(lk)
            out.update(mks)
            out.update(dks)
        return out

    def read_everything(self) -> Tuple[int, List[str]]:
        """Fully re-read every retained snapshot (lists, manifests, every parquet file). -> (rows, problems)."""
        import pyarrow.parquet as pq
        problems: List[str] = []
        rows = 0
        for s in self.snapshots():
            try:
                _lk, _mks, dks = self.snapshot_files(s)
            except Exception as e:
                problems.append(f"snapshot {s.get('snapshot_id')}: {type(e).__name__}: {e}")
                continue
            for dk in dks:
                try:
                    rows += pq.read_table(os.path.join(self.root, dk)).num_rows
                except Exception as e:
                    problems.append(f"snapshot {s.get('snapshot_id')}: data file {dk}: {type(e).__name__}: {str(e)[:120]}")
        return rows, problems

    def markers(self) -> Dict[str, Tuple[float, Set[str]]]:
        """{marker key: (mtime, set of keys it denotes)} for every '*.inflight' file under metadata/inflight."""
        out: Dict[str, Tuple[float, Set[str]]] = {}
        d = os.path.join(self.root, INFLIGHT)
        if not os.path.isdir(d):
            return out
        for r, _dd, fs in os.walk(d):
            for f in fs:
                if not f.endswith(".inflight"):
                    continue
                full = os.path.join(r, f)
                key = os.path.relpath(full, self.root).replace(os.sep, "/")
                stem = f[: -len(".inflight")]
                denotes = {f"data/{stem}", f"metadata/manifests/{stem}"}
                try:
                    p = json.loads(open(full, "rb").read().decode("utf-8")).get("file_path")
                    if isinstance(p, str) and p:
                        denotes = {resolve(p)}
                except Exception:
                    pass
                out[key] = (os.path.getmtime(full), denotes)
        return out

    def live_protected(self, now_s: float, timeout_ms: int) -> Set[str]:
        out: Set[str] = set()
        for _k, (mt, den) in self.markers().items():
            if mt * 1000 >= now_s * 1000 - timeout_ms:
                out |= den
        return out


def store_term(root: str) -> str:
    """The directory as a Gallina `store`."""
    root = os.path.realpath(root)
    ents = []
    for key, mt in sorted(list_tree(root).items()):
        with open(os.path.join(root, key), "rb") as f:
            bs = f.read()
        ents.append(f"({to_coq(key)}, mkObj ({int(round(mt * 1000))})%Z {content_term(classify(key, bs))})")
    return "[" + "; ".join(ents) + "]"


# ------------------------------------------------------------------------------------------ instrumented storage
class FakeTime:
    def __init__(self, now: float):
        self.now = now

    def time(self) -> float:
        return self.now


OTHER_OPS = ("write_file", "write_json", "read_file_with_etag", "write_file_cas", "get_size", "open_seekable", "makedirs", "create_lock")


def raise_fault(kind: str, name: str, path: str) -> None:
    """The exception classes a backend raises for a failing operation.  OSError family: EIO, a 404 / ENOENT for an object
    that exists (listed-then-vanished, not yet visible, unsearchable directory), EACCES, a timeout; outside the OSError
    family: an SDK error (botocore ClientError stands behind NotOSError); the ValueError the local backend's own path
    resolution raises (which read_manifest(_list)_file's Avro attempt catches like an OSError: FRaise for the model)."""
    if kind == "raise":
        raise OSError(5, f"injected I/O error on {name}({path})")
    if kind == "missing":
        raise FileNotFoundError(2, f"injected: no such file {path}")
    if kind == "perm":
        raise PermissionError(13, f"injected: permission denied on {name}({path})")
    if kind == "timeout":
        raise TimeoutError(110, f"injected: {name}({path}) timed out")
    if kind == "raisex":
        raise NotOSError(f"injected non-OSError failure on {name}({path})")
    if kind == "value":
        raise ValueError(f"injected: Security Error: {name}({path}) resolved outside the base directory")


def minimal_backend(inner: Any) -> Any:
    """A third-party backend: a class that derives from the library's StorageBackend and implements ONLY its abstract
    methods (each delegating to `inner`, the table's own backend object).  Everything else -- every helper the abstract
    base class offers with a default implementation, today's and tomorrow's -- is the base class's default, composed from
    these primitives, which is what a collection on such a backend exercises."""
    from datashard.storage_backend import StorageBackend
    names = sorted(getattr(StorageBackend, "__abstractmethods__", ()))

    def deleg(name: str) -> Any:
        def method(self: Any, *a: Any, **kw: Any) -> Any:
            return getattr(self._impl, name)(*a, **kw)
        method.__name__ = name
        return method
    cls = type("ThirdPartyBackend", (StorageBackend,), {n: deleg(n) for n in names})
    obj = cls()
    obj._impl = inner
    return obj


class os_failing:
    """with os_failing(fn, errno_name, target): ...  -- BELOW the backend interface: while the block runs, the named family of
    operating-system calls fails with OSError(errno) for the path `target` itself (what a directory that can be listed but
    not searched, a stale NFS handle or a failing disk does to ONE object; every other path is served normally).
    fn: "stat" (os.stat / os.lstat: existence, type, size, mtime), "scandir" (os.scandir / os.listdir), "open" (open / os.open)."""

    def __init__(self, fn: str, errno_name: str, target: str):
        import errno as _errno
        self.fn, self.code, self.target = fn, getattr(_errno, errno_name), os.path.realpath(target)

    def _hit(self, p: Any) -> bool:
        try:
            q = os.fspath(p)
        except TypeError:
            return False
        if isinstance(q, bytes):
            q = os.fsdecode(q)
        return os.path.abspath(q) == self.target or os.path.realpath(q) == self.target

    def __enter__(self) -> "os_failing":
        import builtins
        names = {"stat": [(os, "stat"), (os, "lstat")], "scandir": [(os, "scandir"), (os, "listdir")],
                 "open": [(builtins, "open"), (io, "open"), (os, "open")]}[self.fn]
        self._saved = [(m, n, getattr(m, n)) for m, n in names]
        probing = [False]
        for m, n, real in self._saved:
            def patched(p: Any = ".", *a: Any, _real: Any = real, **kw: Any) -> Any:
                if not probing[0]:
                    probing[0] = True          # _hit itself stats (realpath): not to be faulted
                    try:
                        hit = self._hit(p)
                    finally:
                        probing[0] = False
                    if hit:
                        raise OSError(self.code, os.strerror(self.code), os.fspath(p))
                return _real(p, *a, **kw)
            setattr(m, n, patched)
        return self

    def __exit__(self, *a: Any) -> None:
        for m, n, real in self._saved:
            setattr(m, n, real)


def backend_root(inner: Any) -> Optional[str]:
    """The directory a local backend (or a third-party backend delegating to one) stores the table in; None: not a directory."""
    for o in (inner, getattr(inner, "_impl", None)):
        bp = getattr(o, "base_path", None)
        if isinstance(bp, str):
            return bp
    return None


class TracingStorage:
    """The real backend with every storage operation recorded as (op, path) and faults injected.

    The backend OBJECT is instrumented, not wrapped: the collector is handed a copy of the backend whose class is a
    subclass of the backend's own class with the storage operations overridden.  A helper method of the backend that is
    composed from these operations (a default implementation in the abstract base class, a convenience added later) thus
    has its constituent operations recorded and faulted like the collector's own calls; an operation called from INSIDE
    another recorded operation (read_json -> read_file) is part of that operation and is neither recorded nor faulted.

    plan: list of {"op": "E", "key": path, "occ": n (0-based occurrence of this (op,key)) or "*", "kind": a fault kind}
    """

    def __init__(self, inner: Any, plan: Optional[List[Dict[str, Any]]] = None):
        self._plan = list(plan or [])
        self.trace: List[Tuple[str, str, int]] = []     # (op code, path, fault code)
        self.unknown: List[str] = []
        self._seen: Dict[Tuple[str, str], int] = {}
        self._depth = threading.local()
        self.mark: Optional[Tuple[int, int]] = None     # trace indices spanned by the first metadata refresh()
        self._root = backend_root(inner)
        self._inner = self._instrument(inner)

    def _instrument(self, inner: Any) -> Any:
        tracer = self
        base = type(inner)

        def over(name: str) -> Any:
            base_method = getattr(base, name)

            def method(obj: Any, *a: Any, **kw: Any) -> Any:
                return tracer._call(name, lambda *b, **kb: base_method(obj, *b, **kb), *a, **kw)
            method.__name__ = name
            return method
        ns = {n: over(n) for n in list(OPS) + list(OTHER_OPS) if callable(getattr(base, n, None))}
        obj = copy.copy(inner)
        obj.__class__ = type("Traced" + base.__name__, (base,), ns)
        return obj

    def __getattr__(self, name: str) -> Any:
        return getattr(self._inner, name)

    def _call(self, name: str, fn: Any, *a: Any, **kw: Any) -> Any:
        if getattr(self._depth, "n", 0):
            return fn(*a, **kw)                          # inside another recorded operation: part of that operation
        self._depth.n = 1
        try:
            if name in OPS:
                return self._op(name, fn, *a, **kw)
            self.trace.append(("?" + name, str(a[0]) if a else "", 0))
            return fn(*a, **kw)
        finally:
            self._depth.n = 0

    def _op(self, name: str, attr: Any, *a: Any, **kw: Any) -> Any:
        code = OPS[name]
        path = a[0] if a else next(iter(kw.values()), "")
        occ = self._seen.get((code, path), 0)
        self._seen[(code, path)] = occ + 1
        kind = None
        hit: Dict[str, Any] = {}
        for f in self._plan:
            if f["op"] == code and f["key"] == path and f["occ"] in (occ, "*"):     # "*": the call fails every time
                kind, hit = f["kind"], f
                break
        self.trace.append((code, path, (hit.get("code") or FAULT_CODE.get(kind, 4 if kind.startswith("os:") else 0)) if kind else 0))
        if kind == "stream":
            # the stream misbehaves part-way: `code` says what that amounts to for the model (see c07.stream_faults)
            real = attr(*a, **kw)
            try:
                data = real.read()
            finally:
                real.close()
            return FaultyStream(data, hit["mode"], hit["k"])
        if kind in RAISING:
            raise_fault(kind, name, path)
        if kind is not None and kind.startswith("os:"):
            # below the interface: the backend's own operation runs while the OS refuses the object (kind = "os:<fn>:<ERRNO>")
            _os, fn, err = kind.split(":")
            if self._root is None:
                return attr(*a, **kw)
            with os_failing(fn, err, os.path.join(self._root, str(path).lstrip("/"))):
                return attr(*a, **kw)
        if kind == "bad":
            if code == "E":
                return False
            if code == "O":
                return io.BytesIO(b"\x00\x01 these bytes are neither Avro nor JSON \xff")
            if code == "R":
                return b"\x00\x01 these bytes are neither Avro nor JSON \xff"
            if code == "L":
                return list(attr(*a, **kw)) + ["../x"]
            if code == "J":
                json.loads("\x00 this is not JSON")      # what read_json makes of garbled bytes: json.JSONDecodeError
            raise OSError(5, f"injected I/O error on {name}({path})")
        return attr(*a, **kw)


def phase_of(exc: BaseException) -> int:
    """Which abort of collect() this is (Model/GC.v out_code), from the message the code raises."""
    msg = str(exc)
    if "cannot read reachable manifest list" in msg:
        return 1
    if "cannot read reachable manifest " in msg:
        return 2
    if "in-flight markers" in msg:
        return 3
    for pre, code in (("data", 4), ("metadata/manifests", 5)):
        if f"cannot list files under {pre}:" in msg or f"listing under '{pre}' returned" in msg:
            return code
    return -1


def run_collect(table: Any, grace_ms: int, now_s: float, plan: Optional[List[Dict[str, Any]]] = None,
                table_path_override: Optional[str] = None, backend: Optional[str] = None) -> Dict[str, Any]:
    """One real Table.garbage_collect(grace_ms) with the clock frozen at now_s and an optional fault plan.

    backend="thirdparty": the collection runs on a backend that implements only the abstract interface (minimal_backend).

    Returns {raised, exc_type, exc, phase, trace (post-refresh), pre_trace, keep_sets, unknown}."""
    import datashard.garbage_collector as gcmod
    from datashard.garbage_collector import GarbageCollectionAborted, GarbageCollector
    st = TracingStorage(minimal_backend(table.storage) if backend == "thirdparty" else table.storage, plan)
    saved = (table.file_manager.storage, table.metadata_manager.storage, gcmod.time, table.table_path,
             GarbageCollector._gc_prefix, table.metadata_manager.refresh)
    keep_sets: List[Tuple[str, List[str]]] = []
    real_prefix = GarbageCollector._gc_prefix
    real_refresh = table.metadata_manager.refresh

    def spy_prefix(self: Any, prefix: str, reachable_set: Set[str], grace_period_ms: int) -> int:
        keep_sets.append((prefix, sorted(reachable_set)))
        return real_prefix(self, prefix, reachable_set, grace_period_ms)

    def spy_refresh() -> Any:
        start = len(st.trace)
        try:
            return real_refresh()
        finally:
            if st.mark is None:
                st.mark = (start, len(st.trace))

    out: Dict[str, Any] = {"raised": False, "exc_type": None, "exc": None, "phase": 0}
    try:
        table.file_manager.storage = st
        table.metadata_manager.storage = st
        table.metadata_manager.refresh = spy_refresh
        gcmod.time = FakeTime(now_s)
        GarbageCollector._gc_prefix = spy_prefix
        if table_path_override is not None:
            table.table_path = table_path_override
        try:
            out["stats"] = table.garbage_collect(grace_ms)
        except Exception as e:  # noqa: BLE001 - the check judges the type
            out["raised"] = True
            out["exc_type"] = type(e).__name__
            out["exc"] = str(e)[:300]
            out["aborted_type_ok"] = isinstance(e, GarbageCollectionAborted)
            out["phase"] = phase_of(e) if isinstance(e, GarbageCollectionAborted) else -1
    finally:
        table.file_manager.storage, table.metadata_manager.storage, gcmod.time, table.table_path = saved[0], saved[1], saved[2], saved[3]
        GarbageCollector._gc_prefix = saved[4]
        try:
            del table.metadata_manager.refresh
        except AttributeError:
            table.metadata_manager.refresh = saved[5]
    # projection: the calls made inside metadata_manager.refresh(), and the collector's own check of the version hint,
    # concern the pointer plane, which is not part of the collector model
    a, b = st.mark if st.mark is not None else (len(st.trace), len(st.trace))
    rest = [c for c in st.trace[:a] + st.trace[b:] if not is_announcement_plane(c[1])]
    out["pre_trace"] = st.trace[a:b] + [c for c in rest if is_pointer_plane(c[1])]
    out["trace"] = [c for c in rest if not is_pointer_plane(c[1])]
    out["keep_sets"] = keep_sets
    out["unknown"] = [t for t in st.trace if t[0].startswith("?") and not is_announcement_plane(t[1])]
    return out


# ------------------------------------------------------------------------------------------ model side
REQ = ["DS.Model.PyStr", "DS.Gen.GenNorm", "DS.Model.GC"]


def oracle_term(faults: Sequence[Tuple[int, str]]) -> str:
    if not faults:
        return "no_faults"
    return "(oracle_of [" + "; ".join(f"(({i})%nat, {FAULT_CTOR[k]})" for i, k in faults) + "])"


def gc_expr(tp: str, grace_ms: int, now_ms: int, timeout_ms: int, faults: Sequence[Tuple[int, str]], snaps: List[str], store: str) -> str:
    return (f"render (gc_run {to_coq(tp)} ({grace_ms})%Z ({now_ms})%Z ({timeout_ms})%Z {oracle_term(faults)} "
            f"{to_coq(list(snaps))} {store})")


def parse_render(v: Any) -> Dict[str, Any]:
    out_code, deleted, reach, prot, trace, final_keys = v
    rl, rm, rd = reach
    return {"out": out_code, "deleted": list(deleted), "rl": list(rl), "rm": list(rm), "rd": list(rd), "prot": list(prot),
            "trace": [(c[0], c[1], c[2]) for c in trace], "final": list(final_keys)}


def per_key(trace: Sequence[Tuple[str, str, int]]) -> Dict[str, List[Tuple[str, int]]]:
    d: Dict[str, List[Tuple[str, int]]] = {}
    for op, key, f in trace:
        d.setdefault(key, []).append((op, f))
    return d


def map_fault_index(model_trace: Sequence[Tuple[str, str, int]], op: str, key: str, occ: int) -> Optional[int]:
    n = 0
    for i, (o, k, _f) in enumerate(model_trace):
        if o == op and k == key:
            if n == occ:
                return i
            n += 1
    return None


def compare(real: Dict[str, Any], before: Dict[str, float], after: Dict[str, float], model: Dict[str, Any], nplan: int = 1) -> List[str]:
    """Differences between one real collection and the model's prediction (empty list = agree)."""
    diffs: List[str] = []
    if real["unknown"]:
        diffs.append(f"storage calls the model does not know: {real['unknown'][:4]}")
    real_out = real["phase"] if real["raised"] else 0
    if real_out != model["out"]:
        diffs.append(f"outcome: code={real_out} ({real.get('exc_type')}: {real.get('exc')}) model={model['out']}")
    gone = set(before) - set(after)
    real_deleted = {k for k in gone if not k.startswith(INFLIGHT + "/")}
    if real_deleted != set(model["deleted"]):
        diffs.append(f"deleted: code={sorted(real_deleted)} model={sorted(model['deleted'])}")
    if set(after) != set(model["final"]):
        diffs.append(f"final key set differs: only code={sorted(set(after) - set(model['final']))[:5]} only model={sorted(set(model['final']) - set(after))[:5]}")
    ks = dict(real["keep_sets"])
    if "data" in ks and set(ks["data"]) != set(model["rd"]) | set(model["prot"]):
        diffs.append(f"keep set (data): code={ks['data']} model={sorted(set(model['rd']) | set(model['prot']))}")
    if "metadata/manifests" in ks and set(ks["metadata/manifests"]) != set(model["rm"]) | set(model["rl"]) | set(model["prot"]):
        diffs.append("keep set (manifests) differs")
    rt, mt = real["trace"], model["trace"]
    if model["out"] in (1, 2) and real_out == model["out"]:
        # aborted while reading lists / manifests: the code iterates Python sets, so WHICH files were read before the
        # failing one depends on hash order; compare the calls on each file, not how many files came first
        pr, pm = per_key(rt), per_key(mt)
        faulted_r = {k: v for k, v in pr.items() if any(f for _o, f in v)}
        faulted_m = {k: v for k, v in pm.items() if any(f for _o, f in v)}
        # with several planned faults in this phase, WHICH one is met first also depends on the iteration order
        strict = nplan <= 1 or set(faulted_r) == set(faulted_m)
        for k in set(pr) & set(pm):
            if pr[k] != pm[k] and (strict or (k in faulted_r) == (k in faulted_m)):
                diffs.append(f"calls on {k}: code={pr[k]} model={pm[k]}")
        if faulted_r != faulted_m and strict:
            diffs.append(f"faulted calls differ: code={faulted_r} model={faulted_m}")
    elif sorted(rt) != sorted(mt):
        diffs.append(f"storage-call multiset differs: only code={sorted(set(rt) - set(mt))[:5]} only model={sorted(set(mt) - set(rt))[:5]} (len {len(rt)} vs {len(mt)})")
    elif per_key(rt) != per_key(mt):
        diffs.append("per-key call order differs")
    elif [t for t in rt if t[0] == "L"] != [t for t in mt if t[0] == "L"]:
        diffs.append("order of the listing calls differs")
    return diffs


class CaseTimeout(Exception):
    """A library operation exceeded its time budget (reported as a violation, never a stuck check)."""


class bounded:
    """with bounded(seconds): ...   -- SIGALRM-based limit for one library operation in a worker process."""

    def __init__(self, seconds: float):
        self.seconds = seconds

    def __enter__(self) -> "bounded":
        import signal

        def on_alarm(_sig: int, _frm: Any) -> None:
            raise CaseTimeout(f"library operation still running after {self.seconds:.0f} s")
        self._old = signal.signal(signal.SIGALRM, on_alarm)
        signal.setitimer(signal.ITIMER_REAL, self.seconds)
        return self

    def __exit__(self, *a: Any) -> None:
        import signal
        signal.setitimer(signal.ITIMER_REAL, 0)
        signal.signal(signal.SIGALRM, self._old)


def limit_worker_memory(gib: float = 6.0) -> None:
    """Pool initializer: runaway allocation in the library under test becomes MemoryError in that worker."""
    import resource
    lim = int(gib * (1 << 30))
    try:
        resource.setrlimit(resource.RLIMIT_AS, (lim, lim))
    except (ValueError, OSError):
        pass


def chunk_for(n: int) -> int:
    """coq_eval chunk size giving at most 15 files: coqbuild.coq_eval only drains a job's output pipe once all jobs are
    started, so more files than job slots with > 64 KB of output each would block."""
    return max(1, -(-n // 15))


def copy_table(src: str, dst: str) -> None:
    shutil.copytree(src, dst, symlinks=True)
