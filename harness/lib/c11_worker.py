"""Bounded execution of library operations for the C11 check.

Two mechanisms, so that a change which makes the library loop or allocate without bound becomes a
REPORTED outcome and never a stuck check:

  Worker      a persistent child process (address space limited with RLIMIT_AS) that runs whole cases
              (`harness.props.c11.run_case`) on request; the parent waits with a per-case deadline, kills
              and restarts the child when the deadline passes or the child dies, and hands the caller
              ("timeout", seconds) / ("died", returncode) instead of a result.
  time_limit  SIGALRM-based deadline around short in-process library calls (validation helpers used
              by the correspondence); raises LibraryHang.

Run as a module (`python -m harness.lib.c11_worker`) this file is the child: length-prefixed pickles
on stdin/stdout; anything the library prints goes to stderr.
"""
from __future__ import annotations

import atexit
import os
import pickle
import select
import signal
import struct
import subprocess
import sys
import time
from contextlib import contextmanager
from typing import Any, Optional, Tuple

MEM_LIMIT = int(os.environ.get("C11_WORKER_MEM", str(8 << 30)))      # bytes of address space for the child


class LibraryHang(BaseException):
    """Not an Exception: neither the library's nor the harness' `except Exception` may swallow the deadline."""


@contextmanager
def time_limit(seconds: float, what: str = ""):
    def on_alarm(_sig, _frm):
        raise LibraryHang(what)

    old = signal.signal(signal.SIGALRM, on_alarm)
    signal.setitimer(signal.ITIMER_REAL, seconds)
    try:
        yield
    finally:
        signal.setitimer(signal.ITIMER_REAL, 0)
        signal.signal(signal.SIGALRM, old)


def _read_exact(fd: int, n: int, deadline: Optional[float]) -> Optional[bytes]:
    buf = b""
    while len(buf) < n:
        if deadline is not None:
            left = deadline - time.time()
            if left <= 0:
                return None
            r, _, _ = select.select([fd], [], [], left)
            if not r:
                return None
        chunk = os.read(fd, n - len(buf))
        if not chunk:
            raise EOFError
        buf += chunk
    return buf


class Worker:
    def __init__(self) -> None:
        self.p: Optional[subprocess.Popen] = None
        self.restarts = 0
        atexit.register(self.close)

    def _start(self) -> None:
        self.p = subprocess.Popen([sys.executable, "-u", "-m", "harness.lib.c11_worker"],
                                  stdin=subprocess.PIPE, stdout=subprocess.PIPE, env=dict(os.environ))

    def close(self) -> None:
        if self.p is not None:
            try:
                self.p.kill()
                self.p.wait(timeout=5)
            except Exception:                        # noqa: BLE001
                pass
            self.p = None

    def call(self, fn: str, args: Tuple[Any, ...], timeout: float) -> Tuple[str, Any]:
        """("ok", result) | ("raised", text) | ("timeout", seconds) | ("died", returncode)"""
        if self.p is None or self.p.poll() is not None:
            self._start()
        assert self.p is not None and self.p.stdin is not None and self.p.stdout is not None
        msg = pickle.dumps((fn, args))
        try:
            self.p.stdin.write(struct.pack("<Q", len(msg)) + msg)
            self.p.stdin.flush()
            fd = self.p.stdout.fileno()
            deadline = time.time() + timeout
            head = _read_exact(fd, 8, deadline)
            body = _read_exact(fd, struct.unpack("<Q", head)[0], deadline) if head is not None else None
        except (EOFError, BrokenPipeError, OSError):
            rc = self.p.wait()
            self.p = None
            self.restarts += 1
            return ("died", rc)
        if body is None:
            self.close()
            self.restarts += 1
            return ("timeout", timeout)
        return pickle.loads(body)


def _child_main() -> int:
    import resource
    out = os.fdopen(os.dup(1), "wb")
    os.dup2(2, 1)                                   # the library may print: keep the protocol channel clean
    try:
        resource.setrlimit(resource.RLIMIT_AS, (MEM_LIMIT, MEM_LIMIT))
    except (ValueError, OSError):
        pass
    inp = sys.stdin.buffer
    from harness.props import c11                   # noqa: WPS433 - the functions that may be requested
    while True:
        head = inp.read(8)
        if len(head) < 8:
            return 0
        fn, args = pickle.loads(inp.read(struct.unpack("<Q", head)[0]))
        try:
            res = ("ok", getattr(c11, fn)(*args))
        except BaseException as e:                  # noqa: BLE001 - report, keep serving
            import traceback
            res = ("raised", f"{type(e).__name__}: {e}\n{traceback.format_exc()[-1500:]}")
        data = pickle.dumps(res)
        out.write(struct.pack("<Q", len(data)) + data)
        out.flush()


if __name__ == "__main__":
    sys.exit(_child_main())
